#!/bin/bash
# usage: try_scratch.sh <patch.diff> <property>...  — apply the patch to a scratch copy of /repo's source (never /repo itself) and run the quick checks there
set -u
patch=$1; shift
d=$(mktemp -d /tmp/defracheck-try-XXXXXX)
trap 'rm -rf "$d"' EXIT
mkdir -p $d/verif && cp /verif/known_findings.json $d/verif/
rsync -a --exclude .git /repo/ $d/repo/
cd $d/repo || exit 2
grep -v '^# ' "$patch" > $d/p.diff
if ! git apply --check $d/p.diff 2>/dev/null; then echo "PATCH DOES NOT APPLY: $patch"; exit 3; fi
git apply $d/p.diff
for p in "$@"; do
  /verif/bin/defracheck -repo $d/repo -property "$p" -verif $d/verif 2>&1 | grep -E "^defracheck|VIOLATION|^  [a-z].*\.go:" | sed "s|$d/repo/||g" | cut -c1-420
done
