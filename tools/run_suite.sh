#!/bin/bash
# usage: run_suite.sh <repo-dir> <out.json>   — runs the pinned baseline suite in <repo-dir>, then
# prints the stable-pass tests of BASELINE.json that did not pass.
set -u
dir=${1:-/repo}; out=${2:-/tmp/suite.json}
cd "$dir" || exit 2
export GOFLAGS=-mod=mod GOPROXY=off
/usr/bin/time -f "suite wall %es" go test -mod=mod -json -vet=off -count=1 -timeout 25m ./... > "$out" 2>"$out.err"
python3 - "$out" <<'P'
import json,sys
base=set(json.load(open('/root/.vp/BASELINE.json'))['stable_pass'])
res={}
for l in open(sys.argv[1]):
    try: e=json.loads(l)
    except: continue
    if e.get('Test') and e.get('Action') in('pass','fail','skip'):
        res[e['Package']+'::'+e['Test']]=e['Action']
passed={k for k,v in res.items() if v=='pass'}
missing=sorted(base-passed)
print('baseline stable:',len(base),'passed now:',len(passed&base),'NOT passing:',len(missing))
for m in missing[:40]: print('  NOTPASS',m,res.get(m,'absent'))
P
tail -3 "$out.err"
