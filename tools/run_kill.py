#!/usr/bin/env python3
"""Applies every hand-written kill patch under checker/validation/kill to a scratch copy of /repo's source
and runs the quick checks of the properties named in its header: a violation must be reported, and — when the
file name starts with a rule name — by that rule. Files named MISSED-* document changes a rule was expected
to report and does not; they are listed, not counted as failures of this script."""
import os, re, shutil, subprocess, sys, tempfile, json, glob, concurrent.futures
V = os.path.dirname(os.path.dirname(os.path.abspath(__file__)))
BIN = os.path.join(V, 'bin', 'defracheck')
D = os.path.join(V, 'checker', 'validation', 'kill')
allrules = set()
for f in glob.glob(os.path.join(V, 'evidence', 'C*.json')):
    allrules |= set(json.load(open(f))['coverage']['per_rule'])
def sh(cmd, cwd=None):
    p = subprocess.run(cmd, shell=True, cwd=cwd, capture_output=True, text=True)
    return p.returncode, p.stdout + p.stderr
def rule_of(fn):
    base = fn[:-5]
    if base.startswith('MISSED-'):
        base = base[7:]
    best = ''
    for r in allrules:
        if base.upper().startswith(r) and len(r) > len(best):
            best = r
    return best
def run(fn):
    props = []
    for l in open(os.path.join(D, fn)):
        if l.startswith('# properties:'):
            props = l.split(':', 1)[1].split()
    scratch = tempfile.mkdtemp(prefix='defracheck-kill-')
    try:
        src, vd = os.path.join(scratch, 'repo'), os.path.join(scratch, 'verif')
        os.makedirs(vd)
        shutil.copy(os.path.join(V, 'known_findings.json'), vd)
        sh(f'rsync -a --exclude .git /repo/ {src}/')
        pf = os.path.join(scratch, 'p.diff')
        open(pf, 'w').write(''.join(l for l in open(os.path.join(D, fn)) if not l.startswith('# ')))
        rc, o = sh(f'git apply --check {pf} && git apply {pf}', cwd=src)
        if rc != 0:
            return fn, 'skipped (no longer applies)', ''
        rules = set()
        for p in props:
            rc, o = sh(f'{BIN} -repo {src} -property {p} -verif {vd}')
            if 'replay=load-failed' in o:
                return fn, 'skipped (patched tree does not type-check)', ''
            if rc == 1:
                rules |= set(re.findall(r'\[([A-Z][A-Z0-9-]+)\]', o))
        want = rule_of(fn)
        if not rules:
            return fn, 'MISSED', ''
        if want and want not in rules:
            return fn, 'OTHER-RULE', 'expected ' + want + ', reported by ' + ','.join(sorted(rules))
        return fn, 'detected', ','.join(sorted(rules))
    finally:
        shutil.rmtree(scratch, ignore_errors=True)
fns = [f for f in sorted(os.listdir(D)) if f.endswith('.diff') and (len(sys.argv) < 2 or f[:-5] in sys.argv[1:])]
fail = 0
with concurrent.futures.ThreadPoolExecutor(max_workers=3) as ex:
    for fn, st, detail in ex.map(run, fns):
        print(f'{fn:60s} {st} {detail}')
        if st in ('MISSED', 'OTHER-RULE') and not fn.startswith('MISSED-'):
            fail += 1
sys.exit(1 if fail else 0)
