#!/usr/bin/env python3
"""Applies every behaviour-preserving patch under checker/validation/neutral to a scratch copy of /repo's
source and runs the quick checks of the properties named in its header: every check must stay silent."""
import os, re, shutil, subprocess, sys, tempfile, concurrent.futures
V = os.path.dirname(os.path.dirname(os.path.abspath(__file__)))
BIN = os.path.join(V, 'bin', 'defracheck')
D = os.path.join(V, 'checker', 'validation', 'neutral')
def sh(cmd, cwd=None):
    p = subprocess.run(cmd, shell=True, cwd=cwd, capture_output=True, text=True)
    return p.returncode, p.stdout + p.stderr
def run(fn):
    props = []
    for l in open(os.path.join(D, fn)):
        if l.startswith('# properties:'):
            props = l.split(':', 1)[1].split()
    scratch = tempfile.mkdtemp(prefix='defracheck-neutral-')
    try:
        src, vd = os.path.join(scratch, 'repo'), os.path.join(scratch, 'verif')
        os.makedirs(vd)
        shutil.copy(os.path.join(V, 'known_findings.json'), vd)
        sh(f'rsync -a --exclude .git /repo/ {src}/')
        pf = os.path.join(scratch, 'p.diff')
        open(pf, 'w').write(''.join(l for l in open(os.path.join(D, fn)) if not l.startswith('# ')))
        rc, o = sh(f'git apply --check {pf} && git apply {pf}', cwd=src)
        if rc != 0:
            return fn, 'skipped (no longer applies)', ''
        bad = []
        for p in props:
            rc, o = sh(f'{BIN} -repo {src} -property {p} -verif {vd}')
            if 'replay=load-failed' in o:
                return fn, 'BUILD-FAILS', 'the patched tree does not type-check'
            if rc != 0:
                bad.append(p + ': ' + ' '.join(sorted(set(re.findall(r'\[([A-Z0-9-]+)\]', o)))))
        return fn, 'FALSE-ALARM' if bad else 'silent', '; '.join(bad)
    finally:
        shutil.rmtree(scratch, ignore_errors=True)
fns = [f for f in sorted(os.listdir(D)) if f.endswith('.diff') and (len(sys.argv)<2 or f[:-5] in sys.argv[1:])]
fail = 0
with concurrent.futures.ThreadPoolExecutor(max_workers=3) as ex:
    for fn, st, detail in ex.map(run, fns):
        print(f'{fn:50s} {st} {detail}')
        if st in ('FALSE-ALARM', 'BUILD-FAILS'):
            fail += 1
sys.exit(1 if fail else 0)
