#!/bin/bash
# usage: recheck_seed.sh <name> <pkg> <TestRegex>  — re-run specific existing tests with the seeded patch applied (3 times)
name=$1; pkg=$2; re=$3
wt=/tmp/confirm/re_$name
git -C /repo worktree remove --force $wt 2>/dev/null
git -C /repo worktree add -q --detach $wt HEAD || exit 2
cd $wt && git apply /verif/seeded/$name/patch.diff || { echo NOAPPLY; git -C /repo worktree remove --force $wt; exit 3; }
export GOFLAGS=-mod=mod GOPROXY=off
go test -count=3 -run "$re" $pkg 2>&1 | grep -E "^(ok|FAIL|---)" | sort | uniq -c
cd /; git -C /repo worktree remove --force $wt
