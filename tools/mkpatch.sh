#!/bin/bash
# usage: mkpatch.sh <neutral|kill> <name> "<title>" "<properties>" <file>...   (python edit script on stdin, cwd = scratch copy root)
# Builds checker/validation/<kind>/<name>.diff from an edit of copies of the named /repo files.
set -eu
kind=$1; name=$2; title=$3; props=$4; shift 4
S=$(mktemp -d /tmp/mkpatch.XXXXXX); trap 'rm -rf "$S"' EXIT
for f in "$@"; do mkdir -p $S/a/$(dirname $f) $S/b/$(dirname $f); cp /repo/$f $S/a/$f; cp /repo/$f $S/b/$f; done
(cd $S/b && python3 -)
out=${MKPATCH_OUT:-/verif/checker/validation/$kind}/$name.diff
{ echo "# $kind: $title"; echo "# properties: $props"; cd $S; for f in "$@"; do diff -u a/$f b/$f | sed -E 's/^(---|\+\+\+) ([ab]\/[^\t]*).*/\1 \2/' || true; done; } > $out
echo "wrote $out ($(grep -c '^[-+][^-+]' $out) changed lines)"
