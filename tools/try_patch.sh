#!/bin/bash
# usage: try_patch.sh <patch.diff> <property>...   — apply the patch to /repo, run the quick checks, undo it.
set -u
patch=$1; shift
cd /repo || exit 2
if ! git diff --quiet; then echo "/repo dirty"; exit 2; fi
if ! git apply --check "$patch" 2>/dev/null; then
  echo "PATCH DOES NOT APPLY: $patch"; exit 3
fi
git apply "$patch" || exit 3
for p in "$@"; do
  /verif/bin/defracheck -repo /repo -property "$p" -verif /tmp/tryverif 2>&1 | grep -E "^defracheck|VIOLATION|^  [a-z].*\.go:" | cut -c1-420
done
git checkout -- . ; git status --short | head -3
