#!/usr/bin/env python3
"""Thorough tier for one property.

1. the property's rules on /repo (same as quick, evidence tier=thorough);
2. checker self-validation on scratch copies of /repo's source (rsync without .git into a fresh
   mktemp directory, removed straight afterwards):
     - kill set: every `fix:` commit of /repo recorded for this property in known_findings.json is
       reversed; every confirmed seeded change under /verif/seeded expected for this property and every
       hand-written patch under checker/validation/kill for this property is applied — the check must
       report a violation;
     - neutral set: every behaviour-preserving patch under checker/validation/neutral for this property
       is applied — the check must stay silent (apart from recorded known findings);
   a patch that no longer applies is reported as skipped, never as a failure;
3. whole-module advisory scans (error flow outside the property's cone) and cross-reference lint counts,
   recorded in the evidence only.
Exit: 1 + VIOLATION lines if the property's rules fail on /repo; 2 if the self-validation fails
(the check itself is then broken); 0 otherwise."""
import json, os, re, shutil, subprocess, sys, tempfile, time, concurrent.futures

V = os.path.dirname(os.path.dirname(os.path.abspath(__file__)))
REPO = os.environ.get('VERIF_REPO', '/repo')
prop = sys.argv[1]
BIN = os.path.join(V, 'bin', 'defracheck')
t0 = time.time()

def sh(cmd, cwd=None, timeout=1800):
    p = subprocess.run(cmd, shell=True, cwd=cwd, capture_output=True, text=True, timeout=timeout)
    return p.returncode, p.stdout + p.stderr

# 1. the rules on /repo
rc0, out0 = sh(f'{BIN} -repo {REPO} -property {prop} -tier thorough')
sys.stdout.write(out0)

known = json.load(open(os.path.join(V, 'known_findings.json')))

def header_props(path):
    props = []
    for l in open(path):
        if l.startswith('# properties:'):
            props = l.split(':', 1)[1].split()
        if not l.startswith('#'):
            break
    return props

def strip_header(path, dst):
    with open(dst, 'w') as f:
        for l in open(path):
            if not l.startswith('# '):
                f.write(l)

jobs = []  # (kind, name, patchfile)
tmpd = tempfile.mkdtemp(prefix='defracheck-thorough-')
try:
    # reversed fix commits
    for line in known.get('fixed', []):
        m = re.match(r'fixed: property=(C\d+) ([0-9a-f]{7,})', line)
        if not m or m.group(1) != prop:
            continue
        h = m.group(2)
        pf = os.path.join(tmpd, f'rev_{h}.diff')
        rc, _ = sh(f'git -C {REPO} diff {h} {h}~1 > {pf}')
        if rc == 0 and os.path.getsize(pf) > 0:
            jobs.append(('kill', f'reverse-fix-{h}', pf))
    # seeded changes expected for this property
    exp_path = os.path.join(V, 'seeded', 'EXPECTED.json')
    expected = json.load(open(exp_path)) if os.path.exists(exp_path) else {}
    for name, info in sorted(expected.items()):
        if prop in info.get('caught_by', []):
            pf = os.path.join(V, 'seeded', name, 'patch.diff')
            if os.path.exists(pf):
                jobs.append(('kill', f'seeded-{name}', pf))
    for kind in ('kill', 'neutral'):
        d = os.path.join(V, 'checker', 'validation', kind)
        for fn in sorted(os.listdir(d)) if os.path.isdir(d) else []:
            if fn.endswith('.diff') and prop in header_props(os.path.join(d, fn)):
                pf = os.path.join(tmpd, f'{kind}_{fn}')
                strip_header(os.path.join(d, fn), pf)
                jobs.append((kind, fn[:-5], pf))

    def run(job):
        kind, name, pf = job
        scratch = tempfile.mkdtemp(prefix='defracheck-scratch-')
        try:
            src = os.path.join(scratch, 'repo')
            vd = os.path.join(scratch, 'verif')
            os.makedirs(vd)
            shutil.copy(os.path.join(V, 'known_findings.json'), vd)
            rc, o = sh(f'rsync -a --exclude .git {REPO}/ {src}/')
            if rc != 0:
                return (kind, name, 'skipped', 'rsync failed')
            rc, o = sh(f'git apply --check {pf} && git apply {pf}', cwd=src)
            if rc != 0:
                return (kind, name, 'skipped', 'patch no longer applies to the current tree')
            rc, o = sh(f'{BIN} -repo {src} -property {prop} -verif {vd}')
            if 'replay=load-failed' in o:
                return (kind, name, 'skipped', 'the patched tree no longer type-checks')
            viol = [l for l in o.splitlines() if l.startswith('VIOLATION')]
            detail = [l.strip() for l in o.splitlines() if l.startswith('  ') and '.go:' in l][:3]
            if kind == 'kill':
                return (kind, name, 'detected' if (rc == 1 and viol) else 'MISSED', '; '.join(detail)[:400])
            return (kind, name, 'silent' if rc == 0 else 'FALSE-ALARM', '; '.join(detail)[:400])
        finally:
            shutil.rmtree(scratch, ignore_errors=True)

    results = []
    with concurrent.futures.ThreadPoolExecutor(max_workers=4) as ex:
        for r in ex.map(run, jobs):
            results.append(r)
            print(f'validation {r[0]:7s} {r[1]:45s} {r[2]}')

    # 3. advisory scans / cross references (recorded only)
    adv = {}
    rc, o = sh(f"{BIN} -repo {REPO} -debug 'errflow:internal/...,net,client,event,crypto,acp/...,node,http,cli'")
    lines = [l for l in o.splitlines() if '\t' in l]
    adv['errflow_whole_module'] = {'sites_and_findings': (o.strip().splitlines() or ['?'])[-1], 'findings_outside_cones_sample': [l.split('\t')[0] + ' ' + l.split('\t')[1] + ' ' + l.split('\t')[2] for l in lines[:25]],
                                   'note': 'advisory: outside the property cones the error-flow rule has not been confirmed exact; these do not change the verdict'}
    rc, o = sh('cd %s && GOFLAGS=-mod=mod GOPROXY=off go vet ./internal/... ./net/... ./event/... ./client/... 2>&1 | grep -c "^[a-z].*\\.go:" || true' % REPO, timeout=900)
    adv['go_vet_diagnostics'] = o.strip()[-20:]
    adv['second_build_configuration'] = 'GOARCH=386 does not type-check offline (github.com/bytedance/sonic/internal/rt: missing function body) — not analysed; js/wasm files (*_js.go) not analysed'
finally:
    shutil.rmtree(tmpd, ignore_errors=True)

failed = [r for r in results if r[2] in ('MISSED', 'FALSE-ALARM')]
evp = os.path.join(V, 'evidence', prop + '.json')
try:
    ev = json.load(open(evp))
    ev['tier'] = 'thorough'
    ev['coverage']['self_validation'] = {
        'rule': 'kill patches (reversed fix commits, confirmed seeded changes, hand-written single-instance breaks) must be reported; neutral refactors must stay silent; scratch copies of the source only',
        'kill_detected': len([r for r in results if r[2] == 'detected']), 'kill_missed': len([r for r in results if r[2] == 'MISSED']),
        'neutral_silent': len([r for r in results if r[2] == 'silent']), 'neutral_false_alarm': len([r for r in results if r[2] == 'FALSE-ALARM']),
        'skipped': len([r for r in results if r[2] == 'skipped']),
        'results': [{'kind': r[0], 'patch': r[1], 'outcome': r[2], 'detail': r[3]} for r in results]}
    ev['coverage']['advisory'] = adv
    ev['wall_s'] = round(time.time() - t0, 1)
    json.dump(ev, open(evp, 'w'), indent=1)
except Exception as e:  # evidence must exist: the quick part writes it
    print('could not extend evidence:', e)
    sys.exit(2)
print(f'thorough property={prop} rules_exit={rc0} validation: {len(results)} patches, {len(failed)} failed, wall={time.time()-t0:.0f}s')
if rc0 != 0:
    sys.exit(1)
if failed:
    print('CHECKER-SELF-VALIDATION-FAILED', failed)
    sys.exit(2)
sys.exit(0)
