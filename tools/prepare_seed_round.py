#!/usr/bin/env python3
"""Prepare scratch worktrees + TASK.md for a round of seeding sub-agents.

usage: prepare_seed_round.py <dir-outside-repo-and-verif> C04 C06 ...
Each agent gets only the property text and its own worktree (nothing from /verif).
Remove the worktrees afterwards with `git -C /repo worktree remove --force <dir>/<id>`.
"""
import json, os, subprocess, sys
props={json.loads(l)['id']:json.loads(l) for l in open('/verif/properties.jsonl')}
tmpl='''You are a senior Go engineer helping to evaluate a verification framework for the open-source database sourcenetwork/defradb. Your job is to SEED a realistic regression.

Your scratch checkout: {wt}  (a git worktree of defradb at the commit under study). Work ONLY inside that directory. Do NOT read or touch /verif or /repo (you have no need for them and reading them would invalidate the experiment).

The property (full text in {wt}/OUT/property.json — read it first):
{id} — {title}
Statement: {statement}
Quantifier: {quant}
Why tests cannot settle it: {why}
Anchored files: {files}

TASK
Produce a change to defradb's non-test source that BREAKS this property, while the code still compiles and the existing test suite still passes. Then demonstrate the breakage with a new Go test (or small program) that FAILS with your change and PASSES on the unchanged tree.

Requirements for the change
- It must look like a plausible regression a developer could introduce (a refactor gone slightly wrong, an optimisation, a dropped check on one path, a wrong variable, an off-by-one, a moved statement) — not sabotage that ordinary use would expose immediately.
- It must need something specific to manifest: a particular interleaving, a crash or storage fault at a particular point, a multi-step sequence of operations, an unusual input, or two cooperating sites that each look fine alone.
- Small: usually 1–15 changed lines, non-test .go files only. Do not edit or delete existing tests.
- The tree may already contain defects; do not rely on or "re-break" something that is already broken on the unchanged tree — your demonstration must pass on the unchanged tree. If you notice behaviour on the UNCHANGED tree that itself violates the property, describe it (input and observed result) in OUT/NOTES.md.
- Produce TWO independent changes (different mechanisms, preferably different files); call them variant a and b. Prefer mechanisms and files that are NOT the most obvious ones for this property: think about which less central function, helper, sibling implementation, planner/fetcher/encoder path or error branch also has to be right for the property to hold.

Environment
- Offline sandbox. In every shell call first run: export GOFLAGS=-mod=mod GOPROXY=off   (do NOT set GOTOOLCHAIN; the default go auto-switches to the cached toolchain the module needs).
- Other jobs share this 16-core machine: always pass -p 4 to go test/go build and never run the entire ./... suite; instead run the existing tests of the packages you changed plus the most relevant tests/integration/... sub-directories (e.g. go test -p 4 -count=1 ./internal/db/... ./tests/integration/<area>/...). All of those must still pass with your change; P2P tests under tests/integration/net are timing sensitive, run them at least 3 times (-count=3) if your change can affect merging, transactions or events. Tests that need a lens .wasm artefact fail in this sandbox on the unchanged tree too and can be ignored.
- Integration tests live under tests/integration and have helpers in tests/integration (testUtils). A demonstration can be an integration-style test, a unit test placed in the relevant package, or a standalone main under a new directory.

Deliverables (write them under {wt}/OUT/, one sub-directory per variant: OUT/a/, OUT/b/)
- patch.diff : output of `git diff` for your source change only (must apply with `git apply` to a clean checkout; no test files, no OUT/ files).
- the demonstration file(s), plus in meta.json the path where each must be placed in the tree (e.g. "internal/db/seed_demo_test.go") and the exact command that runs it.
- meta.json : {{"property": "{id}", "summary": "...what was changed and why it breaks the property...", "needs_to_manifest": "...", "changed_files": [...], "demo_files": {{"<file in OUT/x>": "<destination path in tree>"}}, "demo_cmd": "...", "demo_result_with_change": "...", "demo_result_without_change": "...", "existing_tests_run": ["<commands you ran that still pass with the change>"]}}
Before finishing: verify (1) with the change applied: build OK, the existing tests you listed pass, the demo FAILS; (2) with the change reverted (git apply -R or git checkout of the changed files; do not use git stash, the stash is shared with other worktrees): the demo PASSES. Leave the worktree with the change reverted (clean `git status` except OUT/ and nothing else), and remove any large temporary files you created. In your final message give a 5-line summary per variant.
'''
base=sys.argv[1]
assert not base.startswith('/repo') and not base.startswith('/verif')
os.makedirs(base,exist_ok=True)
for pid in sys.argv[2:]:
    wt=f'{base}/{pid}'
    subprocess.run(f'git -C /repo worktree add -q --detach {wt} HEAD',shell=True,check=True)
    os.makedirs(wt+'/OUT',exist_ok=True)
    p=props[pid]
    json.dump(p,open(wt+'/OUT/property.json','w'),indent=1)
    open(wt+'/OUT/TASK.md','w').write(tmpl.format(wt=wt,id=pid,title=p['title'],statement=p['statement'],quant=p['quantifier']['text'],why=p['why_tests_cant'],files=', '.join(p['anchors']['files'])))
print('ok')
