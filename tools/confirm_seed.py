#!/usr/bin/env python3
"""Confirm one seeded change in a scratch worktree of /repo HEAD and store it under /verif/seeded/<name>/.
usage: confirm_seed.py <seed-out-dir> <name> [--suite]
Steps: apply patch -> build -> demo must FAIL; revert patch -> demo must PASS; optional full baseline suite with the patch."""
import json, os, shutil, subprocess, sys, time
src, name = sys.argv[1], sys.argv[2]
suite = '--suite' in sys.argv
env = dict(os.environ, GOFLAGS='-mod=mod', GOPROXY='off')
wt = f'/tmp/confirm/{name}'
out = f'/verif/seeded/{name}'
def sh(cmd, cwd=wt, timeout=1800):
    p = subprocess.run(cmd, shell=True, cwd=cwd, env=env, capture_output=True, text=True, timeout=timeout)
    return p.returncode, (p.stdout + p.stderr)[-3000:]
os.makedirs('/tmp/confirm', exist_ok=True)
subprocess.run(f'git -C /repo worktree remove --force {wt}', shell=True, capture_output=True)
rc, o = sh(f'git -C /repo worktree add -q --detach {wt} HEAD', cwd='/')
assert rc == 0, o
meta = json.load(open(os.path.join(src, 'meta.json')))
patch = os.path.join(src, 'patch_rebased.diff') if os.path.exists(os.path.join(src, 'patch_rebased.diff')) else os.path.join(src, 'patch.diff')
res = {'name': name, 'property': meta.get('property'), 'base_commit': subprocess.check_output(['git', '-C', '/repo', 'rev-parse', '--short', 'HEAD'], text=True).strip(), 'ran_at': time.strftime('%Y-%m-%dT%H:%M:%S')}
try:
    rc, o = sh(f'git apply --check {patch}')
    res['patch_applies'] = rc == 0
    if rc != 0:
        res['error'] = 'patch does not apply to the current /repo HEAD: ' + o[-300:]
        raise SystemExit
    # demo files
    demo_files = meta.get('demo_files') or {}
    for f, dest in demo_files.items():
        s = os.path.join(src, f)
        d = os.path.join(wt, dest)
        os.makedirs(os.path.dirname(d), exist_ok=True)
        shutil.copy(s, d)
    demo_cmd = meta['demo_cmd']
    sh(f'git apply {patch}')
    rc, o = sh('go build ./...')
    res['build_with_change'] = rc == 0
    t0 = time.time()
    rc1, o1 = sh(demo_cmd)
    res['demo_with_change'] = {'exit': rc1, 'tail': o1[-600:], 'secs': round(time.time() - t0, 1)}
    changed = subprocess.check_output('git diff --name-only', shell=True, cwd=wt, text=True).split()
    sh('git checkout -- ' + ' '.join(changed))
    rc2, o2 = sh(demo_cmd)
    res['demo_without_change'] = {'exit': rc2, 'tail': o2[-300:]}
    res['confirmed_demo'] = (rc1 != 0 and rc2 == 0)
    if suite and res['confirmed_demo']:
        for f, dest in demo_files.items():
            os.remove(os.path.join(wt, dest))
        sh(f'git apply {patch}')
        rc, o = sh(f'/verif/tools/run_suite.sh {wt} /tmp/confirm/{name}.suite.json', timeout=3000)
        line = [l for l in o.splitlines() if l.startswith('baseline stable')]
        res['suite_with_change'] = line[0] if line else o[-300:]
        res['suite_notpass'] = [l.strip() for l in o.splitlines() if 'NOTPASS' in l][:10]
        try: os.remove(f'/tmp/confirm/{name}.suite.json'); os.remove(f'/tmp/confirm/{name}.suite.json.err')
        except OSError: pass
finally:
    subprocess.run(f'git -C /repo worktree remove --force {wt}', shell=True, capture_output=True)
os.makedirs(out, exist_ok=True)
shutil.copy(patch, os.path.join(out, 'patch.diff'))
for f in (meta.get('demo_files') or {}):
    shutil.copy(os.path.join(src, f), os.path.join(out, os.path.basename(f)))
m = {'property': meta.get('property'), 'summary': meta.get('summary'), 'needs_to_manifest': meta.get('needs_to_manifest'),
     'changed_files': meta.get('changed_files'), 'demo_files': meta.get('demo_files'), 'demo_cmd': meta.get('demo_cmd'),
     'author': 'independent sub-agent given only the property text and a scratch worktree', 'confirmation': res}
json.dump(m, open(os.path.join(out, 'meta.json'), 'w'), indent=1)
print(name, 'applies' if res.get('patch_applies') else 'NOAPPLY', 'demo_confirmed' if res.get('confirmed_demo') else 'DEMO-NOT-CONFIRMED', res.get('suite_with_change', ''))
