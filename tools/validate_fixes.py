#!/usr/bin/env python3
"""Checker self-validation against the repository's own history: for every `fix:` commit of /repo recorded
in known_findings.json, the commit is reversed on a scratch copy of /repo's source (rsync without .git into
a fresh mktemp directory, removed straight afterwards — /repo itself is never touched) and the check of the
property named in the entry must report a violation. A reverse patch that no longer applies is `skipped`."""
import json, re, subprocess, sys, os, shutil, tempfile, concurrent.futures
V = os.path.dirname(os.path.dirname(os.path.abspath(__file__)))
k = json.load(open(os.path.join(V, 'known_findings.json')))
def sh(cmd, cwd=None):
    p = subprocess.run(cmd, shell=True, cwd=cwd, capture_output=True, text=True)
    return p.returncode, p.stdout + p.stderr
def run(item):
    prop, h = item
    scratch = tempfile.mkdtemp(prefix='defracheck-fix-')
    try:
        src, vd = os.path.join(scratch, 'repo'), os.path.join(scratch, 'verif')
        os.makedirs(vd)
        json.dump({"findings": k['findings'], "fixed": []}, open(os.path.join(vd, 'known_findings.json'), 'w'))
        if sh(f'git -C /repo show {h}')[0] != 0:
            return prop, h, 'skipped: commit not found'
        patch = os.path.join(scratch, 'rev.diff')
        sh(f'git -C /repo diff {h} {h}~1 > {patch}')
        sh(f'rsync -a --exclude .git /repo/ {src}/')
        if sh(f'git apply --check {patch}', cwd=src)[0] != 0:
            return prop, h, 'skipped: reverse patch no longer applies'
        sh(f'git apply {patch}', cwd=src)
        rc, o = sh(f'{V}/bin/defracheck -repo {src} -property {prop} -verif {vd}')
        viol = [l for l in o.splitlines() if l.startswith('VIOLATION')]
        if rc == 1 and viol and 'load-failed' not in o:
            rules = sorted(set(re.findall(r'\[([A-Z][A-Z0-9-]+)\]', o)))
            named = [r for r in rules if r in entry_text.get(h, '')]
            note = '' if named else '  (NOTE: none of the reporting rules is named in the fixed entry)'
            return prop, h, 'detected by ' + ','.join(rules) + note
        if 'load-failed' in o:
            return prop, h, 'skipped: the reversed tree no longer type-checks (later fixes build on this one)'
        return prop, h, 'NOT DETECTED'
    finally:
        shutil.rmtree(scratch, ignore_errors=True)
items = []
entry_text = {}
for line in k['fixed']:
    m = re.match(r'fixed: property=(C\d+) ([0-9a-f]{7,})', line)
    if m:
        items.append((m.group(1), m.group(2)))
        entry_text[m.group(2)] = line
ok = bad = skipped = 0
with concurrent.futures.ThreadPoolExecutor(max_workers=4) as ex:
    for prop, h, res in ex.map(run, items):
        print(prop, h, res)
        if res.startswith('detected'):
            ok += 1
        elif res.startswith('skipped'):
            skipped += 1
        else:
            bad += 1
print(f'fix-reversal validation: detected={ok} not_detected={bad} skipped={skipped}')
sys.exit(1 if bad else 0)
