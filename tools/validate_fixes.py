#!/usr/bin/env python3
"""Checker self-validation against the repository's own history: for every `fix:` commit of /repo,
re-introduce the defect (reverse-apply the commit to a scratch copy is not needed: the patch is applied to
/repo's working tree and undone straight afterwards) and require that the check of the property named in
known_findings.json reports a violation. A reverse patch that no longer applies is reported as skipped."""
import json, re, subprocess, sys, os
V = os.path.dirname(os.path.dirname(os.path.abspath(__file__)))
k = json.load(open(os.path.join(V, 'known_findings.json')))
dirty = subprocess.run('git -C /repo diff --quiet', shell=True).returncode != 0
if dirty:
    print('SKIP: /repo working tree is dirty'); sys.exit(0)
os.makedirs('/tmp/tryverif', exist_ok=True)
open('/tmp/tryverif/known_findings.json', 'w').write(json.dumps({"findings": k['findings'], "fixed": []}))
ok = bad = skipped = 0
results = []
for line in k['fixed']:
    m = re.match(r'fixed: property=(C\d+) ([0-9a-f]{7,})', line)
    if not m:
        continue
    prop, h = m.group(1), m.group(2)
    patch = f'/tmp/tryverif/rev_{h}.diff'
    if subprocess.run(f'git -C /repo show {h} > /dev/null 2>&1', shell=True).returncode != 0:
        skipped += 1; results.append((prop, h, 'skipped: commit not found')); continue
    subprocess.run(f'git -C /repo diff {h} {h}~1 > {patch}', shell=True)
    if subprocess.run(f'git -C /repo apply --check {patch}', shell=True, capture_output=True).returncode != 0:
        skipped += 1; results.append((prop, h, 'skipped: reverse patch no longer applies')); continue
    subprocess.run(f'git -C /repo apply {patch}', shell=True)
    try:
        p = subprocess.run(f'{V}/bin/defracheck -repo /repo -property {prop} -verif /tmp/tryverif', shell=True, capture_output=True, text=True)
        viol = [l for l in p.stdout.splitlines() if l.startswith('VIOLATION')]
        if p.returncode == 1 and viol:
            ok += 1; results.append((prop, h, f'detected ({len(viol)} violation lines)'))
        else:
            bad += 1; results.append((prop, h, 'NOT DETECTED'))
    finally:
        subprocess.run('git -C /repo checkout -- .', shell=True)
    os.remove(patch)
for r in results:
    print(*r)
print(f'fix-reversal validation: detected={ok} not_detected={bad} skipped={skipped}')
sys.exit(1 if bad else 0)
