#!/usr/bin/env python3
"""Applies every confirmed seeded change under /verif/seeded to a scratch copy of /repo's source and runs
the quick check of its property (plus the extra properties listed in PROVENANCE.json). Writes
seeded/EXPECTED.json ({name: {caught_by: [...], rules: [...]}}) and prints a table. Scratch copies live
under a fresh mktemp directory and are removed immediately."""
import json, os, re, shutil, subprocess, sys, tempfile, concurrent.futures
V = os.path.dirname(os.path.dirname(os.path.abspath(__file__)))
REPO = '/repo'
BIN = os.path.join(V, 'bin', 'defracheck')
prov = json.load(open(os.path.join(V, 'seeded', 'PROVENANCE.json')))
names = sorted(d for d in os.listdir(os.path.join(V, 'seeded')) if os.path.isdir(os.path.join(V, 'seeded', d)))
if len(sys.argv) > 1:
    names = [n for n in names if n in sys.argv[1:]]
def sh(cmd, cwd=None):
    p = subprocess.run(cmd, shell=True, cwd=cwd, capture_output=True, text=True)
    return p.returncode, p.stdout + p.stderr
def run(name):
    meta = json.load(open(os.path.join(V, 'seeded', name, 'meta.json')))
    props = [meta['property']] + [p for p in prov.get(name, {}).get('also', []) if p != meta['property']]
    scratch = tempfile.mkdtemp(prefix='defracheck-seed-')
    try:
        src, vd = os.path.join(scratch, 'repo'), os.path.join(scratch, 'verif')
        os.makedirs(vd)
        shutil.copy(os.path.join(V, 'known_findings.json'), vd)
        sh(f'rsync -a --exclude .git {REPO}/ {src}/')
        rc, o = sh(f'git apply --check {V}/seeded/{name}/patch.diff && git apply {V}/seeded/{name}/patch.diff', cwd=src)
        if rc != 0:
            return name, None, [], 'patch no longer applies'
        caught, rules = [], []
        for p in props:
            rc, o = sh(f'{BIN} -repo {src} -property {p} -verif {vd}')
            if 'replay=load-failed' in o:
                return name, None, [], 'the patched tree does not type-check (was /repo modified while copying?)'
            if rc == 1 and 'VIOLATION' in o:
                caught.append(p)
                rules += sorted(set(re.findall(r'\[([A-Z0-9-]+)\]', o)))
        return name, caught, sorted(set(rules)), ''
    finally:
        shutil.rmtree(scratch, ignore_errors=True)
exp_path = os.path.join(V, 'seeded', 'EXPECTED.json')
exp = json.load(open(exp_path)) if os.path.exists(exp_path) else {}
with concurrent.futures.ThreadPoolExecutor(max_workers=3) as ex:
    for name, caught, rules, note in ex.map(run, names):
        if caught is None:
            print(f'{name:10s} SKIPPED {note}')
            continue
        exp[name] = {'caught_by': caught, 'rules': rules}
        print(f'{name:10s} {"caught by " + ",".join(caught) if caught else "MISSED":24s} {" ".join(rules)}')
json.dump(exp, open(exp_path, 'w'), indent=1, sort_keys=True)
