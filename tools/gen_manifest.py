#!/usr/bin/env python3
"""Generate /verif/MANIFEST.json from tools/claims.json (claimed properties) and tools/na.json (reasons)."""
import json, os
V = os.path.dirname(os.path.dirname(os.path.abspath(__file__)))
props = [json.loads(l) for l in open(os.path.join(V, 'properties.jsonl'))]
claims = json.load(open(os.path.join(V, 'tools', 'claims.json')))
na = json.load(open(os.path.join(V, 'tools', 'na.json'))) if os.path.exists(os.path.join(V, 'tools', 'na.json')) else {}
checks = []
for p in props:
    c = claims.get(p['id'])
    if not c:
        continue
    evp = os.path.join(V, 'evidence', p['id'] + '.json')
    if os.path.exists(evp):
        cov = json.load(open(evp))['coverage']
        c = dict(c, text="Level 'other': structural necessary conditions only. " + cov['explanation'], note="Not decided: " + cov['not_decided'])
    checks.append({
        "property_id": p['id'],
        "quick_cmd": f"./bin/defracheck -repo /repo -property {p['id']} -tier quick",
        "thorough_cmd": f"python3 tools/thorough.py {p['id']}",
        "evidence_file": f"/verif/evidence/{p['id']}.json",
        "replay_cmd_template": "./bin/defracheck -repo /repo -replay {path}",
        "engine": "defracheck",
        "level_claimed": {"category": "other", "text": c['text'], "design_ref": c.get('design_ref', 'DESIGN.md §3')},
        "level_note": c['note'],
        "technique": c['technique'],
    })
m = {
    "version": 1,
    "setup_cmd": "cd /verif/checker && GOFLAGS=-mod=vendor GOPROXY=off GOTOOLCHAIN=local go build -o ../bin/defracheck ./cmd/defracheck",
    "hooks": {"guard": "verif", "enable": "none: the static checker reads /repo's source as it is; no hooks are compiled into defradb",
              "baseline_off_cmd": "cd /repo && GOFLAGS=-mod=mod GOPROXY=off go test -mod=mod -json -vet=off -count=1 -timeout 25m ./...",
              "source_commits": [], "add_only": True},
    "engines": [{"name": "defracheck", "path": "/verif/checker", "serves_properties": [c['property_id'] for c in checks],
                 "kind_free_text": "repo-specific static analyser: go/packages + go/types + go/cfg path queries + decision-table extraction + go/ssa/VTA call graph (vendored x/tools v0.29.0); decides from /repo's current source on every run"}],
    "checks": checks,
    "not_applicable": [{"property_id": p['id'], "reason": na.get(p['id'], "check under construction in this session (planned structural clauses: DESIGN.md section 3)")} for p in props if p['id'] not in claims],
    "notes": "Static-analysis family. Every claim is at level 'other': the check decides named structural necessary conditions of the property (listed in level_claimed.text and in the evidence), and says in level_note which part of the behaviour it does not decide. Known findings/fixes: /verif/known_findings.json.",
}
json.dump(m, open(os.path.join(V, 'MANIFEST.json'), 'w'), indent=1)
print("checks:", len(checks), "not_applicable:", len(m['not_applicable']))
