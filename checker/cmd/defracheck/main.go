// defracheck decides the structural clauses of the given defradb properties from source.
package main

import (
	"encoding/json"
	"flag"
	"fmt"
	"os"
	"path/filepath"
	"runtime/debug"
	"strconv"
	"strings"
	"time"

	"defracheck/internal/eng"
	"defracheck/internal/rules"
)

func main() {
	repo := flag.String("repo", "/repo", "repository root")
	prop := flag.String("property", "", "property id (C01..C20) or 'all'")
	tier := flag.String("tier", "quick", "quick|thorough")
	replay := flag.String("replay", "", "replay file: re-evaluate that obligation on the current tree")
	verif := flag.String("verif", "", "verif dir (default: parent of the binary's dir)")
	list := flag.Bool("list", false, "list registered properties")
	goarch := flag.String("goarch", "", "analyse another GOARCH (second build configuration, e.g. 386)")
	debug := flag.String("debug", "", "debug dump, e.g. errflow:internal/db/...,internal/core/...")
	flag.Parse()
	if *list {
		for _, id := range rules.IDs() {
			fmt.Println(id)
		}
		return
	}
	vdir := *verif
	if vdir == "" {
		exe, _ := os.Executable()
		vdir = filepath.Dir(filepath.Dir(exe))
	}
	if t := os.Getenv("VERIF_TIER"); t != "" && !isFlagSet("tier") {
		*tier = t
	}
	seed, _ := strconv.Atoi(os.Getenv("VERIF_SEED"))
	if strings.HasPrefix(*debug, "errflow:") {
		p, err := eng.Load(*repo)
		if err != nil {
			fmt.Println(err)
			os.Exit(1)
		}
		rules.DebugErrFlow(p, strings.Split(strings.TrimPrefix(*debug, "errflow:"), ","))
		return
	}
	if strings.HasPrefix(*debug, "indexguard:") {
		p, err := eng.Load(*repo)
		if err != nil {
			fmt.Println(err)
			os.Exit(1)
		}
		rules.DebugIndexGuard(p, strings.Split(strings.TrimPrefix(*debug, "indexguard:"), ","))
		return
	}
	if *replay != "" {
		os.Exit(doReplay(*repo, vdir, *replay, seed))
	}
	if *prop == "" {
		fmt.Fprintln(os.Stderr, "need -property")
		os.Exit(2)
	}
	ids := []string{*prop}
	if *prop == "all" {
		ids = rules.IDs()
	}
	t0 := time.Now()
	var extra []string
	if *goarch != "" {
		extra = append(extra, "GOARCH="+*goarch, "CGO_ENABLED=0")
	}
	p, err := eng.Load(*repo, extra...)
	if err != nil {
		for _, id := range ids {
			fmt.Printf("VIOLATION property=%s replay=%s\n", id, "load-failed")
		}
		fmt.Println("analysis failure:", err)
		os.Exit(1)
	}
	code := 0
	for _, id := range ids {
		if c := runOne(p, vdir, id, *tier, seed, t0, nil); c != 0 {
			code = 1
		}
		t0 = time.Now()
	}
	os.Exit(code)
}

func isFlagSet(name string) bool {
	set := false
	flag.Visit(func(f *flag.Flag) {
		if f.Name == name {
			set = true
		}
	})
	return set
}

func runOne(p *eng.Program, vdir, id, tier string, seed int, t0 time.Time, only *eng.Obligation) (code int) {
	pr := rules.Get(id)
	if pr == nil {
		fmt.Printf("VIOLATION property=%s replay=%s\n", id, "unknown-property")
		return 1
	}
	c := eng.NewCtx(p, id, tier)
	rules.UseProgram(p)
	for _, r := range pr.Rules {
		func() {
			defer func() {
				if e := recover(); e != nil {
					c.Unknown(r.Name, "checker-panic", 0, fmt.Sprintf("checker panic: %v\n%s", e, debug.Stack()))
				}
			}()
			r.Run(c)
		}()
	}
	if only != nil {
		for _, o := range c.Obs {
			if o.Rule == only.Rule && o.Construct == only.Construct {
				fmt.Printf("replay: %s [%s] %s -> %s: %s\n", o.Pos, o.Rule, o.Construct, o.Status, o.Detail)
				if o.Status != eng.Discharged {
					fmt.Printf("VIOLATION property=%s replay=%s\n", id, "(replayed)")
					return 1
				}
				return 0
			}
		}
		fmt.Printf("replay: obligation [%s] %s no longer exists on the current tree\n", only.Rule, only.Construct)
		return 0
	}
	return c.Finish(vdir, seed, time.Since(t0).Seconds(), pr.Meta, nil)
}

func doReplay(repo, vdir, path string, seed int) int {
	b, err := os.ReadFile(path)
	if err != nil {
		fmt.Println("replay:", err)
		return 2
	}
	var o eng.Obligation
	if err := json.Unmarshal(b, &o); err != nil {
		fmt.Println("replay:", err)
		return 2
	}
	p, err := eng.Load(repo)
	if err != nil {
		fmt.Println("analysis failure:", err)
		return 1
	}
	return runOne(p, vdir, o.Property, "quick", seed, time.Now(), &o)
}
