// Package rules holds the repo-specific rules, one file per rule group. Exception tables with
// their reasons live next to the rule that uses them.
package rules

import (
	"sort"

	"defracheck/internal/eng"
)

// Rule evaluates one named rule for one property and records obligations in the context.
type Rule struct {
	Name string
	Run  func(c *eng.Ctx)
}

// Property describes which rules decide which clauses of a property.
type Property struct {
	ID    string
	Rules []Rule
	Meta  eng.PropMeta
}

var registry = map[string]*Property{}

func register(p *Property) { registry[p.ID] = p }

// Get returns the property's check, or nil.
func Get(id string) *Property { return registry[id] }

// IDs lists the registered property ids.
func IDs() []string {
	var out []string
	for k := range registry {
		out = append(out, k)
	}
	sort.Strings(out)
	return out
}
