package rules

import (
	"fmt"
	"go/ast"
	"go/token"
	"go/types"
	"strings"

	"defracheck/internal/eng"
)

func init() {
	register(&Property{
		ID: "C02",
		Rules: []Rule{
			{"WALK-PARTITION", func(c *eng.Ctx) { ruleWalkPartitionMerge(c) }},
			{"WALK-STOP", ruleWalkStop},
			{"TARGET-HEIGHT", ruleTargetHeight},
			{"WALKBACK-KEEPS-LOWER", ruleWalkBackKeepsLower},
			{"QUEUE-ONCE", ruleQueueOnce},
			{"LINKED-DOC-COMMIT-ONCE", ruleLinkedDocCommitOnce},
			{"FIELD-BLOCK-ONCE", ruleFieldBlockOnce},
			{"NONCE", ruleNonce},
			{"NO-RESURRECT", ruleNoResurrect},
			{"DELETED-REDIRECT", ruleDeletedRedirect},
			{"UNION-EXHAUSTIVE", ruleUnionExhaustive},
			{"COUNTER-MERGE", ruleCounterMerge},
		},
		Meta: eng.PropMeta{
			Explanation: "Counter.Merge adds unconditionally, so exactly-once rests on the merge walk and on commit uniqueness. Decided: (WALK-PARTITION) the enqueue walk follows Heads only and all of them, the apply recursion Links only, and the first block load is preceded by the merged-head membership test; (WALK-STOP) the only way loadComposites returns success without queueing the block or recursing is the merged-head test — no other early exit can drop a commit; the walked-back merge target is a fresh value, never written through the caller's target; (NONCE) the nonce of a counter delta comes from crypto/rand exactly when the document's primary key exists and is the zero value otherwise; (NO-RESURRECT) DocComposite.Merge writes the live object marker only on the 'no marker present' edge and nothing overwrites the deleted marker; (DELETED-REDIRECT) value accesses happen after the deleted-marker redirect; (UNION-EXHAUSTIVE) every accessor of the CRDT union handles all variants and Clone copies every field of every delta (a dropped Nonce changes an encrypted block's bytes); (COUNTER-MERGE) the counter's new value is current + delta written back to the same key. (TARGET-HEIGHT) every write to mergeTarget.headHeight is a max-accumulation — the frontier test 'not in the target and at least as high as the target ⇒ not merged' is sound only for the maximum height; (WALKBACK-KEEPS-LOWER) walking the merge target back replaces only the target blocks above the incoming block by their parents and keeps the others (decided as a 2-cell table over the sign of head-height − incoming-height); (QUEUE-ONCE) the queueing sites of loadComposites or the applying loop of mergeComposites are guarded by a membership test on a set of cids, so a commit below a diamond of the incoming DAG is merged once. (LINKED-DOC-COMMIT-ONCE) a document commit linked from a collection commit (branchable collections) is merged through a walk against its own document's heads, not by plain recursion, so that it is applied once whichever of its two deliveries comes first. (FIELD-BLOCK-ONCE) a field block linked from more than one composite is applied, and becomes a head, once: on the field-block path of processBlock the apply is preceded by a check of the field's heads for the block's own cid and is unreachable when it answers 'already merged'.",
			NotDecided:  "sums and causal maxima over histories; prefix-wise (after every delivery) equality; a merge dropped after MaxTxnRetries conflicts (liveness)",
		},
	})
}

func ruleWalkStop(c *eng.Ctx) {
	const rule = "WALK-STOP"
	fi := c.Anchor(rule, "internal/db.(*mergeProcessor).loadComposites")
	if fi == nil {
		return
	}
	info := fi.Pkg.TypesInfo
	// membership variable: `_, ok := mt.heads[cid]`
	var okObj types.Object
	ast.Inspect(fi.Decl.Body, func(m ast.Node) bool {
		as, isAs := m.(*ast.AssignStmt)
		if isAs && len(as.Lhs) == 2 && len(as.Rhs) == 1 {
			if ix, isIx := ast.Unparen(as.Rhs[0]).(*ast.IndexExpr); isIx && isFieldNamed(info, ix.X, "heads") {
				okObj = eng.ObjOf(info, as.Lhs[1])
			}
		}
		return true
	})
	if okObj == nil {
		c.Unknown(rule, "loadComposites:membership", fi.Decl.Pos(), "anchor-unresolved: `_, ok := mt.heads[cid]`")
		return
	}
	flow := eng.NewFlow(info, fi.Decl.Body)
	outs, trunc := flow.Paths(eng.PathSpec{
		Cond: func(br eng.Branch) eng.Tri {
			return eng.BranchTri(info, br, func(e ast.Expr) eng.Tri {
				if t := happyAtom(info, e); t != eng.Unknown {
					return t
				}
				if eng.ObjOf(info, e) == okObj {
					return eng.False // not yet merged
				}
				return eng.Unknown
			})
		},
		Effect: func(n ast.Node) string {
			lbl := ""
			ast.Inspect(n, func(x ast.Node) bool {
				if call, ok := x.(*ast.CallExpr); ok {
					nm := eng.CalleeName(info, call)
					if strings.HasPrefix(nm, "container/list.(*List).Push") {
						lbl = "queue"
					}
					if eng.Callee(info, call) == fi.Obj {
						lbl = "recurse"
					}
				}
				return true
			})
			return lbl
		},
	})
	if trunc {
		c.Unknown(rule, "loadComposites:paths", fi.Decl.Pos(), "path enumeration truncated")
		return
	}
	bad := ""
	n := 0
	for _, o := range outs {
		if o.Kind != "return" {
			continue
		}
		n++
		if len(o.Effects) == 0 {
			// success return without queueing and without recursion while the block is NOT a merged head
			if o.Ret != nil && len(o.Ret.Results) == 1 && eng.RetVal(info, o.Ret.Results[0]) == "nil" {
				bad = c.P.Rel(o.Ret.Pos())
			}
		}
	}
	c.Check(bad == "" && n > 0, rule, "loadComposites:only-stop-is-merged-head", fi.Decl.Pos(),
		"an unmerged block is always queued or walked further", "loadComposites returns success at "+bad+" for a block that is not a merged head without queueing it or recursing: that commit (and its increments) is silently dropped from the merge")

	// the merge target parameter is never written through
	var mt types.Object
	for _, p := range paramObjs(info, fi.Decl) {
		if strings.HasSuffix(eng.TypeName(p.Type()), ".mergeTarget") {
			mt = p
		}
	}
	if mt == nil {
		c.Unknown(rule, "loadComposites:target-param", fi.Decl.Pos(), "anchor-unresolved: mergeTarget parameter")
		return
	}
	written := token.NoPos
	ast.Inspect(fi.Decl.Body, func(m ast.Node) bool {
		as, ok := m.(*ast.AssignStmt)
		if !ok {
			return true
		}
		for _, l := range as.Lhs {
			root := ast.Unparen(l)
			for {
				switch x := root.(type) {
				case *ast.SelectorExpr:
					root = ast.Unparen(x.X)
					continue
				case *ast.IndexExpr:
					root = ast.Unparen(x.X)
					continue
				case *ast.StarExpr:
					root = ast.Unparen(x.X)
					continue
				}
				break
			}
			if eng.ObjOf(info, root) == mt && ast.Unparen(l) != root {
				written = as.Pos()
			}
			if _, isStar := ast.Unparen(l).(*ast.StarExpr); isStar && eng.ObjOf(info, root) == mt {
				written = as.Pos()
			}
		}
		return true
	})
	// a changed frontier re-tests membership: every call inside the walk that passes a merge target
	// other than the caller's own parameter must enter through the function that performs the
	// merged-head test (a block that was "not merged" against the old frontier may be a head of the new one)
	for _, g := range recursionGroup(c.P, fi) {
		ginfo := g.Pkg.TypesInfo
		var gmt types.Object
		for _, p := range paramObjs(ginfo, g.Decl) {
			if strings.HasSuffix(eng.TypeName(p.Type()), ".mergeTarget") {
				gmt = p
			}
		}
		k := 0
		for _, cs := range eng.Calls(ginfo, g.Decl.Body) {
			callee := c.P.FuncOfObj(cs.Callee)
			if callee == nil {
				continue
			}
			inGroup := false
			for _, m := range recursionGroup(c.P, fi) {
				if m == callee {
					inGroup = true
				}
			}
			if !inGroup {
				continue
			}
			for _, a := range cs.Call.Args {
				if !strings.HasSuffix(eng.TypeName(ginfo.TypeOf(a)), ".mergeTarget") {
					continue
				}
				if eng.ObjOf(ginfo, a) == gmt {
					continue // same frontier
				}
				k++
				c.Check(callee == fi, rule, fmt.Sprintf("%s:new-frontier-call#%d", shortFn(g), k), cs.Call.Pos(),
					"a walked-back frontier re-enters through the merged-head test",
					"the walk continues with a new merge target through "+shortFn(callee)+", which does not test whether the block is a head of that target: an already merged ancestor is processed again and re-added as a head")
			}
		}
	}
	c.Check(!written.IsValid(), rule, "loadComposites:target-not-mutated", fi.Decl.Pos(), "the frontier the walk stops at is never modified during the walk",
		"loadComposites writes through its merge-target parameter at "+c.P.Rel(written)+": sibling branches are then compared against a lowered frontier and already merged commits are queued again")
}

func ruleNonce(c *eng.Ctx) {
	const rule = "NONCE"
	fi := c.Anchor(rule, "internal/core/crdt.(*Counter).Delta")
	if fi == nil {
		return
	}
	info := fi.Pkg.TypesInfo
	// the literal &CounterDelta{... Nonce: X}
	var nonce types.Object
	ast.Inspect(fi.Decl.Body, func(m ast.Node) bool {
		cl, ok := m.(*ast.CompositeLit)
		if !ok || eng.TypeName(info.TypeOf(cl)) != "internal/core/crdt.CounterDelta" {
			return true
		}
		for _, e := range cl.Elts {
			if kv, ok := e.(*ast.KeyValueExpr); ok {
				if k, ok := kv.Key.(*ast.Ident); ok && k.Name == "Nonce" {
					nonce = eng.ObjOf(info, kv.Value)
				}
			}
		}
		return true
	})
	if nonce == nil {
		c.Bad(rule, "Counter.Delta:nonce-field", fi.Decl.Pos(), "the CounterDelta literal no longer sets Nonce from a variable: increment commits are no longer unique")
		return
	}
	// exists := store.Has(primary key)
	var exists types.Object
	var hasCall *ast.CallExpr
	ast.Inspect(fi.Decl.Body, func(m ast.Node) bool {
		as, ok := m.(*ast.AssignStmt)
		if ok && len(as.Rhs) == 1 && len(as.Lhs) == 2 {
			if call, ok := as.Rhs[0].(*ast.CallExpr); ok && eng.CalleeName(info, call) == "github.com/sourcenetwork/corekv.(Reader).Has" {
				exists, hasCall = eng.ObjOf(info, as.Lhs[0]), call
			}
		}
		return true
	})
	if exists == nil {
		c.Bad(rule, "Counter.Delta:exists-probe", fi.Decl.Pos(), "no existence probe decides the nonce")
		return
	}
	primary := eng.FindCall(hasCall, false, func(cc *ast.CallExpr) bool {
		return eng.CalleeName(info, cc) == "internal/keys.(DataStoreKey).ToPrimaryDataStoreKey"
	}) != nil
	c.Check(primary, rule, "Counter.Delta:probe-is-primary-key", hasCall.Pos(), "the probe asks whether the document exists",
		"the nonce decision probes "+eng.ExprStr(hasCall.Args[len(hasCall.Args)-1])+" instead of the document's primary key: the first increment of a field omitted at creation gets nonce 0, so identical concurrent increments collapse into one commit")
	// table: exists=true -> nonce assigned from crypto/rand; exists=false -> never assigned (zero)
	flow := eng.NewFlow(info, fi.Decl.Body)
	for _, ex := range []bool{true, false} {
		outs, _ := flow.Paths(eng.PathSpec{
			Cond: func(br eng.Branch) eng.Tri {
				return eng.BranchTri(info, br, func(e ast.Expr) eng.Tri {
					if t := happyAtom(info, e); t != eng.Unknown {
						return t
					}
					if eng.ObjOf(info, e) == exists {
						return eng.TriOf(ex)
					}
					return eng.Unknown
				})
			},
			Effect: func(n ast.Node) string {
				as, ok := n.(*ast.AssignStmt)
				if !ok {
					return ""
				}
				for _, l := range as.Lhs {
					if eng.ObjOf(info, l) == nonce {
						return "nonce-assigned"
					}
				}
				if eng.ContainsCallTo(info, n, false, "crypto/rand.Int", "crypto/rand.Read") != nil {
					return "crypto-rand"
				}
				return ""
			},
		})
		good := len(outs) > 0
		var got []string
		for _, o := range outs {
			if o.Kind != "return" {
				continue
			}
			got = append(got, strings.Join(o.Effects, ","))
			hasRand, hasAssign := false, false
			for _, e := range o.Effects {
				if e == "crypto-rand" {
					hasRand = true
				}
				if e == "nonce-assigned" {
					hasAssign = true
				}
			}
			if ex && !(hasRand && hasAssign) {
				good = false
			}
			if !ex && (hasRand || hasAssign) {
				good = false
			}
		}
		want := "nonce stays zero (reproducible genesis)"
		if ex {
			want = "nonce drawn from crypto/rand"
		}
		c.Check(good, rule, fmt.Sprintf("Counter.Delta:cell(exists=%v)", ex), fi.Decl.Pos(), want, fmt.Sprintf("paths do %v; required: %s", got, want))
	}
	// no math/rand in the cone of Delta
	for _, cs := range eng.Calls(info, fi.Decl.Body) {
		if strings.HasPrefix(cs.Name, "math/rand") {
			c.Bad(rule, "Counter.Delta:no-math-rand", cs.Call.Pos(), "nonce drawn from math/rand: collisions across nodes started from the same seed")
		}
	}
}

func ruleNoResurrect(c *eng.Ctx) {
	const rule = "NO-RESURRECT"
	fi := c.Anchor(rule, "internal/core/crdt.(*DocComposite).Merge")
	if fi == nil {
		return
	}
	info := fi.Pkg.TypesInfo
	objectMarker := lookupObj(c.P, "internal/db/base", "ObjectMarker")
	deletedMarker := lookupObj(c.P, "internal/db/base", "DeletedObjectMarker")
	flow := eng.NewFlow(info, fi.Decl.Body)
	// hasObjectMarker variable: defined from errors.Is(err, ErrNotFound) on the Get of the primary key
	var hasMarker types.Object
	ast.Inspect(fi.Decl.Body, func(m ast.Node) bool {
		as, ok := m.(*ast.AssignStmt)
		if ok && len(as.Lhs) == 1 && len(as.Rhs) == 1 {
			if eng.FindCall(as.Rhs[0], false, func(cc *ast.CallExpr) bool { return strings.HasSuffix(eng.CalleeName(info, cc), "errors.Is") }) != nil {
				if b, isB := info.TypeOf(as.Lhs[0]).Underlying().(*types.Basic); isB && b.Kind() == types.Bool {
					hasMarker = eng.ObjOf(info, as.Lhs[0])
				}
			}
		}
		return true
	})
	n := 0
	for _, cs := range eng.Calls(info, fi.Decl.Body) {
		if cs.Name != "github.com/sourcenetwork/corekv.(Writer).Set" || len(cs.Call.Args) != 3 {
			continue
		}
		isPrimary := eng.FindCall(cs.Call.Args[1], false, func(cc *ast.CallExpr) bool {
			return eng.CalleeName(info, cc) == "internal/keys.(DataStoreKey).ToPrimaryDataStoreKey"
		}) != nil
		if !isPrimary {
			continue
		}
		writes := ""
		ast.Inspect(cs.Call.Args[2], func(x ast.Node) bool {
			if se, ok := x.(*ast.SelectorExpr); ok {
				switch info.Uses[se.Sel] {
				case objectMarker:
					writes = "live"
				case deletedMarker:
					writes = "deleted"
				}
			}
			return true
		})
		n++
		switch writes {
		case "live":
			ok := false
			if hasMarker != nil {
				pt, _ := flow.PointOf(cs.Call)
				// reachable while a marker IS present?
				reach := flow.ReachesWithout(pt, func(ast.Node) bool { return false }, func(cond ast.Expr, taken bool) bool {
					t := eng.EvalBool(info, cond, func(e ast.Expr) eng.Tri {
						if eng.ObjOf(info, e) == hasMarker {
							return eng.True
						}
						return eng.Unknown
					})
					switch t {
					case eng.True:
						return taken
					case eng.False:
						return !taken
					}
					return true
				})
				ok = !reach
			}
			c.Check(ok, rule, "DocComposite.Merge:live-marker-only-when-absent", cs.Call.Pos(), "the live marker is written only when no marker exists",
				"the live object marker is written although a marker (possibly the deleted one) is present: a later update commit resurrects a deleted document on this replica")
		case "deleted":
			c.OK(rule, "DocComposite.Merge:deleted-marker-write", cs.Call.Pos(), "delete delta writes the deleted marker")
		default:
			c.Bad(rule, "DocComposite.Merge:marker-write(unknown)", cs.Call.Pos(), "the primary key is written with an unrecognised marker value")
		}
	}
	c.Floor(rule, n, 2)
}

func ruleUnionExhaustive(c *eng.Ctx) {
	const rule = "UNION-EXHAUSTIVE"
	pk := c.P.Pkg("internal/core/crdt")
	if pk == nil {
		c.Unknown(rule, "anchor:crdt", token.NoPos, "anchor-unresolved")
		return
	}
	ut, _ := pk.Types.Scope().Lookup("CRDT").(*types.TypeName)
	if ut == nil {
		c.Unknown(rule, "anchor:crdt.CRDT", token.NoPos, "anchor-unresolved")
		return
	}
	st, _ := ut.Type().Underlying().(*types.Struct)
	var variants []*types.Var
	for i := 0; i < st.NumFields(); i++ {
		if _, ok := st.Field(i).Type().(*types.Pointer); ok {
			variants = append(variants, st.Field(i))
		}
	}
	c.Floor(rule+"", len(variants), 3)
	info := pk.TypesInfo
	fieldLevel := map[string]bool{}
	for _, v := range variants {
		// field-level variants carry a FieldName
		if s, ok := v.Type().(*types.Pointer).Elem().Underlying().(*types.Struct); ok {
			for i := 0; i < s.NumFields(); i++ {
				if s.Field(i).Name() == "FieldName" {
					fieldLevel[v.Name()] = true
				}
			}
		}
	}
	mentioned := func(fd *ast.FuncDecl) map[string]bool {
		out := map[string]bool{}
		ast.Inspect(fd.Body, func(m ast.Node) bool {
			switch x := m.(type) {
			case *ast.SelectorExpr:
				if sel, ok := info.Selections[x]; ok && sel.Kind() == types.FieldVal && eng.TypeName(sel.Recv()) == "internal/core/crdt.CRDT" {
					out[x.Sel.Name] = true
				}
			case *ast.KeyValueExpr:
				if k, ok := x.Key.(*ast.Ident); ok {
					out["lit:"+k.Name] = true
				}
			}
			return true
		})
		return out
	}
	all := []string{"GetDelta", "GetPriority", "GetDocID", "GetSchemaVersionID", "Clone"}
	for _, name := range all {
		fi := c.P.Func("internal/core/crdt.(CRDT)." + name)
		if fi == nil {
			c.Unknown(rule, "anchor:CRDT."+name, token.NoPos, "anchor-unresolved")
			continue
		}
		got := mentioned(fi.Decl)
		for _, v := range variants {
			c.Check(got[v.Name()], rule, "CRDT."+name+":handles("+v.Name()+")", fi.Decl.Pos(), "variant handled",
				"accessor CRDT."+name+" has no arm for variant "+v.Name()+": blocks of that kind lose this attribute (zero priority / empty docID / nil delta)")
		}
	}
	for _, name := range []string{"GetFieldName", "GetData", "SetData"} {
		fi := c.P.Func("internal/core/crdt.(CRDT)." + name)
		if fi == nil {
			c.Unknown(rule, "anchor:CRDT."+name, token.NoPos, "anchor-unresolved")
			continue
		}
		got := mentioned(fi.Decl)
		for _, v := range variants {
			if fieldLevel[v.Name()] {
				c.Check(got[v.Name()], rule, "CRDT."+name+":handles("+v.Name()+")", fi.Decl.Pos(), "field-level variant handled",
					"accessor CRDT."+name+" has no arm for field-level variant "+v.Name())
			}
		}
	}
	// NewCRDT: type switch covers every variant's delta type; and sets the matching field
	if fi := c.P.Func("internal/core/crdt.NewCRDT"); fi != nil {
		got := mentioned(fi.Decl)
		for _, v := range variants {
			c.Check(got["lit:"+v.Name()], rule, "NewCRDT:wraps("+v.Name()+")", fi.Decl.Pos(), "constructor wraps the variant", "NewCRDT never builds the "+v.Name()+" variant: such a delta becomes an empty union")
		}
	} else {
		c.Unknown(rule, "anchor:NewCRDT", token.NoPos, "anchor-unresolved")
	}
	// Clone copies every field of every delta struct
	if fi := c.P.Func("internal/core/crdt.(CRDT).Clone"); fi != nil {
		ast.Inspect(fi.Decl.Body, func(m ast.Node) bool {
			cl, ok := m.(*ast.CompositeLit)
			if !ok {
				return true
			}
			t := info.TypeOf(cl)
			s, ok := t.Underlying().(*types.Struct)
			if !ok || !strings.HasSuffix(eng.TypeName(t), "Delta") {
				return true
			}
			set := map[string]string{}
			for _, e := range cl.Elts {
				if kv, ok := e.(*ast.KeyValueExpr); ok {
					if k, ok := kv.Key.(*ast.Ident); ok {
						set[k.Name] = eng.ExprStr(kv.Value)
					}
				}
			}
			for i := 0; i < s.NumFields(); i++ {
				f := s.Field(i).Name()
				src, has := set[f]
				okCopy := has && strings.HasSuffix(src, "."+f)
				c.Check(okCopy, rule, "CRDT.Clone:"+eng.TypeName(t)+"."+f, cl.Pos(), "field copied from the same field",
					"Clone does not copy "+eng.TypeName(t)+"."+f+" from the source's "+f+" (got "+src+"): the clone used for decryption encodes to different bytes / a different delta")
			}
			return true
		})
	}
}

func ruleCounterMerge(c *eng.Ctx) {
	const rule = "COUNTER-MERGE"
	fi := c.Anchor(rule, "internal/core/crdt.validateAndIncrement")
	if fi == nil {
		return
	}
	info := fi.Pkg.TypesInfo
	// newValue := curValue + value where curValue from getCurrentValue(store,key) and value from the delta bytes
	var cur, val types.Object
	ast.Inspect(fi.Decl.Body, func(m ast.Node) bool {
		as, ok := m.(*ast.AssignStmt)
		if ok && len(as.Rhs) == 1 && len(as.Lhs) == 2 {
			if call, ok := as.Rhs[0].(*ast.CallExpr); ok {
				switch eng.CalleeName(info, call) {
				case "internal/core/crdt.getCurrentValue":
					cur = eng.ObjOf(info, as.Lhs[0])
				case "internal/core/crdt.getNumericFromBytes":
					val = eng.ObjOf(info, as.Lhs[0])
				}
			}
		}
		return true
	})
	found := false
	ast.Inspect(fi.Decl.Body, func(m ast.Node) bool {
		be, ok := m.(*ast.BinaryExpr)
		if ok && be.Op == token.ADD {
			x, y := eng.ObjOf(info, be.X), eng.ObjOf(info, be.Y)
			if cur != nil && val != nil && ((x == cur && y == val) || (x == val && y == cur)) {
				found = true
			}
		}
		return true
	})
	c.Check(found, rule, "validateAndIncrement:new=current+delta", fi.Decl.Pos(), "new value is the stored value plus the delta's value",
		"validateAndIncrement does not compute <stored value> + <delta value>: increments are lost or doubled")
	// incrementValue writes the result back to the key it read from
	if iv := c.Anchor(rule, "internal/core/crdt.(*Counter).incrementValue"); iv != nil {
		ii := iv.Pkg.TypesInfo
		var readKeys, writeKeys []string
		for _, cs := range eng.Calls(ii, iv.Decl.Body) {
			switch cs.Name {
			case "internal/core/crdt.validateAndIncrement":
				if len(cs.Call.Args) >= 3 {
					readKeys = append(readKeys, eng.ExprStr(cs.Call.Args[2]))
				}
			case "github.com/sourcenetwork/corekv.(Writer).Set":
				if len(cs.Call.Args) == 3 {
					writeKeys = append(writeKeys, strings.TrimSuffix(eng.ExprStr(cs.Call.Args[1]), ".Bytes()"))
				}
			}
		}
		same := len(writeKeys) > 0 && len(readKeys) > 0
		for _, w := range writeKeys {
			for _, r := range readKeys {
				if w != r {
					same = false
				}
			}
		}
		c.Check(same, rule, "incrementValue:read-and-write-same-key", iv.Decl.Pos(), "the sum is written to the key the current value was read from",
			fmt.Sprintf("current value read from %v but the sum written to %v", readKeys, writeKeys))
	}
}
