package rules

import (
	"fmt"
	"go/ast"
	"go/token"
	"go/types"
	"strings"

	"defracheck/internal/eng"
)

// ruleTargetHeight: the height of a merge target (the frontier the incoming DAG is walked against)
// is the height of its highest block. "Not in the frontier and at least as high as the frontier ⇒
// not merged yet" is sound only for the maximum: every merged block that is not in the frontier is
// an ancestor of a frontier block and therefore strictly lower than it. Every write to headHeight
// must therefore be a max-accumulation, never a plain overwrite (which makes the height depend on
// the order in which heads happen to be listed).
func ruleTargetHeight(c *eng.Ctx) {
	const rule = "TARGET-HEIGHT"
	n := 0
	for _, fi := range c.P.FuncsIn("internal/db") {
		if fi.Decl.Body == nil || isTestFile(c.P, fi) {
			continue
		}
		info := fi.Pkg.TypesInfo
		isHH := func(e ast.Expr) bool {
			se, ok := ast.Unparen(e).(*ast.SelectorExpr)
			return ok && se.Sel.Name == "headHeight" && strings.HasSuffix(eng.TypeName(info.TypeOf(se.X)), "internal/db.mergeTarget")
		}
		var stack []ast.Node
		ord := 0
		ast.Inspect(fi.Decl.Body, func(m ast.Node) bool {
			if m == nil {
				stack = stack[:len(stack)-1]
				return true
			}
			stack = append(stack, m)
			as, ok := m.(*ast.AssignStmt)
			if !ok {
				return true
			}
			for i, l := range as.Lhs {
				if !isHH(l) || i >= len(as.Rhs) || len(as.Lhs) != len(as.Rhs) {
					continue
				}
				n++
				ord++
				rhs := ast.Unparen(as.Rhs[i])
				good := false
				// x.headHeight = max(x.headHeight, v)
				if call, ok := rhs.(*ast.CallExpr); ok {
					if id, ok := call.Fun.(*ast.Ident); ok && id.Name == "max" && info.Uses[id] == types.Universe.Lookup("max") {
						for _, a := range call.Args {
							if isHH(a) && eng.ExprStr(a) == eng.ExprStr(l) {
								good = true
							}
						}
					}
				}
				// if v > x.headHeight { x.headHeight = v }
				for _, s := range stack {
					is, ok := s.(*ast.IfStmt)
					if !ok || !(is.Body.Pos() <= as.Pos() && as.End() <= is.Body.End()) {
						continue
					}
					be, ok := ast.Unparen(is.Cond).(*ast.BinaryExpr)
					if !ok {
						continue
					}
					v := eng.ExprStr(rhs)
					switch be.Op {
					case token.GTR, token.GEQ:
						if eng.ExprStr(be.X) == v && isHH(be.Y) && eng.ExprStr(be.Y) == eng.ExprStr(l) {
							good = true
						}
					case token.LSS, token.LEQ:
						if eng.ExprStr(be.Y) == v && isHH(be.X) && eng.ExprStr(be.X) == eng.ExprStr(l) {
							good = true
						}
					}
				}
				c.Check(good, rule, fmt.Sprintf("%s:headHeight-write#%d:is-max", shortFn(fi), ord), as.Pos(), "headHeight only ever grows to the highest block of the target",
					"the merge target's height is overwritten with "+eng.ExprStr(rhs)+" instead of being raised to the maximum: with heads at different heights the height depends on listing order, and a block as high as a lower head is taken for unmerged (its increments are applied again) or a merged ancestor is walked past")
			}
			return true
		})
	}
	c.Floor(rule, n, 1)
}

// ruleWalkBackKeepsLower: walking the merge target back (because the incoming block is lower than
// the target) replaces only the target blocks above the incoming block by their parents; a target
// block that is not above it stays in the target — the incoming block may have branched off from it.
func ruleWalkBackKeepsLower(c *eng.Ctx) {
	const rule = "WALKBACK-KEEPS-LOWER"
	root := c.Anchor(rule, "internal/db.(*mergeProcessor).loadComposites")
	if root == nil {
		return
	}
	n := 0
	for _, fi := range recursionGroup(c.P, root) {
		info := fi.Pkg.TypesInfo
		ast.Inspect(fi.Decl.Body, func(m ast.Node) bool {
			rs, ok := m.(*ast.RangeStmt)
			if !ok {
				return true
			}
			se, ok := ast.Unparen(rs.X).(*ast.SelectorExpr)
			if !ok || se.Sel.Name != "heads" || !strings.HasSuffix(eng.TypeName(info.TypeOf(se.X)), "internal/db.mergeTarget") {
				return true
			}
			// a walk-back loop builds another target: it contains a store into a mergeTarget
			if rs.Value == nil {
				return true
			}
			headVar := eng.ObjOf(info, rs.Value)
			if headVar == nil {
				return true
			}
			storesHead := func(nd ast.Node) bool { // head itself carried over
				found := false
				ast.Inspect(nd, func(x ast.Node) bool {
					switch s := x.(type) {
					case *ast.AssignStmt:
						for i, l := range s.Lhs {
							if ix, ok := ast.Unparen(l).(*ast.IndexExpr); ok && isFieldNamed(info, ix.X, "heads") && i < len(s.Rhs) && eng.ObjOf(info, s.Rhs[i]) == headVar {
								found = true
							}
						}
					case *ast.CallExpr:
						if sel, ok := s.Fun.(*ast.SelectorExpr); ok && strings.HasSuffix(eng.TypeName(info.TypeOf(sel.X)), "internal/db.mergeTarget") {
							for _, a := range s.Args {
								if eng.ObjOf(info, a) == headVar {
									found = true
								}
							}
						}
					}
					return true
				})
				return found
			}
			loadsParents := func(nd ast.Node) bool {
				found := false
				ast.Inspect(nd, func(x ast.Node) bool {
					if r2, ok := x.(*ast.RangeStmt); ok {
						if s2, ok := ast.Unparen(r2.X).(*ast.SelectorExpr); ok && s2.Sel.Name == "Heads" && eng.ObjOf(info, s2.X) == headVar {
							found = true
						}
					}
					return true
				})
				return found
			}
			if !loadsParents(rs.Body) {
				return true // not the walk-back loop
			}
			n++
			site := shortFn(fi) + ":walk-back"
			// the deciding comparison: GetPriority of the head against GetPriority of the incoming block
			var decide *ast.IfStmt
			var cmp *ast.BinaryExpr
			headOnLeft := false
			for _, st := range rs.Body.List {
				is, ok := st.(*ast.IfStmt)
				if !ok {
					continue
				}
				be, ok := ast.Unparen(is.Cond).(*ast.BinaryExpr)
				if !ok {
					continue
				}
				var prioOf func(e ast.Expr) (types.Object, bool)
				prioOf = func(e ast.Expr) (types.Object, bool) {
					// a local that holds a priority: hp := b.Delta.GetPriority()
					if o := eng.ObjOf(info, e); o != nil {
						var def ast.Expr
						cnt := 0
						ast.Inspect(fi.Decl.Body, func(y ast.Node) bool {
							if as, ok := y.(*ast.AssignStmt); ok && len(as.Lhs) == len(as.Rhs) {
								for i, l := range as.Lhs {
									if eng.ObjOf(info, l) == o {
										cnt++
										def = as.Rhs[i]
									}
								}
							}
							return true
						})
						if cnt == 1 && def != nil {
							if _, isCall := ast.Unparen(def).(*ast.CallExpr); isCall {
								return prioOf(def)
							}
						}
						return nil, false
					}
					call, ok := ast.Unparen(e).(*ast.CallExpr)
					if !ok {
						return nil, false
					}
					sel, ok := call.Fun.(*ast.SelectorExpr)
					if !ok || sel.Sel.Name != "GetPriority" {
						return nil, false
					}
					var rootObj types.Object
					ast.Inspect(sel.X, func(y ast.Node) bool {
						if id, ok := y.(*ast.Ident); ok && rootObj == nil {
							if o := info.Uses[id]; o != nil {
								if _, isVar := o.(*types.Var); isVar {
									rootObj = o
								}
							}
						}
						return true
					})
					return rootObj, rootObj != nil
				}
				lo, lok := prioOf(be.X)
				ro, rok := prioOf(be.Y)
				if lok && rok && (lo == headVar) != (ro == headVar) {
					decide, cmp, headOnLeft = is, be, lo == headVar
				}
			}
			if decide == nil {
				c.Bad(rule, site+":keeps-blocks-not-above", rs.Pos(), "walking the merge target back replaces every target block by its parents without comparing its height with the incoming block's: a head that is not above the incoming block drops out of the target, the incoming block's merged ancestors below it are then taken for unmerged and applied again")
				return true
			}
			for _, sign := range []int{-1, 1} { // sign of (head priority − incoming priority)
				s := sign
				if !headOnLeft {
					s = -s
				}
				holds, ok := eng.CmpHolds(cmp.Op, s)
				if !ok {
					c.Unknown(rule, fmt.Sprintf("%s:cell(head-vs-incoming=%+d)", site, sign), cmp.Pos(), "comparison operator not understood")
					continue
				}
				var taken ast.Node = decide.Body
				if !holds {
					if decide.Else != nil {
						taken = decide.Else
					} else {
						taken = nil
					}
				}
				keeps := taken != nil && storesHead(taken) && !loadsParents(taken)
				// falling through (no else): the rest of the loop body applies
				if taken == nil {
					rest := &ast.BlockStmt{}
					after := false
					for _, st := range rs.Body.List {
						if after {
							rest.List = append(rest.List, st)
						}
						if st == decide {
							after = true
						}
					}
					keeps = storesHead(rest) && !loadsParents(rest)
				}
				want := sign < 0
				construct := fmt.Sprintf("%s:cell(head-vs-incoming=%+d)", site, sign)
				msg := "a target block above the incoming block is kept instead of being replaced by its parents: the walk back never reaches the common ancestor"
				if want {
					msg = "a target block below the incoming block is replaced by its parents: it drops out of the target, and when the incoming block branched off from it its merged ancestors are queued and applied again"
				}
				c.Check(keeps == want, rule, construct, cmp.Pos(), map[bool]string{true: "kept in the target", false: "replaced by its parents"}[want], msg)
			}
			return true
		})
	}
	c.Floor(rule, n, 1)
}

// ruleQueueOnce: a block reachable through several branches of the incoming DAG is merged once:
// either the queueing sites of the walk or the loop that applies the queue is guarded by a
// membership test on a set of cids.
func ruleQueueOnce(c *eng.Ctx) {
	const rule = "QUEUE-ONCE"
	apply := c.Anchor(rule, "internal/db.(*mergeProcessor).mergeComposites")
	walk := c.Anchor(rule, "internal/db.(*mergeProcessor).loadComposites")
	if apply == nil || walk == nil {
		return
	}
	// membership guard: `_, ok := M[k]` (or `if _, ok := M[k]; ok`) on a map keyed by cid.Cid, not the merge target's heads
	var isCidSetTest func(info *types.Info, n ast.Node) bool
	isCidSetTest = func(info *types.Info, n ast.Node) bool {
		// a call of a package function whose body performs the test (mp.alreadyMerged(cid))
		if e, ok := n.(ast.Expr); ok || n != nil {
			_ = e
			helper := false
			ast.Inspect(n, func(x ast.Node) bool {
				call, ok := x.(*ast.CallExpr)
				if !ok || helper {
					return !helper
				}
				if h := c.P.FuncOfObj(eng.Callee(info, call)); h != nil && h.Pkg == apply.Pkg && h != apply && h != walk && h.Decl.Body != nil {
					if sig, ok := h.Obj.Type().(*types.Signature); ok && sig.Results().Len() == 1 {
						if b, ok := sig.Results().At(0).Type().Underlying().(*types.Basic); ok && b.Kind() == types.Bool {
							ast.Inspect(h.Decl.Body, func(y ast.Node) bool {
								if as, ok := y.(*ast.AssignStmt); ok && len(as.Lhs) == 2 && len(as.Rhs) == 1 {
									if ix, ok := ast.Unparen(as.Rhs[0]).(*ast.IndexExpr); ok {
										if mt, ok := h.Pkg.TypesInfo.TypeOf(ix.X).Underlying().(*types.Map); ok && strings.HasSuffix(eng.TypeName(mt.Key()), "go-cid.Cid") && !isFieldNamed(h.Pkg.TypesInfo, ix.X, "heads") {
											helper = true
										}
									}
								}
								return true
							})
						}
					}
				}
				return true
			})
			if helper {
				return true
			}
		}
		as, ok := n.(*ast.AssignStmt)
		if !ok || len(as.Lhs) != 2 || len(as.Rhs) != 1 {
			return false
		}
		ix, ok := ast.Unparen(as.Rhs[0]).(*ast.IndexExpr)
		if !ok {
			return false
		}
		mt, ok := info.TypeOf(ix.X).Underlying().(*types.Map)
		if !ok || !strings.HasSuffix(eng.TypeName(mt.Key()), "go-cid.Cid") {
			return false
		}
		if isFieldNamed(info, ix.X, "heads") {
			return false
		}
		return true
	}
	guarded := func(fi *eng.FuncInfo, isTarget func(info *types.Info, call *ast.CallExpr) bool) (sites int, unguarded token.Pos) {
		info := fi.Pkg.TypesInfo
		flow := eng.NewFlow(info, fi.Decl.Body)
		for _, cs := range eng.Calls(info, fi.Decl.Body) {
			if cs.Lit != nil || !isTarget(info, cs.Call) {
				continue
			}
			sites++
			var stmt ast.Node
			ast.Inspect(fi.Decl.Body, func(m ast.Node) bool {
				switch s := m.(type) {
				case *ast.AssignStmt, *ast.ExprStmt:
					if s.Pos() <= cs.Call.Pos() && cs.Call.End() <= s.End() {
						stmt = s
					}
				}
				return true
			})
			if stmt == nil {
				unguarded = cs.Call.Pos()
				continue
			}
			pt, ok := flow.PointOf(stmt)
			if !ok {
				continue
			}
			if flow.ReachesWithout(pt, func(n ast.Node) bool { return isCidSetTest(info, n) }, nil) {
				unguarded = cs.Call.Pos()
			}
		}
		return
	}
	applySites, applyBad := guarded(apply, func(info *types.Info, call *ast.CallExpr) bool {
		return strings.HasSuffix(eng.CalleeName(info, call), "(*mergeProcessor).processBlock")
	})
	walkSites, walkBad := 0, token.NoPos
	for _, g := range recursionGroup(c.P, walk) {
		s, b := guarded(g, func(info *types.Info, call *ast.CallExpr) bool {
			return strings.HasPrefix(eng.CalleeName(info, call), "container/list.(*List).Push")
		})
		walkSites += s
		if b != token.NoPos {
			walkBad = b
		}
	}
	c.Floor(rule, applySites+walkSites, 2)
	ok := (applySites > 0 && applyBad == token.NoPos) || (walkSites > 0 && walkBad == token.NoPos)
	pos := applyBad
	if pos == token.NoPos {
		pos = apply.Decl.Pos()
	}
	c.Check(ok, rule, "composites:each-block-merged-once", pos, "queueing or applying is guarded by a set of cids",
		"neither the queueing sites of loadComposites nor the applying loop of mergeComposites test a set of already queued/merged cids: a commit below a diamond in the incoming DAG is queued once per branch and merged as many times — its counter increments are doubled")
}

// ruleLinkedDocCommitOnce: a document commit is applied after a walk against the heads of its own
// document (loadComposites), which is what makes redelivery harmless. The apply recursion over a
// block's links may therefore recurse into field blocks, but a document composite that is linked
// from a *collection* commit (branchable collections) also arrives on its own and must be merged
// through the document's heads: in processBlock's loop over Links, with "the block is a collection
// commit and the linked block is a composite" assumed, the plain recursive processBlock call is
// unreachable and a call that reaches getHeadsAsMergeTarget and loadComposites is made.
func ruleLinkedDocCommitOnce(c *eng.Ctx) {
	const rule = "LINKED-DOC-COMMIT-ONCE"
	fi := c.Anchor(rule, "internal/db.(*mergeProcessor).processBlock")
	if fi == nil {
		return
	}
	c.P.BuildCG()
	info := fi.Pkg.TypesInfo
	var loop *ast.RangeStmt
	ast.Inspect(fi.Decl.Body, func(m ast.Node) bool {
		if rs, ok := m.(*ast.RangeStmt); ok {
			x := ast.Unparen(rs.X)
			// links := dagBlock.Links; for … range links
			if o := eng.ObjOf(info, x); o != nil {
				ast.Inspect(fi.Decl.Body, func(y ast.Node) bool {
					if as, ok := y.(*ast.AssignStmt); ok && len(as.Lhs) == 1 && len(as.Rhs) == 1 && eng.ObjOf(info, as.Lhs[0]) == o {
						x = ast.Unparen(as.Rhs[0])
					}
					return true
				})
			}
			if se, ok := x.(*ast.SelectorExpr); ok && se.Sel.Name == "Links" {
				loop = rs
			}
		}
		return true
	})
	if loop == nil || len(loop.Body.List) == 0 {
		c.Unknown(rule, "processBlock:links-loop", fi.Decl.Pos(), "anchor-unresolved: loop over the block's links")
		return
	}
	flow := eng.NewFlow(info, fi.Decl.Body)
	start, ok := flow.PointOf(firstNodeOf(loop.Body.List[0]))
	if !ok {
		c.Unknown(rule, "processBlock:links-loop-entry", loop.Pos(), "loop entry not in the flow graph")
		return
	}
	reachesWalk := func(call *ast.CallExpr) bool {
		g := c.P.FuncOfObj(eng.Callee(info, call))
		if g == nil || g == fi {
			return false
		}
		fn := c.P.SSAFunc(g)
		if fn == nil {
			return false
		}
		heads, walk := false, false
		for f := range c.P.Cone(fn) {
			switch f.Name() {
			case "getHeadsAsMergeTarget":
				heads = true
			case "loadComposites":
				walk = true
			}
		}
		return heads && walk
	}
	plain, viaHeads := false, false
	flow.Forward(start, true, eng.Walk{
		Visit: func(p eng.Point, nd ast.Node) eng.Action {
			if nd.Pos() < loop.Body.Pos() || nd.End() > loop.Body.End() {
				return eng.Cut // left the iteration
			}
			ast.Inspect(nd, func(x ast.Node) bool {
				if call, ok := x.(*ast.CallExpr); ok {
					if eng.Callee(info, call) == fi.Obj {
						plain = true
					} else if reachesWalk(call) {
						viaHeads = true
					}
				}
				return true
			})
			return eng.Continue
		},
		Edge: func(cond ast.Expr, taken bool) bool {
			t := eng.EvalBool(info, cond, func(e ast.Expr) eng.Tri {
				if call, ok := ast.Unparen(e).(*ast.CallExpr); ok {
					if se, ok := call.Fun.(*ast.SelectorExpr); ok && (se.Sel.Name == "IsCollection" || se.Sel.Name == "IsComposite") {
						return eng.True
					}
				}
				if t := happyAtom(info, e); t != eng.Unknown {
					return t
				}
				return eng.Unknown
			})
			switch t {
			case eng.True:
				return taken
			case eng.False:
				return !taken
			}
			return true
		},
	})
	c.Check(viaHeads && !plain, rule, "processBlock:collection-commit→document-commit:merged-through-document-heads", loop.Pos(), "a document commit linked from a collection commit is merged against its document's heads",
		"a document commit that is linked from a collection commit is applied by plain recursion (not through a walk against the document's heads): with a branchable collection the commit also arrives on its own, so it is applied twice and its counter increments are doubled")
}

func firstNodeOf(st ast.Stmt) ast.Node {
	if is, ok := st.(*ast.IfStmt); ok {
		if is.Init != nil {
			return is.Init
		}
		return is.Cond
	}
	return st
}

// ruleFieldBlockOnce: a field block can be linked from more than one composite — two nodes that make the
// same change to a field on the same state write the very same block. Composites are merged once (the
// walk stops at the merge target), but processBlock is handed every field link of every newly merged
// composite, so it has to establish itself that a field block is not already merged before it applies
// it: on the field-block path (the delta is neither a composite nor a collection delta) every path to
// coreblock.ProcessBlock passes a check that consults the heads of that field for the block's own cid,
// and with the check answering "already merged" ProcessBlock is unreachable. Otherwise the shared block
// is applied a second time (a counter increment twice) and updateHeads re-adds it as a head although a
// current head names it as its parent.
func ruleFieldBlockOnce(c *eng.Ctx) {
	const rule = "FIELD-BLOCK-ONCE"
	fi := c.Anchor(rule, "internal/db.(*mergeProcessor).processBlock")
	if fi == nil {
		return
	}
	info := fi.Pkg.TypesInfo
	construct := "processBlock:field-block-applied-only-if-not-already-merged"
	var apply *ast.CallExpr
	for _, cs := range eng.Calls(info, fi.Decl.Body) {
		if cs.Name == "internal/core/block.ProcessBlock" && cs.Lit == nil {
			apply = cs.Call
		}
	}
	if apply == nil {
		c.Unknown(rule, construct, fi.Decl.Pos(), "anchor-unresolved: the call of coreblock.ProcessBlock")
		return
	}
	var linkParam types.Object
	for _, p := range paramObjs(info, fi.Decl) {
		if strings.HasSuffix(eng.TypeName(p.Type()), "cid.Link") {
			linkParam = p
		}
	}
	// the merged-check: a bool, err := f(… blockLink …) where f consults a head set
	consultsHeads := func(call *ast.CallExpr) bool {
		g := c.P.FuncOfObj(eng.Callee(info, call))
		if g == nil || g.Decl.Body == nil {
			return false
		}
		for _, cs := range eng.Calls(g.Pkg.TypesInfo, g.Decl.Body) {
			if strings.HasSuffix(cs.Name, "block.NewHeadSet") || strings.HasSuffix(cs.Name, "block.(*heads).List") || strings.HasSuffix(cs.Name, "block.(*heads).IsHead") {
				return true
			}
		}
		return false
	}
	var check *ast.AssignStmt
	ast.Inspect(fi.Decl.Body, func(m ast.Node) bool {
		as, ok := m.(*ast.AssignStmt)
		if !ok || len(as.Rhs) != 1 || len(as.Lhs) != 2 {
			return true
		}
		call, ok := ast.Unparen(as.Rhs[0]).(*ast.CallExpr)
		if !ok || !consultsHeads(call) {
			return true
		}
		for _, a := range call.Args {
			if linkParam != nil && mentionsObj(info, a, linkParam) {
				check = as
			}
		}
		return true
	})
	if check == nil {
		c.Bad(rule, construct, apply.Pos(), "processBlock applies every field block it is handed without consulting the field's heads for the block's own cid: a field block linked from two composites (the same change made on two nodes) is applied twice and re-added as a head although a current head names it as its parent")
		return
	}
	okVar := eng.ObjOf(info, check.Lhs[0])
	flow := eng.NewFlow(info, fi.Decl.Body)
	apt, _ := flow.PointOf(apply)
	cpt, _ := flow.PointOf(check)
	kindAtom := func(e ast.Expr) eng.Tri {
		if call, ok := ast.Unparen(e).(*ast.CallExpr); ok && len(call.Args) == 0 {
			if se, ok := call.Fun.(*ast.SelectorExpr); ok && (se.Sel.Name == "IsComposite" || se.Sel.Name == "IsCollection") {
				return eng.False // the field-block path
			}
		}
		return eng.Unknown
	}
	edge := func(atom func(ast.Expr) eng.Tri, _ ...types.Object) func(ast.Expr, bool) bool {
		// bool locals derived from the answer (notYetMerged := !isMerged) stand for their definition
		var full func(e ast.Expr) eng.Tri
		full = func(e ast.Expr) eng.Tri {
			if t := atom(e); t != eng.Unknown {
				return t
			}
			if o := eng.ObjOf(info, e); o != nil {
				if def := singleLocalDef(o); def != nil {
					if b, ok := o.Type().Underlying().(*types.Basic); ok && b.Kind() == types.Bool {
						return eng.EvalBool(info, def, full)
					}
				}
			}
			return eng.Unknown
		}
		return func(cond ast.Expr, taken bool) bool {
			switch eng.EvalBool(info, cond, full) {
			case eng.True:
				return taken
			case eng.False:
				return !taken
			}
			return true
		}
	}
	unchecked := flow.ReachesWithout(apt, func(nd ast.Node) bool { return nd == ast.Node(check) }, edge(kindAtom))
	applied := flow.Forward(cpt, false, eng.Walk{
		Visit: func(p eng.Point, _ ast.Node) eng.Action {
			if p == apt {
				return eng.Hit
			}
			return eng.Continue
		},
		Edge: edge(func(e ast.Expr) eng.Tri {
			if o := eng.ObjOf(info, e); o != nil && o == okVar {
				return eng.True
			}
			return kindAtom(e)
		}, okVar),
	})
	c.Check(!unchecked && !applied, rule, construct, apply.Pos(), "a field block that is already merged is not applied again",
		"on the field-block path coreblock.ProcessBlock can be reached without the already-merged check, or although it answered true: a field block linked from two composites is applied twice and re-added as a head although a current head names it as its parent")
}
