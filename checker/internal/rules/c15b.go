package rules

import (
	"fmt"
	"go/ast"
	"go/types"
	"strings"

	"defracheck/internal/eng"
)

// ruleTxnAfterLock: a mutex that serialises read-modify-write transactions ("prevent unnecessary
// conflicts") protects nothing if the transaction's snapshot is taken before the lock: in every
// function of package net that both locks a mutex and creates a transaction, the Lock dominates
// the NewTxn call.
func ruleTxnAfterLock(c *eng.Ctx) {
	const rule = "TXN-AFTER-LOCK"
	n := 0
	for _, fi := range c.P.FuncsIn("net") {
		if fi.Decl.Body == nil || isTestFile(c.P, fi) {
			continue
		}
		info := fi.Pkg.TypesInfo
		var locks, txns []*ast.CallExpr
		for _, cs := range eng.Calls(info, fi.Decl.Body) {
			if cs.Lit != nil {
				continue
			}
			if cs.Name == "sync.(*Mutex).Lock" || cs.Name == "sync.(*RWMutex).Lock" {
				locks = append(locks, cs.Call)
			}
			if strings.HasSuffix(cs.Name, ".NewTxn") {
				txns = append(txns, cs.Call)
			}
		}
		// only function-scope critical sections (Lock … defer Unlock): a mutex released explicitly in
		// the middle of the function guards an in-memory structure, not the transaction
		deferred := map[string]bool{}
		ast.Inspect(fi.Decl.Body, func(m ast.Node) bool {
			if _, ok := m.(*ast.FuncLit); ok {
				return false
			}
			if d, ok := m.(*ast.DeferStmt); ok {
				if se, ok := d.Call.Fun.(*ast.SelectorExpr); ok && se.Sel.Name == "Unlock" {
					deferred[eng.ExprStr(se.X)] = true
				}
			}
			return true
		})
		var scoped []*ast.CallExpr
		for _, l := range locks {
			if se, ok := l.Fun.(*ast.SelectorExpr); ok && deferred[eng.ExprStr(se.X)] {
				scoped = append(scoped, l)
			}
		}
		locks = scoped
		if len(locks) == 0 || len(txns) == 0 {
			continue
		}
		flow := eng.NewFlow(info, fi.Decl.Body)
		for i, tx := range txns {
			n++
			pt, ok := flow.PointOf(tx)
			if !ok {
				continue
			}
			un := flow.ReachesWithout(pt, func(nd ast.Node) bool {
				for _, l := range locks {
					if nd.Pos() <= l.Pos() && l.End() <= nd.End() {
						if _, isDefer := nd.(*ast.DeferStmt); !isDefer {
							return true
						}
					}
				}
				return false
			}, nil)
			c.Check(!un, rule, fmt.Sprintf("%s:NewTxn#%d:after-Lock", shortFn(fi), i+1), tx.Pos(), "the transaction is created while the serialising mutex is held",
				"the transaction is created before "+eng.ExprStr(locks[0].Fun)+" is taken: its snapshot predates the lock, so two concurrent callers still conflict — the loser's update (e.g. the retry record of a failed push) is lost")
		}
	}
	c.Floor(rule, n, 1)
}

// ruleKeyKindPairing: in package net every key that is deleted from the peer store with a single
// Delete is a key of a kind that is also written with Set, and is not a prefix key (a constructor
// called with an empty-string component): a record written under one constructor and "deleted"
// under another stays in the store (a stale retry record makes the replicator be skipped forever).
func ruleKeyKindPairing(c *eng.Ctx) {
	const rule = "KEY-KIND-PAIRING"
	type site struct {
		fi    *eng.FuncInfo
		call  *ast.CallExpr
		ctor  string
		empty bool
	}
	var sets, dels []site
	for _, fi := range c.P.FuncsIn("net") {
		if fi.Decl.Body == nil || isTestFile(c.P, fi) {
			continue
		}
		info := fi.Pkg.TypesInfo
		ctorOf := func(e ast.Expr) (string, bool, bool) {
			// e is K.Bytes() / K.ToString(); K a local or an inline constructor call
			call, ok := ast.Unparen(e).(*ast.CallExpr)
			if !ok {
				return "", false, false
			}
			se, ok := call.Fun.(*ast.SelectorExpr)
			if !ok {
				return "", false, false
			}
			var ctor *ast.CallExpr
			if cc, ok := ast.Unparen(se.X).(*ast.CallExpr); ok {
				ctor = cc
			} else if o := eng.ObjOf(info, se.X); o != nil {
				ast.Inspect(fi.Decl.Body, func(x ast.Node) bool {
					if as, ok := x.(*ast.AssignStmt); ok && len(as.Lhs) == 1 && len(as.Rhs) == 1 && eng.ObjOf(info, as.Lhs[0]) == o && as.Pos() < e.Pos() {
						if cc, ok := ast.Unparen(as.Rhs[0]).(*ast.CallExpr); ok {
							ctor = cc
						}
					}
					return true
				})
			}
			if ctor == nil {
				return "", false, false
			}
			nm := eng.CalleeName(info, ctor)
			if !strings.HasPrefix(nm, "internal/keys.New") {
				return "", false, false
			}
			empty := false
			for _, a := range ctor.Args {
				if s, ok := eng.ConstString(info, a); ok && s == "" {
					empty = true
				}
			}
			return nm, empty, true
		}
		for _, cs := range eng.Calls(info, fi.Decl.Body) {
			if len(cs.Call.Args) < 2 {
				continue
			}
			isPeer := strings.Contains(eng.ExprStr(cs.Call.Fun), "Peerstore()")
			if !isPeer {
				continue
			}
			switch {
			case strings.HasSuffix(cs.Name, ".Set"):
				if nm, empty, ok := ctorOf(cs.Call.Args[1]); ok {
					sets = append(sets, site{fi, cs.Call, nm, empty})
				}
			case strings.HasSuffix(cs.Name, ".Delete"):
				if nm, empty, ok := ctorOf(cs.Call.Args[1]); ok {
					dels = append(dels, site{fi, cs.Call, nm, empty})
				}
			}
		}
	}
	written := map[string]bool{}
	for _, s := range sets {
		written[s.ctor] = true
	}
	ord := map[string]int{}
	for _, d := range dels {
		k := shortFn(d.fi) + ":Delete(" + d.ctor[strings.LastIndex(d.ctor, ".")+1:] + ")"
		ord[k]++
		construct := fmt.Sprintf("%s#%d", k, ord[k])
		c.Check(written[d.ctor] && !d.empty, rule, construct, d.call.Pos(), "deletes a key of a kind this package writes",
			"the peer store key that is deleted is built by "+d.ctor+map[bool]string{true: " with an empty component (a prefix, not a record key)", false: ""}[d.empty]+", a kind no Set in this package writes: the record written under the other constructor stays in the store")
	}
	c.Floor(rule, len(dels), 3)
	_ = types.Universe
}
