package rules

import (
	"fmt"
	"go/ast"
	"go/token"
	"go/types"
	"strings"

	"defracheck/internal/eng"
)

func init() {
	register(&Property{
		ID: "C13",
		Rules: []Rule{
			{"PURITY", func(c *eng.Ctx) {
				rulePurity(c, "PURITY", []string{"client.(*Document).GenerateDocID", "internal/db.setSchemaIDs", "internal/db.generateSetID", "client.NewDocIDV0", "internal/core/cid.NewSHA256CidV1"})
			}},
			{"CANONICAL-CBOR", ruleCanonicalCBOR},
			{"MAPRANGE", ruleMapRange},
			{"SLICE-REMOVE", ruleSliceRemove},
			{"NONCE", ruleNonce},
			{"SETID-SORTED", ruleSetIDSorted},
			{"NORMALISE-IDENTITY", ruleNormaliseIdentity},
			{"SETID-NO-OVERWRITE", ruleSetIDNoOverwrite},
			{"RECURSION-RESULT", func(c *eng.Ctx) {
				ruleRecursionResult(c, "RECURSION-RESULT", []string{"internal/db", "internal/db/...", "client", "client/..."})
			}},
			{"SCHEMA-SHAPE-LOCAL", ruleSchemaShapeLocal},
			{"DOCID-VERIFY", ruleDocIDVerify},
		},
		Meta: eng.PropMeta{
			Explanation: "Decides the structural conditions of 'identifiers are pure functions of content': (PURITY) the call-graph cones of Document.GenerateDocID, setSchemaIDs/generateSetID and the cid/docID constructors read no clock, randomness, environment, host identity or mutable package state; (CANONICAL-CBOR) Document.Bytes encodes with the encoder derived from cbor.CanonicalEncOptions(), omits nil fields (toMap(true)) and GenerateDocID appends the schema root before hashing; (MAPRANGE) every range over a Go map inside those cones is order-insensitive by an accepted idiom (keyed writes, set insert/delete, commutative accumulation, append-then-sort) or is a tabled exception with its reason; (SLICE-REMOVE) every hand-rolled 'remove element i' (make(len-1) + two copies) copies old[:i] and old[i+1:] — the proviso under which the pruning loop of getSchemaSets is confluent; (SETID-SORTED) generateSetID sorts the set by name before encoding it; (NONCE) the counter nonce is zero on create so genesis blocks are reproducible. (NORMALISE-IDENTITY) a value that already has the field's Go type passes the client package's normalisers unchanged; (SETID-NO-OVERWRITE) a schema's set id is stored only after its current assignment was looked up, so a circle found earlier is not split; (SCHEMA-SHAPE-LOCAL) in the SDL parser's finalizeRelations every addition to a schema's field list must be reachable whether or not the related type is declared in the same SDL (fires: known finding). (RECURSION-RESULT) no self-recursive value-returning function in the schema/id code drops the result of its recursive call (a by-value counter threaded through the recursion would otherwise hand out set ids twice).",
			NotDecided:  "equality of identifiers across construction routes for all values (JSON vs map normalisation of numbers, times), and across partitions of the SDL for every relation graph beyond the confluence proviso",
		},
	})
}

func ruleCanonicalCBOR(c *eng.Ctx) {
	const rule = "CANONICAL-CBOR"
	if fi := c.Anchor(rule, "client.CborEncodingOptions"); fi != nil {
		info := fi.Pkg.TypesInfo
		// the returned value originates from cbor.CanonicalEncOptions()
		var opts types.Object
		ast.Inspect(fi.Decl.Body, func(m ast.Node) bool {
			as, ok := m.(*ast.AssignStmt)
			if ok && len(as.Rhs) == 1 {
				if call, ok := as.Rhs[0].(*ast.CallExpr); ok && strings.HasSuffix(eng.CalleeName(info, call), "cbor/v2.CanonicalEncOptions") {
					opts = eng.ObjOf(info, as.Lhs[0])
				}
			}
			return true
		})
		good := false
		ast.Inspect(fi.Decl.Body, func(m ast.Node) bool {
			if r, ok := m.(*ast.ReturnStmt); ok && len(r.Results) == 1 {
				if opts != nil && eng.ObjOf(info, r.Results[0]) == opts {
					good = true
				}
				if call, ok := r.Results[0].(*ast.CallExpr); ok && strings.HasSuffix(eng.CalleeName(info, call), "cbor/v2.CanonicalEncOptions") {
					good = true
				}
			}
			return true
		})
		// no field of the options other than Time is overridden (Sort in particular)
		bad := ""
		ast.Inspect(fi.Decl.Body, func(m ast.Node) bool {
			if as, ok := m.(*ast.AssignStmt); ok && len(as.Lhs) == 1 {
				if se, ok := ast.Unparen(as.Lhs[0]).(*ast.SelectorExpr); ok && eng.ObjOf(info, se.X) == opts && se.Sel.Name != "Time" && se.Sel.Name != "TimeTag" {
					bad = se.Sel.Name
				}
			}
			return true
		})
		c.Check(good && bad == "", rule, "CborEncodingOptions:canonical", fi.Decl.Pos(), "encoder options are cbor.CanonicalEncOptions() (map keys sorted, shortest forms)",
			"CborEncodingOptions does not return cbor.CanonicalEncOptions() unchanged in its ordering fields (overrides: "+bad+"): the bytes hashed into a docID depend on Go map iteration order")
	}
	if fi := c.Anchor(rule, "client.(*Document).Bytes"); fi != nil {
		info := fi.Pkg.TypesInfo
		enc := false
		for _, cs := range eng.Calls(info, fi.Decl.Body) {
			if strings.HasSuffix(cs.Name, ".EncMode") {
				if se, ok := cs.Call.Fun.(*ast.SelectorExpr); ok {
					if call, ok := ast.Unparen(se.X).(*ast.CallExpr); ok && eng.CalleeName(info, call) == "client.CborEncodingOptions" {
						enc = true
					}
				}
			}
		}
		c.Check(enc, rule, "Document.Bytes:encoder", fi.Decl.Pos(), "Document.Bytes encodes with CborEncodingOptions().EncMode()", "Document.Bytes does not use the canonical encoder")
		omit := false
		for _, cs := range eng.Calls(info, fi.Decl.Body) {
			if cs.Name == "client.(*Document).toMap" && len(cs.Call.Args) == 1 {
				if tv, ok := info.Types[cs.Call.Args[0]]; ok && tv.Value != nil && tv.Value.ExactString() == "true" {
					omit = true
				}
			}
		}
		c.Check(omit, rule, "Document.Bytes:nil-omitted", fi.Decl.Pos(), "nil fields are omitted (null ≡ absent)", "Document.Bytes does not call toMap(true): a null field and an omitted field give different docIDs")
	}
	if fi := c.Anchor(rule, "client.(*Document).GenerateDocID"); fi != nil {
		info := fi.Pkg.TypesInfo
		root := false
		ast.Inspect(fi.Decl.Body, func(m ast.Node) bool {
			if call, ok := m.(*ast.CallExpr); ok {
				if id, ok := call.Fun.(*ast.Ident); ok && id.Name == "append" {
					for _, a := range call.Args[1:] {
						if strings.Contains(eng.ExprStr(a), "Schema.Root") {
							root = true
						}
					}
				}
			}
			return true
		})
		c.Check(root, rule, "GenerateDocID:schema-root-mixed-in", fi.Decl.Pos(), "the schema root is appended before hashing", "the schema root is no longer part of the hashed bytes")
		hashed := eng.ContainsCallTo(info, fi.Decl.Body, false, "internal/core/cid.NewSHA256CidV1") != nil && eng.ContainsCallTo(info, fi.Decl.Body, false, "client.NewDocIDV0") != nil
		c.Check(hashed, rule, "GenerateDocID:cid→uuid", fi.Decl.Pos(), "bytes → SHA256 CIDv1 → DocID v0", "GenerateDocID no longer derives the id as NewDocIDV0(NewSHA256CidV1(bytes))")
	}
}

func ruleSetIDSorted(c *eng.Ctx) {
	const rule = "SETID-SORTED"
	fi := c.Anchor(rule, "internal/db.generateSetID")
	if fi == nil {
		return
	}
	info := fi.Pkg.TypesInfo
	p := paramObjs(info, fi.Decl)[0]
	flow := eng.NewFlow(info, fi.Decl.Body)
	var sortCall *ast.CallExpr
	for _, cs := range eng.Calls(info, fi.Decl.Body) {
		if sortFuncs[cs.Name] && len(cs.Call.Args) > 0 && eng.ObjOf(info, cs.Call.Args[0]) == p && cs.Lit == nil {
			sortCall = cs.Call
		}
	}
	if sortCall == nil {
		c.Bad(rule, "generateSetID:sorted", fi.Decl.Pos(), "the schema set is not sorted before it is encoded: the set id depends on the order of the type definitions in the SDL")
		return
	}
	for _, cs := range eng.Calls(info, fi.Decl.Body) {
		if cs.Name == "encoding/json.Marshal" {
			pt, _ := flow.PointOf(cs.Call)
			un := flow.ReachesWithout(pt, func(nd ast.Node) bool { return nd.Pos() <= sortCall.Pos() && sortCall.End() <= nd.End() }, nil)
			c.Check(!un, rule, "generateSetID:sort-before-encode", cs.Call.Pos(), "sorted by name before encoding", "the set is encoded on a path that has not sorted it")
		}
	}
}

// mapRangeExceptions: loops that are order-insensitive for a reason the idiom classifier cannot see.
var mapRangeExceptions = map[string]string{
	"db.getSchemaSets:range#1(schemasWithRelations)": "pruning loop: computes the least fixpoint of 'drop relations to schemas without relations, drop schemas without relations' — confluent, so independent of visiting order, PROVIDED each step removes exactly the dangling relation (rule SLICE-REMOVE decides that proviso)",
	"db.getSchemaSets:range#3(schemaSetsByID)":       "collects the sets into a slice in map order; the only consumer (setSchemaIDs) hashes and assigns each set independently, so the order of the sets is irrelevant",
	"client.(*Document).toMap:range#1(doc.fields)":   "builds a map keyed by the loop key (order-insensitive); the recursive sub-document value is overwritten by the next statement (a separate, order-independent quirk)",
}

func ruleMapRange(c *eng.Ctx) {
	const rule = "MAPRANGE"
	roots := []*eng.FuncInfo{}
	for _, r := range []string{"client.(*Document).GenerateDocID", "internal/db.setSchemaIDs"} {
		if fi := c.Anchor(rule, r); fi != nil {
			roots = append(roots, fi)
		}
	}
	decls := coneDecls(c.P, roots, []string{"client", "internal/db", "internal/core/cid"})
	n := 0
	for _, fi := range decls {
		if fi.Decl.Body == nil {
			continue
		}
		info := fi.Pkg.TypesInfo
		k := 0
		ast.Inspect(fi.Decl.Body, func(m ast.Node) bool {
			rs, ok := m.(*ast.RangeStmt)
			if !ok {
				return true
			}
			if _, isMap := info.TypeOf(rs.X).Underlying().(*types.Map); !isMap {
				return true
			}
			n++
			k++
			construct := fmt.Sprintf("%s:range#%d(%s)", shortFn(fi), k, eng.ExprStr(rs.X))
			if why, ok := mapRangeExceptions[construct]; ok {
				// side condition of every tabled loop: no state is carried from one iteration to the
				// next through a variable declared outside the loop body that the body both writes and reads
				if v := loopCarried(info, rs); v != "" {
					c.Bad(rule, construct, rs.Pos(), "tabled as order-insensitive, but variable "+v+" (declared outside the loop body) is written and read inside it: what one element does now depends on which elements were visited before — the result depends on map iteration order")
					return true
				}
				c.OK(rule, construct, rs.Pos(), "tabled exception: "+why)
				return true
			}
			why := orderSensitive(info, fi.Decl, rs)
			c.Check(why == "", rule, construct, rs.Pos(), "order-insensitive by an accepted idiom",
				"range over a map inside an identifier cone whose effect depends on iteration order ("+why+"): identifiers differ from run to run")
			return true
		})
	}
	c.Floor(rule, n, 3)
}

// orderSensitive returns "" when the loop body matches an order-insensitive idiom.
func orderSensitive(info *types.Info, fd *ast.FuncDecl, rs *ast.RangeStmt) string {
	reason := ""
	var check func(stmts []ast.Stmt)
	check = func(stmts []ast.Stmt) {
		for _, st := range stmts {
			if reason != "" {
				return
			}
			switch s := st.(type) {
			case *ast.AssignStmt:
				for i, l := range s.Lhs {
					switch lx := ast.Unparen(l).(type) {
					case *ast.IndexExpr:
						if _, isMap := info.TypeOf(lx.X).Underlying().(*types.Map); !isMap {
							reason = "indexed write to a non-map " + eng.ExprStr(lx.X)
						}
					case *ast.Ident:
						if s.Tok == token.DEFINE || lx.Name == "_" {
							continue
						}
						// append-then-sort, or commutative accumulation
						if i < len(s.Rhs) {
							if call, ok := ast.Unparen(s.Rhs[i]).(*ast.CallExpr); ok {
								if id, ok := call.Fun.(*ast.Ident); ok && id.Name == "append" {
									if !sortedAfter(info, fd, rs, info.ObjectOf(lx)) {
										reason = "append to " + lx.Name + " without a later sort"
									}
									continue
								}
							}
						}
						switch s.Tok {
						case token.ADD_ASSIGN, token.OR_ASSIGN, token.AND_ASSIGN, token.MUL_ASSIGN:
						default:
							// plain assignment to an outer variable: last-writer-wins depends on order, unless constant
							if o := info.ObjectOf(lx); o != nil && o.Pos() < rs.Pos() {
								if i < len(s.Rhs) {
									if tv, ok := info.Types[s.Rhs[i]]; ok && tv.Value != nil {
										continue // flag set to a constant
									}
								}
								reason = "assignment to outer variable " + lx.Name
							}
						}
					case *ast.SelectorExpr:
						// field write of a loop-local value is fine; of an outer object depends
					}
				}
			case *ast.IncDecStmt:
			case *ast.ExprStmt:
				if call, ok := s.X.(*ast.CallExpr); ok {
					if id, ok := call.Fun.(*ast.Ident); ok && (id.Name == "delete" || id.Name == "clear") {
						continue
					}
					reason = "call with possible side effects: " + eng.ExprStr(call.Fun)
				}
			case *ast.IfStmt:
				check(s.Body.List)
				if s.Else != nil {
					if b, ok := s.Else.(*ast.BlockStmt); ok {
						check(b.List)
					} else if ei, ok := s.Else.(*ast.IfStmt); ok {
						check([]ast.Stmt{ei})
					}
				}
			case *ast.BranchStmt:
				if s.Tok == token.BREAK {
					reason = "break (the element that stops the loop depends on order)"
				}
			case *ast.ReturnStmt:
				// returning an error found in the loop is fine; returning loop data is not
				for _, r := range s.Results {
					if t := info.TypeOf(r); t != nil && !eng.IsErrorType(t) {
						if tv, ok := info.Types[r]; ok && (tv.IsNil() || tv.Value != nil) {
							continue
						}
						if _, isLit := ast.Unparen(r).(*ast.CompositeLit); isLit {
							continue
						}
						reason = "returns loop-dependent value " + eng.ExprStr(r)
					}
				}
			case *ast.DeclStmt, *ast.EmptyStmt:
			case *ast.RangeStmt:
				check(s.Body.List)
			case *ast.ForStmt:
				check(s.Body.List)
			case *ast.SwitchStmt:
				for _, cc := range s.Body.List {
					check(cc.(*ast.CaseClause).Body)
				}
			case *ast.TypeSwitchStmt:
				for _, cc := range s.Body.List {
					check(cc.(*ast.CaseClause).Body)
				}
			case *ast.BlockStmt:
				check(s.List)
			default:
				reason = fmt.Sprintf("unclassified statement %T", st)
			}
		}
	}
	check(rs.Body.List)
	return reason
}

func sortedAfter(info *types.Info, fd *ast.FuncDecl, rs *ast.RangeStmt, v types.Object) bool {
	found := false
	ast.Inspect(fd.Body, func(m ast.Node) bool {
		if call, ok := m.(*ast.CallExpr); ok && call.Pos() > rs.End() && sortFuncs[eng.CalleeName(info, call)] && len(call.Args) > 0 && eng.ObjOf(info, call.Args[0]) == v {
			found = true
		}
		return true
	})
	return found
}

// ruleSliceRemove: hand-rolled removal of element i must keep old[:i] and old[i+1:].
func ruleSliceRemove(c *eng.Ctx) {
	const rule = "SLICE-REMOVE"
	n := 0
	for _, fi := range c.P.Funcs() {
		sp := eng.ShortPkg(fi.Pkg.PkgPath)
		if fi.Decl.Body == nil || strings.HasPrefix(sp, "tests") {
			continue
		}
		info := fi.Pkg.TypesInfo
		ast.Inspect(fi.Decl.Body, func(m ast.Node) bool {
			blk, ok := m.(*ast.BlockStmt)
			if !ok {
				return true
			}
			for idx, st := range blk.List {
				as, ok := st.(*ast.AssignStmt)
				if !ok || len(as.Lhs) != 1 || len(as.Rhs) != 1 {
					continue
				}
				mk, ok := ast.Unparen(as.Rhs[0]).(*ast.CallExpr)
				if !ok {
					continue
				}
				if id, ok := mk.Fun.(*ast.Ident); !ok || id.Name != "make" || len(mk.Args) < 2 {
					continue
				}
				// len(X)-1
				be, ok := ast.Unparen(mk.Args[1]).(*ast.BinaryExpr)
				if !ok || be.Op != token.SUB {
					continue
				}
				if k, ok := eng.IntConst(info, be.Y); !ok || k != 1 {
					continue
				}
				dst := eng.ExprStr(as.Lhs[0])
				// the following copies in the same block (possibly inside an `if i > 0`)
				var copies []*ast.CallExpr
				for _, later := range blk.List[idx+1:] {
					ast.Inspect(later, func(x ast.Node) bool {
						if call, ok := x.(*ast.CallExpr); ok {
							if id, ok := call.Fun.(*ast.Ident); ok && id.Name == "copy" && len(call.Args) == 2 && strings.HasPrefix(eng.ExprStr(call.Args[0]), dst) {
								copies = append(copies, call)
							}
						}
						return true
					})
				}
				if len(copies) != 2 {
					continue
				}
				n++
				// head copy: copy(dst, old[:H]); tail copy: copy(dst[I:], old[T:])
				var head, tail *ast.CallExpr
				for _, cp := range copies {
					if eng.ExprStr(cp.Args[0]) == dst {
						head = cp
					} else {
						tail = cp
					}
				}
				construct := shortFn(fi) + ":remove-from(" + dst + ")"
				if head == nil || tail == nil {
					c.Unknown(rule, construct, as.Pos(), "two copies into the shortened slice but not of the head/tail form")
					continue
				}
				hs, ok1 := ast.Unparen(head.Args[1]).(*ast.SliceExpr)
				td, ok2 := ast.Unparen(tail.Args[0]).(*ast.SliceExpr)
				ts, ok3 := ast.Unparen(tail.Args[1]).(*ast.SliceExpr)
				if !ok1 || !ok2 || !ok3 || td.Low == nil || ts.Low == nil || hs.High == nil {
					c.Unknown(rule, construct, as.Pos(), "copies not of the form copy(dst, old[:i]) / copy(dst[i:], old[i+1:])")
					continue
				}
				i := eng.ExprStr(td.Low)
				goodHead := eng.ExprStr(hs.High) == i
				goodTail := eng.ExprStr(ts.Low) == i+" + 1" || eng.ExprStr(ts.Low) == i+"+1"
				c.Check(goodHead && goodTail, rule, construct, head.Pos(), "keeps old[:"+i+"] and old["+i+"+1:]",
					fmt.Sprintf("removal of element %s copies old[:%s] and old[%s:] — element(s) other than %s are dropped as well (index slip)", i, eng.ExprStr(hs.High), eng.ExprStr(ts.Low), i))
			}
			return true
		})
	}
	c.Notes = append(c.Notes, fmt.Sprintf("SLICE-REMOVE: %d hand-rolled removals examined (bug-pattern rule: 0 is legitimate)", n))
}

// loopCarried returns the name of a variable declared outside the range body that the body both
// assigns and reads (other than the ranged collection itself), or "".
func loopCarried(info *types.Info, rs *ast.RangeStmt) string {
	written := map[types.Object]bool{}
	ast.Inspect(rs.Body, func(m ast.Node) bool {
		switch s := m.(type) {
		case *ast.AssignStmt:
			for _, l := range s.Lhs {
				if id, ok := ast.Unparen(l).(*ast.Ident); ok && s.Tok != token.DEFINE {
					if o := info.ObjectOf(id); o != nil && !(rs.Body.Pos() <= o.Pos() && o.Pos() <= rs.Body.End()) {
						written[o] = true
					}
				}
			}
		case *ast.IncDecStmt:
			if id, ok := ast.Unparen(s.X).(*ast.Ident); ok {
				if o := info.ObjectOf(id); o != nil && !(rs.Body.Pos() <= o.Pos() && o.Pos() <= rs.Body.End()) {
					written[o] = true
				}
			}
		}
		return true
	})
	name := ""
	var stack []ast.Node
	ast.Inspect(rs.Body, func(m ast.Node) bool {
		if m == nil {
			stack = stack[:len(stack)-1]
			return true
		}
		stack = append(stack, m)
		id, ok := m.(*ast.Ident)
		if !ok || !written[info.Uses[id]] {
			return true
		}
		// a read: not the LHS of an assignment
		if len(stack) >= 2 {
			if as, ok := stack[len(stack)-2].(*ast.AssignStmt); ok {
				for _, l := range as.Lhs {
					if l == ast.Expr(id) {
						return true
					}
				}
			}
			if inc, ok := stack[len(stack)-2].(*ast.IncDecStmt); ok && inc.X == ast.Expr(id) {
				return true
			}
			// x = append(x, ...): accumulation, the reason such a loop is tabled in the first place
			if call, ok := stack[len(stack)-2].(*ast.CallExpr); ok && len(call.Args) > 0 && call.Args[0] == ast.Expr(id) {
				if f, ok := call.Fun.(*ast.Ident); ok && f.Name == "append" {
					return true
				}
			}
		}
		name = id.Name
		return true
	})
	return name
}

// ruleDocIDVerify: on create the identifier derived from the content is the one that is used and
// the one the document's carried id is checked against.
func ruleDocIDVerify(c *eng.Ctx) {
	const rule = "DOCID-VERIFY"
	fi := c.Anchor(rule, "internal/db.(*collection).getDocIDAndPrimaryKeyFromDoc")
	if fi == nil {
		return
	}
	info := fi.Pkg.TypesInfo
	var gen types.Object
	ast.Inspect(fi.Decl.Body, func(m ast.Node) bool {
		if as, ok := m.(*ast.AssignStmt); ok && len(as.Rhs) == 1 && len(as.Lhs) == 2 {
			if call, ok := as.Rhs[0].(*ast.CallExpr); ok && eng.CalleeName(info, call) == "client.(*Document).GenerateDocID" {
				gen = eng.ObjOf(info, as.Lhs[0])
			}
		}
		return true
	})
	if gen == nil {
		c.Bad(rule, "create:docID-generated-from-content", fi.Decl.Pos(), "the create path no longer derives the document id from the document's content")
		return
	}
	var pk types.Object
	keyFromGen := false
	for _, cs := range eng.Calls(info, fi.Decl.Body) {
		if cs.Name == "internal/db.(*collection).getPrimaryKeyFromDocID" && len(cs.Call.Args) == 2 {
			keyFromGen = eng.ObjOf(info, cs.Call.Args[1]) == gen
			if as := assignOf(fi.Decl.Body, cs.Call); as != nil {
				pk = eng.ObjOf(info, as.Lhs[0])
			}
			c.Check(keyFromGen, rule, "create:primary-key-from-generated-id", cs.Call.Pos(), "the primary key is built from the content-derived id",
				"the primary key is built from "+eng.ExprStr(cs.Call.Args[1])+" instead of the id generated from the document's content: the verification below compares the carried id with itself and a document is stored under whatever id it carries")
		}
	}
	// the carried id is compared with the derived one and a mismatch is an error
	cmp := false
	ast.Inspect(fi.Decl.Body, func(m ast.Node) bool {
		is, ok := m.(*ast.IfStmt)
		if !ok {
			return true
		}
		be, ok := ast.Unparen(is.Cond).(*ast.BinaryExpr)
		if !ok || be.Op != token.NEQ {
			return true
		}
		s := eng.ExprStr(be)
		if strings.Contains(s, ".ID()") && (mentionsObj(info, be, gen) || (pk != nil && mentionsObj(info, be, pk))) {
			for _, st := range is.Body.List {
				if r, ok := st.(*ast.ReturnStmt); ok && len(r.Results) > 0 {
					if tv, ok := info.Types[r.Results[len(r.Results)-1]]; !ok || !tv.IsNil() {
						cmp = true
					}
				}
			}
		}
		return true
	})
	c.Check(cmp, rule, "create:carried-id-verified", fi.Decl.Pos(), "a document whose carried id differs from its content-derived id is refused", "the create path no longer refuses a document whose carried id differs from the id derived from its content")
}

// ruleNormaliseIdentity: the value normalisers of client/document.go (get<T>(v any) (T, error)) map
// every input representation of a field value to the normal Go value that is then CBOR-encoded into
// the docID. A value that already has the target type is the normal form: the case clause for T
// returns the switch-bound value unchanged. Any transformation there (val.UTC(), rounding, trimming)
// makes the typed route differ from the textual routes, so one document gets two docIDs.
func ruleNormaliseIdentity(c *eng.Ctx) {
	const rule = "NORMALISE-IDENTITY"
	n := 0
	for _, fi := range c.P.FuncsIn("client") {
		if fi.Decl.Body == nil || fi.Decl.Recv != nil || !strings.HasPrefix(fi.Decl.Name.Name, "get") || isTestFile(c.P, fi) {
			continue
		}
		sig := fi.Obj.Type().(*types.Signature)
		if sig.Params().Len() != 1 || sig.Results().Len() != 2 || !types.IsInterface(sig.Params().At(0).Type()) || !eng.IsErrorType(sig.Results().At(1).Type()) {
			continue
		}
		if sig.TypeParams() != nil {
			continue
		}
		target := sig.Results().At(0).Type()
		info := fi.Pkg.TypesInfo
		ast.Inspect(fi.Decl.Body, func(m ast.Node) bool {
			// the same decision written as a comma-ok assertion: if t, ok := v.(T); ok { return t, nil }
			if is, ok := m.(*ast.IfStmt); ok {
				if as, ok := is.Init.(*ast.AssignStmt); ok && len(as.Lhs) == 2 && len(as.Rhs) == 1 {
					if ta, ok := ast.Unparen(as.Rhs[0]).(*ast.TypeAssertExpr); ok && ta.Type != nil {
						if t := info.TypeOf(ta.Type); t != nil && types.Identical(t, target) && eng.ObjOf(info, is.Cond) != nil && eng.ObjOf(info, is.Cond) == eng.ObjOf(info, as.Lhs[1]) {
							bound := eng.ObjOf(info, as.Lhs[0])
							n++
							good, cnt := true, 0
							ast.Inspect(is.Body, func(x ast.Node) bool {
								if r, ok := x.(*ast.ReturnStmt); ok && len(r.Results) == 2 {
									cnt++
									if eng.ObjOf(info, r.Results[0]) != bound || bound == nil {
										good = false
									}
								}
								return true
							})
							c.Check(good && cnt > 0, rule, fmt.Sprintf("client.%s:case(%s):identity", fi.Decl.Name.Name, eng.ExprStr(ta.Type)), is.Pos(), "a value of the target type is returned unchanged",
								"the normaliser transforms a value that already has the field's Go type: the same document built from a typed value and from its textual form is encoded differently and gets two different docIDs")
						}
					}
				}
				return true
			}
			ts, ok := m.(*ast.TypeSwitchStmt)
			if !ok {
				return true
			}
			for _, cl := range ts.Body.List {
				cc := cl.(*ast.CaseClause)
				if len(cc.List) != 1 {
					continue
				}
				if t := info.TypeOf(cc.List[0]); t == nil || !types.Identical(t, target) {
					continue
				}
				bound := info.Implicits[cc]
				n++
				good, cnt := true, 0
				for _, st := range cc.Body {
					ast.Inspect(st, func(x ast.Node) bool {
						if r, ok := x.(*ast.ReturnStmt); ok && len(r.Results) == 2 {
							cnt++
							if id, ok := ast.Unparen(r.Results[0]).(*ast.Ident); !ok || info.Uses[id] != bound {
								good = false
							}
						}
						return true
					})
				}
				c.Check(good && cnt > 0, rule, fmt.Sprintf("client.%s:case(%s):identity", fi.Decl.Name.Name, eng.ExprStr(cc.List[0])), cc.Pos(), "a value of the target type is returned unchanged",
					"the normaliser transforms a value that already has the field's Go type: the same document built from a typed value and from its textual form is encoded differently and gets two different docIDs")
			}
			return false
		})
	}
	c.Floor(rule, n, 3)
}

// ruleSetIDNoOverwrite: while schemas are grouped into sets, a schema that has been placed in a set
// stays there: every store `schemaSetIds[K] = …` in mapSchemaSetIDs is reached only through a
// comma-ok lookup of schemaSetIds[K] (whose hit is reused, and whose miss allows a new id). A store
// reached without consulting the map overwrites the membership of a circle found earlier, and which
// circle is found earlier depends on which types share one AddSchema call.
func ruleSetIDNoOverwrite(c *eng.Ctx) {
	const rule = "SETID-NO-OVERWRITE"
	fi := c.Anchor(rule, "internal/db.mapSchemaSetIDs")
	if fi == nil {
		return
	}
	info := fi.Pkg.TypesInfo
	var setIDs types.Object
	for _, p := range paramObjs(info, fi.Decl) {
		if mt, ok := p.Type().Underlying().(*types.Map); ok && mt.Key().String() == "string" && mt.Elem().String() == "int" {
			setIDs = p
		}
	}
	if setIDs == nil {
		c.Unknown(rule, "mapSchemaSetIDs:set-id-map", fi.Decl.Pos(), "anchor-unresolved: the map[string]int of assigned set ids")
		return
	}
	flow := eng.NewFlow(info, fi.Decl.Body)
	n := 0
	ast.Inspect(fi.Decl.Body, func(m ast.Node) bool {
		as, ok := m.(*ast.AssignStmt)
		if !ok || len(as.Lhs) != 1 {
			return true
		}
		ix, ok := ast.Unparen(as.Lhs[0]).(*ast.IndexExpr)
		if !ok || eng.ObjOf(info, ix.X) != setIDs {
			return true
		}
		key := eng.ExprStr(ix.Index)
		n++
		pt, ok := flow.PointOf(as)
		if !ok {
			return true
		}
		// start from the innermost enclosing loop body (each relation is a fresh decision)
		lookup := func(nd ast.Node) bool {
			a2, ok := nd.(*ast.AssignStmt)
			if !ok || len(a2.Lhs) != 2 || len(a2.Rhs) != 1 {
				return false
			}
			ix2, ok := ast.Unparen(a2.Rhs[0]).(*ast.IndexExpr)
			return ok && eng.ObjOf(info, ix2.X) == setIDs && eng.ExprStr(ix2.Index) == key
		}
		un := false
		if loop := loopOf(fi.Decl.Body, as); loop != nil {
			if rs, ok := loop.(*ast.RangeStmt); ok && len(rs.Body.List) > 0 {
				if sp, ok := flow.PointOf(rs.Body.List[0]); ok {
					un = flow.Forward(sp, true, eng.Walk{Visit: func(p eng.Point, nd ast.Node) eng.Action {
						if p == pt {
							return eng.Hit
						}
						if lookup(nd) {
							return eng.Cut
						}
						return eng.Continue
					}})
				}
			}
		} else {
			un = flow.ReachesWithout(pt, lookup, nil)
		}
		c.Check(!un, rule, fmt.Sprintf("mapSchemaSetIDs:store(schemaSetIds[%s])#%d:after-lookup", key, n), as.Pos(), "the set id of "+key+" is stored only after its current assignment was looked up",
			"schemaSetIds["+key+"] is assigned on a path that never looked up whether "+key+" already belongs to a set: a one-way relation into a circle found earlier moves that schema out of its circle, so the ids of the circle's types depend on which other types are added in the same call")
		return true
	})
	c.Floor(rule, n, 2)
}

// ruleSchemaShapeLocal: the field list of a schema — which is what its version id is a hash of — is
// computed from the type's own declaration. In the SDL parser's finalizeRelations every write to
// Schema.Fields must be reachable whether or not the related type is declared in the same SDL: a
// write that is reachable only when a search over the other definitions of the same call succeeds
// makes the schema (and hence every identifier) depend on how the types are partitioned across calls.
func ruleSchemaShapeLocal(c *eng.Ctx) {
	const rule = "SCHEMA-SHAPE-LOCAL"
	fi := c.Anchor(rule, "internal/request/graphql/schema.finalizeRelations")
	if fi == nil {
		return
	}
	info := fi.Pkg.TypesInfo
	ps := paramObjs(info, fi.Decl)
	if len(ps) == 0 {
		c.Unknown(rule, "finalizeRelations:params", fi.Decl.Pos(), "anchor-unresolved")
		return
	}
	results := ps[0]
	// variables assigned inside a nested loop over the same-call definitions
	coDeclared := map[types.Object]bool{}
	var fieldLoop *ast.RangeStmt
	ast.Inspect(fi.Decl.Body, func(m ast.Node) bool {
		rs, ok := m.(*ast.RangeStmt)
		if !ok || eng.ObjOf(info, rs.X) != results {
			return true
		}
		// nested (not the outermost) loops over results
		if rs.Pos() > fi.Decl.Body.List[0].Pos() {
			ast.Inspect(rs.Body, func(x ast.Node) bool {
				if as, ok := x.(*ast.AssignStmt); ok {
					for _, l := range as.Lhs {
						if o := eng.ObjOf(info, l); o != nil {
							coDeclared[o] = true
						}
					}
				}
				return true
			})
		}
		return true
	})
	ast.Inspect(fi.Decl.Body, func(m ast.Node) bool {
		if rs, ok := m.(*ast.RangeStmt); ok && fieldLoop == nil {
			if se, ok := ast.Unparen(rs.X).(*ast.SelectorExpr); ok && se.Sel.Name == "Fields" {
				fieldLoop = rs
			}
		}
		return true
	})
	if fieldLoop == nil || len(fieldLoop.Body.List) == 0 || len(coDeclared) == 0 {
		c.OK(rule, "finalizeRelations:no-co-declaration-search", fi.Decl.Pos(), "no search over the other definitions of the same call")
		return
	}
	flow := eng.NewFlow(info, fi.Decl.Body)
	var first ast.Node = fieldLoop.Body.List[0]
	if is, ok := first.(*ast.IfStmt); ok {
		first = is.Cond
		if is.Init != nil {
			first = is.Init
		}
	}
	start, okStart := flow.PointOf(first)
	if !okStart {
		c.Unknown(rule, "finalizeRelations:field-loop-entry", fieldLoop.Pos(), "the entry of the field loop was not found in the flow graph")
		return
	}
	n := 0
	var dependent []string
	pos := fieldLoop.Pos()
	ast.Inspect(fieldLoop.Body, func(m ast.Node) bool {
		as, ok := m.(*ast.AssignStmt)
		if !ok {
			return true
		}
		writes := false
		for _, l := range as.Lhs {
			if strings.Contains(eng.ExprStr(l), "Schema.Fields") {
				writes = true
			}
		}
		if !writes {
			return true
		}
		n++
		pt, ok := flow.PointOf(as)
		if !ok {
			return true
		}
		reach := func(found bool) bool {
			return flow.Forward(start, true, eng.Walk{
				Visit: func(p eng.Point, nd ast.Node) eng.Action {
					if p == pt {
						return eng.Hit
					}
					return eng.Continue
				},
				Edge: func(cond ast.Expr, taken bool) bool {
					t := eng.EvalBool(info, cond, func(e ast.Expr) eng.Tri {
						if call, ok := ast.Unparen(e).(*ast.CallExpr); ok {
							if se, ok := call.Fun.(*ast.SelectorExpr); ok && se.Sel.Name == "HasValue" && coDeclared[eng.ObjOf(info, se.X)] {
								return eng.TriOf(found)
							}
						}
						return eng.Unknown
					})
					switch t {
					case eng.True:
						return taken
					case eng.False:
						return !taken
					}
					return true
				},
			})
		}
		if !reach(false) && reach(true) {
			if len(dependent) == 0 {
				pos = as.Pos()
			}
			dependent = append(dependent, c.P.Rel(as.Pos()))
		}
		return true
	})
	c.Check(len(dependent) == 0, rule, "finalizeRelations:schema-fields-independent-of-co-declared-types", pos, "schema fields are added whether or not the related type is part of the same SDL",
		fmt.Sprintf("%d addition(s) to the schema's field list (%s) happen only when the related type is declared in the same SDL: `type Yy { x: Xx @primary }` gets the x_id schema field (and another version id) when Xx is defined in the same AddSchema call, and not when Xx was added by an earlier call", len(dependent), strings.Join(dependent, ", ")))
	c.Floor(rule, n, 1)
}
