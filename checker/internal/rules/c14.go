package rules

import (
	"fmt"
	"go/ast"
	"go/token"
	"go/types"
	"strings"

	"defracheck/internal/eng"
)

func init() {
	register(&Property{
		ID: "C14",
		Rules: []Rule{
			{"LOADERS", ruleLoaders},
			{"ALLOC-PERSIST", ruleAllocPersist},
			{"NO-PACKAGE-STATE", ruleNoPackageState},
			{"TXN-SHAPE", ruleTxnShape},
			{"REPLICATOR-TABLE-EXACT", ruleReplicatorTableExact},
			{"REPLICATOR-PERSIST", ruleReplicatorPersist},
			{"KEY-AGREE", ruleKeyAgree},
		},
		Meta: eng.PropMeta{
			Explanation: "Decides that what a running node keeps in memory is rebuilt from, and allocated through, the store: (LOADERS) every success path of the constructors passes the loaders of the persisted families — NewPeer: replicators, p2p collections, p2p documents (each loader reads the family and feeds the in-memory routing table; errors returned) and the retry loop is started; DB.initialize on an existing store: loadSchema and the lens reload before Commit; on a fresh store the /init marker is written before Commit; (ALLOC-PERSIST) Sequence.Next reads the counter from the system store of the context transaction, advances it by one and writes it back in the same call, returning the write's error — identifiers are never allocated from memory only; (NO-PACKAGE-STATE) the id and sequence packages keep no mutable package-level state (short-id caches hang off the context); (TXN-SHAPE) initialize and every API entry point commit through the transaction discipline of C05; (REPLICATOR-PERSIST) SetReplicator/DeleteReplicator write the peer store record inside a transaction whose success path updates the in-memory table. (REPLICATOR-TABLE-EXACT) server.updateReplicators removes the peer from the in-memory table of every collection that is not in a non-empty given set, so the live table equals what a restart rebuilds from the persisted list.",
			NotDecided:  "equivalence of query results, descriptions and behaviour after arbitrary histories; crash points inside the KV store's commit (third party); identifier non-reuse over all histories",
		},
	})
}

func ruleLoaders(c *eng.Ctx) {
	const rule = "LOADERS"
	if fi := c.Anchor(rule, "net.NewPeer"); fi != nil {
		info := fi.Pkg.TypesInfo
		flow := eng.NewFlow(info, fi.Decl.Body)
		loaders := []string{"net.(*Peer).loadAndPublishReplicators", "net.(*Peer).loadAndPublishP2PCollections", "net.(*Peer).loadAndPublishP2PDocuments"}
		// the success return: `return p, nil`
		for i, r := range successReturnsP(c.P, info, fi.Decl) {
			if o := eng.ObjOf(info, r.Results[0]); o == nil {
				continue
			}
			for _, l := range loaders {
				ok := mustPassBefore(fi, flow, r, happyEdge(info), l)
				c.Check(ok, rule, fmt.Sprintf("NewPeer:return#%d:%s", i+1, l[strings.LastIndex(l, ".")+1:]), r.Pos(), "constructor loads the persisted family",
					"NewPeer can succeed without "+l+": after a restart the node no longer replicates to / subscribes for what was configured before")
			}
		}
		for _, es := range eng.ErrFlow(info, fi.Decl.Body, nil) {
			for _, l := range loaders {
				if es.Callee == l {
					c.Check(es.Finding == nil, rule, "NewPeer:"+l[strings.LastIndex(l, ".")+1:]+":error-returned", es.Call.Pos(), "loader failure fails the constructor", "a loader's error is dropped: the node starts with a partial routing table")
				}
			}
		}
		started := false
		ast.Inspect(fi.Decl.Body, func(m ast.Node) bool {
			if g, ok := m.(*ast.GoStmt); ok && eng.CalleeName(info, g.Call) == "net.(*Peer).handleReplicatorRetries" {
				started = true
			}
			return true
		})
		c.Check(started, rule, "NewPeer:retry-loop-started", fi.Decl.Pos(), "the replicator retry loop runs", "NewPeer no longer starts handleReplicatorRetries: failed pushes recorded before a restart are never retried")
	}
	// each loader reads its family and feeds the in-memory table
	for _, p := range []struct{ fn, reads, feeds string }{
		{"net.(*Peer).loadAndPublishReplicators", "net.(*Peer).GetAllReplicators", "net.(*server).updateReplicators"},
		{"net.(*Peer).loadAndPublishP2PCollections", "net.(*Peer).getAllP2PCollectionIDs", "net.(*server).addPubSubTopic"},
		{"net.(*Peer).loadAndPublishP2PDocuments", "net.(*Peer).GetAllP2PDocuments", "net.(*server).addPubSubTopic"},
	} {
		fi := c.Anchor(rule, p.fn)
		if fi == nil {
			continue
		}
		info := fi.Pkg.TypesInfo
		reads := eng.ContainsCallTo(info, fi.Decl.Body, true, p.reads) != nil
		feeds := eng.ContainsCallTo(info, fi.Decl.Body, true, p.feeds) != nil
		c.Check(reads && feeds, rule, shortFn(fi)+":reads-and-feeds", fi.Decl.Pos(), "reads the persisted family and feeds the in-memory table",
			fmt.Sprintf("loader no longer calls %s and %s (reads=%v feeds=%v)", p.reads, p.feeds, reads, feeds))
	}
	if fi := c.Anchor(rule, "internal/db.(*DB).initialize"); fi != nil {
		info := fi.Pkg.TypesInfo
		flow := eng.NewFlow(info, fi.Decl.Body)
		// exists var
		var exists types.Object
		ast.Inspect(fi.Decl.Body, func(m ast.Node) bool {
			as, ok := m.(*ast.AssignStmt)
			if ok && len(as.Rhs) == 1 && len(as.Lhs) == 2 {
				if call, ok := as.Rhs[0].(*ast.CallExpr); ok && eng.CalleeName(info, call) == "github.com/sourcenetwork/corekv.(Reader).Has" {
					exists = eng.ObjOf(info, as.Lhs[0])
				}
			}
			return true
		})
		if exists == nil {
			c.Unknown(rule, "initialize:init-marker-probe", fi.Decl.Pos(), "anchor-unresolved: Has(/init)")
			return
		}
		for _, ex := range []bool{true, false} {
			outs, _ := flow.Paths(eng.PathSpec{
				Cond: func(br eng.Branch) eng.Tri {
					return eng.BranchTri(info, br, func(e ast.Expr) eng.Tri {
						if t := happyAtom(info, e); t != eng.Unknown {
							return t
						}
						if eng.ObjOf(info, e) == exists {
							return eng.TriOf(ex)
						}
						return eng.Unknown
					})
				},
				Effect: func(n ast.Node) string {
					var l []string
					ast.Inspect(n, func(x ast.Node) bool {
						if call, ok := x.(*ast.CallExpr); ok {
							switch nm := eng.CalleeName(info, call); {
							case nm == "internal/db.(*DB).loadSchema":
								l = append(l, "loadSchema")
							case strings.HasSuffix(nm, ".ReloadLenses"):
								l = append(l, "reloadLenses")
							case nm == "github.com/sourcenetwork/corekv.(Writer).Set":
								l = append(l, "set-marker")
							case strings.HasSuffix(nm, ".Commit"):
								l = append(l, "commit")
							}
						}
						return true
					})
					return strings.Join(l, ",")
				},
			})
			want := "set-marker,commit"
			if ex {
				want = "loadSchema,reloadLenses,commit"
			}
			good := len(outs) > 0
			var got []string
			for _, o := range outs {
				if o.Kind != "return" {
					continue
				}
				s := strings.Join(o.Effects, ",")
				got = append(got, s)
				if s != want {
					good = false
				}
			}
			c.Check(good, rule, fmt.Sprintf("initialize:cell(existing-store=%v)", ex), fi.Decl.Pos(), "start-up sequence "+want,
				fmt.Sprintf("start-up on this branch does %v, required %q: a restarted node misses its schema/type system or lens migrations (or a fresh store is never marked initialised)", got, want))
		}
	}
}

func ruleAllocPersist(c *eng.Ctx) {
	const rule = "ALLOC-PERSIST"
	fi := c.Anchor(rule, "internal/db/sequence.(*Sequence).Next")
	if fi == nil {
		return
	}
	info := fi.Pkg.TypesInfo
	flow := eng.NewFlow(info, fi.Decl.Body)
	var get, upd *ast.CallExpr
	for _, cs := range eng.Calls(info, fi.Decl.Body) {
		switch cs.Name {
		case "internal/db/sequence.(*Sequence).Get":
			get = cs.Call
		case "internal/db/sequence.(*Sequence).Update":
			upd = cs.Call
		}
	}
	c.Check(get != nil && upd != nil, rule, "Sequence.Next:read-and-write-back", fi.Decl.Pos(), "the counter is read from and written back to the store in the same call",
		"Sequence.Next no longer reads the stored counter and writes it back: ids are allocated from memory and reused after a restart")
	if get == nil || upd == nil {
		return
	}
	// increment by one between Get and Update
	var inc ast.Node
	ast.Inspect(fi.Decl.Body, func(m ast.Node) bool {
		if s, ok := m.(*ast.IncDecStmt); ok && s.Tok == token.INC && isFieldNamed(info, s.X, "val") {
			inc = s
		}
		return true
	})
	if inc == nil {
		c.Bad(rule, "Sequence.Next:+1", fi.Decl.Pos(), "the counter is not advanced by exactly one (val++)")
	} else {
		gpt, _ := flow.PointOf(get)
		ipt, _ := flow.PointOf(inc)
		upt, _ := flow.PointOf(upd)
		order := flow.Reaches(gpt, ipt, nil) && flow.Reaches(ipt, upt, nil) && !flow.Reaches(upt, ipt, nil)
		c.Check(order, rule, "Sequence.Next:get→inc→update", inc.Pos(), "read, advance, write back — in that order", "the counter is not advanced between the read and the write-back")
	}
	for _, es := range eng.ErrFlow(info, fi.Decl.Body, nil) {
		if es.Call == get || es.Call == upd {
			c.Check(es.Finding == nil, rule, "Sequence.Next:"+es.Callee[strings.LastIndex(es.Callee, ".")+1:]+"-error-returned", es.Call.Pos(), "store failure fails the allocation", "a store error of the sequence is dropped: an id is handed out that was never persisted")
		}
	}
	// Get and Update go through the context transaction's system store
	for _, nm := range []string{"internal/db/sequence.(*Sequence).Get", "internal/db/sequence.(*Sequence).Update"} {
		f2 := c.P.Func(nm)
		if f2 == nil {
			continue
		}
		i2 := f2.Pkg.TypesInfo
		ok := eng.ContainsCallTo(i2, f2.Decl.Body, false, "internal/datastore.CtxMustGetTxn") != nil && strings.Contains(bodyText(f2), "Systemstore()")
		c.Check(ok, rule, shortFn(f2)+":context-txn-systemstore", f2.Decl.Pos(), "uses the system store of the context transaction", shortFn(f2)+" does not go through the context transaction's system store: the allocation is not atomic with the operation that uses the id")
	}
}

func bodyText(fi *eng.FuncInfo) string {
	var sb strings.Builder
	ast.Inspect(fi.Decl.Body, func(m ast.Node) bool {
		if call, ok := m.(*ast.CallExpr); ok {
			sb.WriteString(eng.ExprStr(call.Fun))
			sb.WriteString("();")
		}
		return true
	})
	return sb.String()
}

func ruleNoPackageState(c *eng.Ctx) {
	const rule = "NO-PACKAGE-STATE"
	n := 0
	for _, rel := range []string{"internal/db/sequence", "internal/db/id"} {
		pk := c.P.Pkg(rel)
		if pk == nil {
			c.Unknown(rule, "anchor:"+rel, token.NoPos, "anchor-unresolved")
			continue
		}
		scope := pk.Types.Scope()
		for _, name := range scope.Names() {
			v, ok := scope.Lookup(name).(*types.Var)
			if !ok {
				continue
			}
			n++
			// allowed: error sentinels, loggers, context keys (struct{} typed), compile-time interface assertions
			t := v.Type()
			allowed := eng.IsErrorType(t) || strings.HasPrefix(name, "_") || strings.Contains(eng.TypeName(t), "corelog") || strings.HasPrefix(name, "log") || strings.HasPrefix(name, "tracer")
			if st, ok := t.Underlying().(*types.Struct); ok && st.NumFields() == 0 {
				allowed = true
			}
			c.Check(allowed, rule, rel+"."+name, v.Pos(), "no mutable allocation state at package level",
				"package-level variable "+name+" of type "+t.String()+" in an allocation package: ids/sequences held in process memory are lost (and reused) after a restart and are shared across databases in one process")
		}
	}
	c.Notes = append(c.Notes, fmt.Sprintf("NO-PACKAGE-STATE: %d package-level variables examined", n))
}

func ruleReplicatorPersist(c *eng.Ctx) {
	const rule = "REPLICATOR-PERSIST"
	for _, name := range []string{"net.(*Peer).SetReplicator", "net.(*Peer).DeleteReplicator"} {
		fi := c.Anchor(rule, name)
		if fi == nil {
			continue
		}
		info := fi.Pkg.TypesInfo
		// the in-memory update happens in a txn.OnSuccess callback (not before the commit)
		okCb := false
		ast.Inspect(fi.Decl.Body, func(m ast.Node) bool {
			call, ok := m.(*ast.CallExpr)
			if !ok {
				return true
			}
			se, ok := call.Fun.(*ast.SelectorExpr)
			if ok && (se.Sel.Name == "OnSuccess" || se.Sel.Name == "OnSuccessAsync") && len(call.Args) == 1 {
				if lit, ok := call.Args[0].(*ast.FuncLit); ok && eng.ContainsCallTo(info, lit.Body, true, "net.(*server).updateReplicators") != nil {
					okCb = true
				}
			}
			return true
		})
		direct := false
		for _, cs := range eng.Calls(info, fi.Decl.Body) {
			if cs.Name == "net.(*server).updateReplicators" && cs.Lit == nil {
				direct = true
			}
		}
		c.Check(okCb && !direct, rule, shortFn(fi)+":memory-after-commit", fi.Decl.Pos(), "the routing table changes only when the peer-store write committed",
			"the in-memory replicator table is updated outside the transaction's success callback: after a failed commit memory and store disagree, and a restart changes behaviour")
		writes := strings.Contains(bodyText(fi), "Peerstore()")
		c.Check(writes, rule, shortFn(fi)+":writes-peerstore", fi.Decl.Pos(), "the replicator record is written to the peer store", "the replicator change is not written to the peer store")
	}
}

// ruleKeyAgree: the persisted marker of a p2p subscription and its pubsub topic are addressed by the
// same identifier in the add and the remove path (sibling agreement of key arguments).
func ruleKeyAgree(c *eng.Ctx) {
	const rule = "KEY-AGREE"
	for _, pair := range []struct{ add, remove, keyCtor string }{
		{"net.(*Peer).AddP2PCollections", "net.(*Peer).RemoveP2PCollections", "internal/keys.NewP2PCollectionKey"},
		{"net.(*Peer).AddP2PDocuments", "net.(*Peer).RemoveP2PDocuments", "internal/keys.NewP2PDocumentKey"},
	} {
		kinds := map[string][]string{}
		for _, fn := range []string{pair.add, pair.remove} {
			fi := c.Anchor(rule, fn)
			if fi == nil {
				continue
			}
			info := fi.Pkg.TypesInfo
			for _, cs := range eng.Calls(info, fi.Decl.Body) {
				switch cs.Name {
				case pair.keyCtor, "net.(*server).addPubSubTopic", "net.(*server).removePubSubTopic":
					if len(cs.Call.Args) == 0 {
						continue
					}
					kinds[originKind(info, cs.Call.Args[0])] = append(kinds[originKind(info, cs.Call.Args[0])], shortFn(fi)+"→"+cs.Name[strings.LastIndex(cs.Name, ".")+1:])
				}
			}
		}
		var ks []string
		for k := range kinds {
			ks = append(ks, k)
		}
		c.Check(len(ks) == 1, rule, pair.add[strings.LastIndex(pair.add, ".")+1:]+"≡"+pair.remove[strings.LastIndex(pair.remove, ".")+1:]+":identifier", token.NoPos,
			fmt.Sprintf("add and remove address marker and topic by the same identifier (%v)", ks),
			fmt.Sprintf("the persisted marker / pubsub topic is addressed by different identifiers in the add and remove paths: %v — a removed subscription's marker stays in the store and is re-subscribed after a restart (or the wrong one is deleted)", kinds))
	}
	// the per-replicator collection set handed to updateReplicators is built fresh for each replicator
	if fi := c.Anchor(rule, "net.(*Peer).loadAndPublishReplicators"); fi != nil {
		info := fi.Pkg.TypesInfo
		ast.Inspect(fi.Decl.Body, func(m ast.Node) bool {
			rs, ok := m.(*ast.RangeStmt)
			if !ok {
				return true
			}
			for _, cs := range eng.Calls(info, rs.Body) {
				if cs.Name != "net.(*server).updateReplicators" || len(cs.Call.Args) != 2 {
					continue
				}
				set := eng.ObjOf(info, cs.Call.Args[1])
				fresh := set != nil && rs.Body.Pos() <= set.Pos() && set.Pos() <= rs.Body.End()
				c.Check(fresh, rule, "loadAndPublishReplicators:set-fresh-per-replicator", cs.Call.Pos(), "each replicator's collection set is built inside its own loop iteration",
					"the collection set passed to updateReplicators is declared outside the per-replicator loop: it accumulates across replicators, so after a restart later replicators also receive the collections of earlier ones")
			}
			return false
		})
	}
}

// originKind names where an identifier argument comes from: the method it is obtained with
// ("SchemaRoot()", "VersionID field") or "plain" for parameters and locals.
func originKind(info *types.Info, e ast.Expr) string {
	e = ast.Unparen(e)
	switch x := e.(type) {
	case *ast.CallExpr:
		if se, ok := x.Fun.(*ast.SelectorExpr); ok {
			return se.Sel.Name + "()"
		}
	case *ast.SelectorExpr:
		return "." + x.Sel.Name
	case *ast.BasicLit:
		return "literal"
	}
	return "plain"
}
