package rules

import (
	"fmt"
	"go/ast"
	"go/token"
	"go/types"
	"strings"

	"defracheck/internal/eng"
)

func init() {
	register(&Property{
		ID: "C05",
		Rules: []Rule{
			{"TXN-SHAPE", ruleTxnShape},
			{"ERRFLOW", func(c *eng.Ctx) {
				ruleErrFlowCone(c, "ERRFLOW", mutationRoots(c.P), mutationConePkgs, 300)
			}},
			{"EVENT-ONSUCCESS", ruleEventOnSuccess},
			{"FAIL-BEFORE-WRITE", ruleFailBeforeWrite},
			{"COMMIT-CALLBACKS", ruleCommitCallbacks},
			{"ITER-CLOSE", func(c *eng.Ctx) { ruleIterClose(c, "ITER-CLOSE", mutationConePkgs, 15) }},
			{"USE-AFTER-ERR", func(c *eng.Ctx) { ruleUseAfterErr(c, "USE-AFTER-ERR", mutationConePkgs) }},
			{"TXN-SOURCE", ruleTxnSource},
		},
		Meta: eng.PropMeta{
			Explanation: "The fault quantifier 'the k-th storage operation fails' is mapped to 'every error edge of every storage-derived call site in the mutation cone'. Decided: (TXN-SHAPE) every function that obtains its transaction from ensureContextTxn defers Discard before any other exit, returns Commit's error, never reaches Commit on a path where an earlier call's error was non-nil, and every success return is dominated by Commit (ExecRequest: Commit only on the no-errors edge); (ERRFLOW) every storage-derived error produced in the cone of the mutating entry points reaches a return or sink on every non-nil path — not dropped, not only logged, not replaced by a different (nil) variable; (EVENT-ONSUCCESS) every publication of an update event sits inside a callback registered with OnSuccess/OnSuccessAsync; (ITER-CLOSE) every iterator acquired in the cone is closed or handed over on every exit; (USE-AFTER-ERR) no co-result of a failed call is dereferenced on the failure edge; (TXN-SOURCE) inside internal/db only the tabled functions create transactions. (COMMIT-CALLBACKS) BasicTxn.Commit binds the store commit's error, selects the success callbacks on no path where that error is non-nil (and the error callbacks on no path where it is nil), returns that error on every exit, and only Commit and the matching On* registrar touch the callback lists. Error-flow refinement: a returned call that is not an error constructor (`return it.Close()`, `errors.Join(other, …)`) does not count as surfacing a tracked error. (FAIL-BEFORE-WRITE) in collection.create the unique-index violation — a failure that depends on the user's input — is detected before the first write; on the current tree it is detected after c.save, so inside an explicit transaction a create that reported an error leaves its document and its notification behind: the recorded known finding of this rule.",
			NotDecided:  "atomicity of the key-value store's own commit (third party); in-memory side effects surviving a rollback (collection index caches); equality of the full before/after state for every fault position",
		},
	})
}

var mutationConePkgs = []string{"internal/db", "internal/db/...", "internal/core/...", "internal/datastore", "internal/planner", "internal/planner/...", "internal/keys", "internal/encryption", "internal/lens"}

// mutationRoots: every function that acquires a writable context transaction, i.e. the mutating API
// entry points, resolved from the repository (callers of ensureContextTxn with readOnly != true).
func mutationRoots(p *eng.Program) []string {
	var out []string
	for _, s := range txnSites(p) {
		if !s.readOnly {
			out = append(out, s.fn.Name)
		}
	}
	return out
}

type txnSite struct {
	fn       *eng.FuncInfo
	call     *ast.CallExpr
	def      *ast.AssignStmt
	txn, err types.Object
	readOnly bool
}

func txnSites(p *eng.Program) []txnSite {
	var out []txnSite
	for _, fi := range p.FuncsIn("internal/db") {
		if fi.Decl.Body == nil || fi.Name == "internal/db.ensureContextTxn" {
			continue
		}
		info := fi.Pkg.TypesInfo
		ast.Inspect(fi.Decl.Body, func(n ast.Node) bool {
			as, ok := n.(*ast.AssignStmt)
			if !ok || len(as.Rhs) != 1 || len(as.Lhs) != 3 {
				return true
			}
			call, ok := as.Rhs[0].(*ast.CallExpr)
			if !ok || eng.CalleeName(info, call) != "internal/db.ensureContextTxn" {
				return true
			}
			s := txnSite{fn: fi, call: call, def: as, txn: eng.ObjOf(info, as.Lhs[1]), err: eng.ObjOf(info, as.Lhs[2])}
			if tv, ok := info.Types[call.Args[2]]; ok && tv.Value != nil {
				s.readOnly = tv.Value.ExactString() == "true"
			}
			out = append(out, s)
			return true
		})
	}
	return out
}

// txnShapeExceptions: one named function + reason each.
var txnShapeExceptions = map[string]string{
	"internal/db.(*collection).GetAllDocIDs": "read-only; the transaction is handed to the producer goroutine of the result channel, which discards it when the channel is drained",
}

func ruleTxnShape(c *eng.Ctx) {
	const rule = "TXN-SHAPE"
	sites := txnSites(c.P)
	c.Floor(rule, len(sites), 20)
	for _, s := range sites {
		fi := s.fn
		info := fi.Pkg.TypesInfo
		name := shortFn(fi)
		if why, ok := txnShapeExceptions[fi.Name]; ok {
			c.OK(rule, name+":tabled-exception", s.call.Pos(), why)
			continue
		}
		if s.txn == nil || s.err == nil {
			c.Bad(rule, name+":acquisition", s.call.Pos(), "transaction or error result of ensureContextTxn discarded")
			continue
		}
		flow := eng.NewFlow(info, fi.Decl.Body)
		acq, ok := flow.PointOf(s.def)
		if !ok {
			continue
		}
		isTxnMethod := func(call *ast.CallExpr, m string) bool {
			se, ok := call.Fun.(*ast.SelectorExpr)
			return ok && se.Sel.Name == m && eng.ObjOf(info, se.X) == s.txn
		}
		// 1. Discard deferred before any other exit
		isDeferDiscard := func(n ast.Node) bool {
			d, ok := n.(*ast.DeferStmt)
			if !ok {
				return false
			}
			if isTxnMethod(d.Call, "Discard") {
				return true
			}
			if lit, ok := d.Call.Fun.(*ast.FuncLit); ok {
				return eng.FindCall(lit.Body, true, func(cc *ast.CallExpr) bool { return isTxnMethod(cc, "Discard") }) != nil
			}
			return false
		}
		nilEdge := func(cond ast.Expr, taken bool) bool {
			t := eng.EvalBool(info, cond, func(e ast.Expr) eng.Tri {
				if is, nonNil := eng.ErrNilTest(info, e, s.err); is {
					return eng.TriOf(!nonNil) // assume err == nil
				}
				return eng.Unknown
			})
			switch t {
			case eng.True:
				return taken
			case eng.False:
				return !taken
			}
			return true
		}
		leak, where := flow.ExitsWithout(acq, false, isDeferDiscard, nilEdge)
		c.Check(!leak, rule, name+":discard-deferred", s.call.Pos(), "defer txn.Discard follows the acquisition on every path",
			"exit at "+c.P.Rel(where)+" after a successful ensureContextTxn without a deferred txn.Discard: an error return leaves the transaction (and its iterators) open")

		// commit sites in the body proper
		var commits []*ast.CallExpr
		var deferredCommits []*ast.CallExpr
		for _, cs := range eng.Calls(info, fi.Decl.Body) {
			if isTxnMethod(cs.Call, "Commit") {
				if cs.Lit == nil {
					commits = append(commits, cs.Call)
				} else {
					deferredCommits = append(deferredCommits, cs.Call)
				}
			}
		}
		sig := fi.Obj.Type().(*types.Signature)
		returnsErr := eng.ReturnsError(sig)
		if len(commits)+len(deferredCommits) == 0 {
			c.OK(rule, name+":no-commit", s.call.Pos(), fmt.Sprintf("read-only use (readOnly=%v): the deferred Discard ends the transaction", s.readOnly))
			continue
		}
		// named-result deferred commit idiom: defer func(){ if R == nil { R = txn.Commit(ctx) } }()
		var named []types.Object
		if fi.Decl.Type.Results != nil {
			for _, f := range fi.Decl.Type.Results.List {
				for _, nm := range f.Names {
					named = append(named, info.Defs[nm])
				}
			}
		}
		for i, dc := range deferredCommits {
			okIdiom := false
			ast.Inspect(fi.Decl.Body, func(n ast.Node) bool {
				as, ok := n.(*ast.AssignStmt)
				if !ok || len(as.Rhs) != 1 || ast.Unparen(as.Rhs[0]) != dc {
					return true
				}
				for _, r := range named {
					if eng.ObjOf(info, as.Lhs[0]) == r && eng.IsErrorType(r.Type()) {
						okIdiom = true
					}
				}
				return true
			})
			c.Check(okIdiom, rule, fmt.Sprintf("%s:deferred-commit#%d:into-named-result", name, i+1), dc.Pos(),
				"deferred Commit assigns a named error result", "Commit runs in a deferred closure but its error is not assigned to a named result of the function: a failed commit is reported as success")
		}
		for i, cm := range commits {
			cpt, ok := flow.PointOf(cm)
			if !ok {
				continue
			}
			// 3a. commit error returned
			lost := ""
			for _, es := range eng.ErrFlow(info, fi.Decl.Body, named) {
				if es.Call == cm && es.Finding != nil {
					lost = es.Finding.Kind + ": " + es.Finding.Detail
				}
			}
			c.Check(lost == "", rule, fmt.Sprintf("%s:commit#%d:error-returned", name, i+1), cm.Pos(), "Commit's error reaches the caller", "Commit's error is "+lost)

			// 3b. commit unreachable from a failed call
			bad := ""
			for _, es := range eng.ErrFlow(info, fi.Decl.Body, named) {
				if es.Call == cm || es.Call.Pos() > cm.Pos() {
					continue
				}
				as := assignOf(fi.Decl.Body, es.Call)
				if as == nil {
					continue
				}
				var ev types.Object
				for _, l := range as.Lhs {
					if o := eng.ObjOf(info, l); o != nil && eng.IsErrorType(o.Type()) {
						ev = o
					}
				}
				if ev == nil {
					continue
				}
				dpt, ok := flow.PointOf(as)
				if !ok {
					continue
				}
				hit := flow.Forward(dpt, false, eng.Walk{
					Visit: func(p eng.Point, n ast.Node) eng.Action {
						if p == cpt {
							return eng.Hit
						}
						if ex, ok := n.(ast.Expr); ok && mentionsObj(info, ex, ev) && eng.FindCall(ex, false, func(cc *ast.CallExpr) bool {
							nm := eng.CalleeName(info, cc)
							return strings.HasSuffix(nm, "errors.Is") || strings.HasSuffix(nm, "errors.As")
						}) != nil {
							return eng.Cut // a specific error is tolerated explicitly
						}
						if a2, ok := n.(*ast.AssignStmt); ok && a2 != as {
							for _, l := range a2.Lhs {
								if eng.ObjOf(info, l) == ev {
									return eng.Cut
								}
							}
						}
						return eng.Continue
					},
					Edge: func(cond ast.Expr, taken bool) bool {
						t := eng.EvalBool(info, cond, func(e ast.Expr) eng.Tri {
							if is, nonNil := eng.ErrNilTest(info, e, ev); is {
								return eng.TriOf(nonNil)
							}
							return eng.Unknown
						})
						switch t {
						case eng.True:
							return taken
						case eng.False:
							return !taken
						}
						// an untested error may be non-nil on both edges only until it is tested
						return true
					},
				})
				if hit && errTested(info, flow, dpt, ev) {
					bad = fmt.Sprintf("Commit is reachable on the failure edge of %s at %s", calleeLabel(info, es.Call), c.P.Rel(es.Call.Pos()))
				} else if hit {
					bad = fmt.Sprintf("the error of %s at %s is never tested before Commit", calleeLabel(info, es.Call), c.P.Rel(es.Call.Pos()))
				}
			}
			c.Check(bad == "", rule, fmt.Sprintf("%s:commit#%d:not-after-failure", name, i+1), cm.Pos(), "no path from a failed call reaches Commit", bad+": a partial effect would be committed")

			// 3c. result-object form (no error result): Commit only on the no-errors edge
			if !returnsErr {
				reach := flow.ReachesWithout(cpt, func(ast.Node) bool { return false }, func(cond ast.Expr, taken bool) bool {
					if is, emptyWhenTrue := errorsEmptyTest(info, cond); is {
						if taken == emptyWhenTrue {
							return false // forbid the "no errors" edge
						}
					}
					return true
				})
				c.Check(!reach, rule, fmt.Sprintf("%s:commit#%d:only-without-result-errors", name, i+1), cm.Pos(),
					"Commit reachable only when the result carries no errors", "Commit is reachable although the request result carries errors: a failed mutation request would be committed")
			}
		}
		// 4. success returns dominated by Commit
		if returnsErr && len(commits) > 0 {
			ord := 0
			ast.Inspect(fi.Decl.Body, func(n ast.Node) bool {
				if _, ok := n.(*ast.FuncLit); ok {
					return false
				}
				r, ok := n.(*ast.ReturnStmt)
				if !ok || len(r.Results) == 0 || r.Pos() < s.def.Pos() {
					return true
				}
				last := ast.Unparen(r.Results[len(r.Results)-1])
				isCommit := false
				for _, cm := range commits {
					if last == cm {
						isCommit = true
					}
				}
				if isCommit {
					return true
				}
				mayBeNil := false
				if tv, ok := info.Types[last]; ok && tv.IsNil() {
					mayBeNil = true
				} else if id, ok := last.(*ast.Ident); ok {
					if v, isVar := info.Uses[id].(*types.Var); isVar && eng.IsErrorType(v.Type()) && !knownNonNil(info, fi.Decl.Body, r, v) {
						mayBeNil = true
					}
				}
				if !mayBeNil {
					return true
				}
				ord++
				rpt, ok := flow.PointOf(r)
				if !ok {
					return true
				}
				un := flow.Forward(acq, false, eng.Walk{
					Visit: func(p eng.Point, nd ast.Node) eng.Action {
						if p == rpt {
							return eng.Hit
						}
						for _, cm := range commits {
							if nd.Pos() <= cm.Pos() && cm.End() <= nd.End() {
								return eng.Cut
							}
						}
						return eng.Continue
					},
					Edge: nilEdge,
				})
				c.Check(!un, rule, fmt.Sprintf("%s:success-return#%d:after-commit", name, ord), r.Pos(),
					"success return dominated by Commit", "a return that may report success is reachable without passing txn.Commit: the caller is told the mutation succeeded while the deferred Discard rolls it back (or the commit error is lost)")
				return true
			})
		}
	}
}

func knownNonNil(info *types.Info, body *ast.BlockStmt, at ast.Node, v types.Object) bool {
	return eng.KnownNonNilAt(info, body, at, v)
}

func calleeLabel(info *types.Info, call *ast.CallExpr) string {
	if n := eng.CalleeName(info, call); n != "" {
		return n
	}
	return eng.ExprStr(call.Fun)
}

// assignOf finds the assignment statement whose single RHS is call.
func assignOf(body *ast.BlockStmt, call *ast.CallExpr) *ast.AssignStmt {
	var res *ast.AssignStmt
	ast.Inspect(body, func(n ast.Node) bool {
		if as, ok := n.(*ast.AssignStmt); ok && len(as.Rhs) == 1 && ast.Unparen(as.Rhs[0]) == call {
			res = as
		}
		return res == nil
	})
	return res
}

// errorsEmptyTest recognises `len(X.Errors) OP k` conditions: returns (isTest, emptyWhenTrue).
func errorsEmptyTest(info *types.Info, cond ast.Expr) (bool, bool) {
	be, ok := ast.Unparen(cond).(*ast.BinaryExpr)
	if !ok {
		return false, false
	}
	lenErrs := func(e ast.Expr) bool {
		call, ok := ast.Unparen(e).(*ast.CallExpr)
		if !ok || len(call.Args) != 1 {
			return false
		}
		if id, ok := call.Fun.(*ast.Ident); !ok || id.Name != "len" {
			return false
		}
		se, ok := ast.Unparen(call.Args[0]).(*ast.SelectorExpr)
		return ok && se.Sel.Name == "Errors"
	}
	op := be.Op
	var k int64
	var okk bool
	if lenErrs(be.X) {
		k, okk = eng.IntConst(info, be.Y)
	} else if lenErrs(be.Y) {
		k, okk = eng.IntConst(info, be.X)
		op = eng.FlipOp(op)
	} else {
		return false, false
	}
	if !okk {
		return false, false
	}
	holds := func(l int64) bool { r, _ := eng.CmpHolds(op, cmpInt(l, k)); return r }
	switch {
	case holds(0) && !holds(1) && !holds(2):
		return true, true
	case !holds(0) && holds(1) && holds(2):
		return true, false
	}
	return false, false
}

// ---------------------------------------------------------------------------------------------
// TXN-SOURCE

// txnSourceTable: functions of internal/db that may create a transaction themselves.
var txnSourceTable = map[string]string{
	"internal/db.ensureContextTxn":         "the one place API calls obtain their transaction",
	"internal/db.(*DB).handleSubscription": "evaluates a subscription in its own read transaction after the triggering commit",
	"internal/db.(*DB).NewConcurrentTxn":   "public constructor",
	"internal/db.(*DB).NewTxn":             "public constructor",
}

func ruleTxnSource(c *eng.Ctx) {
	const rule = "TXN-SOURCE"
	n := 0
	for _, fi := range c.P.FuncsIn("internal/db") {
		if fi.Decl.Body == nil {
			continue
		}
		info := fi.Pkg.TypesInfo
		ord := 0
		for _, cs := range eng.Calls(info, fi.Decl.Body) {
			switch cs.Name {
			case "internal/db.(*DB).NewTxn", "internal/db.(*DB).NewConcurrentTxn", "internal/db.(transactionDB).NewTxn",
				"internal/datastore.NewTxnFrom", "internal/datastore.NewConcurrentTxnFrom", "client.(TxnStore).NewTxn", "client.(DB).NewTxn":
			default:
				continue
			}
			n++
			ord++
			construct := fmt.Sprintf("%s→%s#%d", shortFn(fi), cs.Name, ord)
			if _, ok := txnSourceTable[fi.Name]; ok {
				c.OK(rule, construct, cs.Call.Pos(), "tabled transaction source")
				continue
			}
			c.Bad(rule, construct, cs.Call.Pos(), "a function of internal/db outside the tabled sources creates its own transaction: part of an API call's effect would run outside the caller's transaction (not rolled back with it, not isolated by it)")
		}
	}
	c.Floor(rule, n, 3)
}

// ---------------------------------------------------------------------------------------------
// EVENT-ONSUCCESS (shared with C20)

// eventOnSuccessExceptions: publications of update events outside a success callback.
var eventOnSuccessExceptions = map[string]string{
	"internal/db.(*DB).publishDocUpdateEvent": "re-announces heads that are already committed (after an ACP relationship grant); reads committed state outside any mutation",
}

func ruleEventOnSuccess(c *eng.Ctx) {
	const rule = "EVENT-ONSUCCESS"
	updateName := lookupObj(c.P, "event", "UpdateName")
	if updateName == nil {
		c.Unknown(rule, "anchor:event.UpdateName", token.NoPos, "anchor-unresolved")
		return
	}
	n := 0
	for _, fi := range c.P.Funcs() {
		if fi.Decl.Body == nil || strings.HasPrefix(eng.ShortPkg(fi.Pkg.PkgPath), "tests") {
			continue
		}
		info := fi.Pkg.TypesInfo
		ord := 0
		for _, cs := range eng.Calls(info, fi.Decl.Body) {
			if !strings.HasSuffix(cs.Name, ".Publish") || !strings.HasPrefix(cs.Name, "event.") {
				continue
			}
			// the message is event.NewMessage(event.UpdateName, ...) directly or through a local
			if !publishesUpdate(info, fi.Decl, cs.Call, updateName) {
				continue
			}
			n++
			ord++
			construct := fmt.Sprintf("%s:publish-update#%d", shortFn(fi), ord)
			if why, ok := eventOnSuccessExceptions[fi.Name]; ok {
				c.OK(rule, construct, cs.Call.Pos(), "tabled exception: "+why)
				continue
			}
			// innermost enclosing literal must be an argument of txn.OnSuccess / OnSuccessAsync
			ok := false
			if cs.Lit != nil {
				ast.Inspect(fi.Decl.Body, func(m ast.Node) bool {
					call, isCall := m.(*ast.CallExpr)
					if !isCall {
						return true
					}
					se, isSel := call.Fun.(*ast.SelectorExpr)
					if !isSel || (se.Sel.Name != "OnSuccess" && se.Sel.Name != "OnSuccessAsync") {
						return true
					}
					for _, a := range call.Args {
						if a == cs.Lit {
							ok = true
						}
						// closure bound to a local first: f := func(){..}; txn.OnSuccess(f)
						if o := eng.ObjOf(info, a); o != nil {
							ast.Inspect(fi.Decl.Body, func(x ast.Node) bool {
								if as, isAs := x.(*ast.AssignStmt); isAs && len(as.Lhs) == 1 && len(as.Rhs) == 1 && eng.ObjOf(info, as.Lhs[0]) == o && as.Rhs[0] == cs.Lit {
									ok = true
								}
								return true
							})
						}
					}
					return true
				})
			}
			c.Check(ok, rule, construct, cs.Call.Pos(), "published from a txn.OnSuccess callback",
				"update event published outside a transaction success callback: peers and subscribers are notified of a change that may still be rolled back (or before its block is readable)")
		}
	}
	c.Floor(rule, n, 3)
}

func publishesUpdate(info *types.Info, fd *ast.FuncDecl, call *ast.CallExpr, updateName types.Object) bool {
	if len(call.Args) != 1 {
		return false
	}
	arg := ast.Unparen(call.Args[0])
	if id, ok := arg.(*ast.Ident); ok {
		obj := info.ObjectOf(id)
		ast.Inspect(fd.Body, func(m ast.Node) bool {
			if as, ok := m.(*ast.AssignStmt); ok && len(as.Lhs) == 1 && len(as.Rhs) == 1 && eng.ObjOf(info, as.Lhs[0]) == obj {
				arg = ast.Unparen(as.Rhs[0])
			}
			return true
		})
	}
	found := false
	ast.Inspect(arg, func(m ast.Node) bool {
		if se, ok := m.(*ast.SelectorExpr); ok && info.Uses[se.Sel] == updateName {
			found = true
		}
		if id, ok := m.(*ast.Ident); ok && info.Uses[id] == updateName {
			found = true
		}
		return true
	})
	return found
}

// ---------------------------------------------------------------------------------------------
// COMMIT-CALLBACKS (shared with C20): the success callbacks of a transaction run only when the
// underlying store commit returned nil, and nothing but Commit reads them.

func ruleCommitCallbacks(c *eng.Ctx) {
	const rule = "COMMIT-CALLBACKS"
	commit := c.Anchor(rule, "internal/datastore.(*BasicTxn).Commit")
	if commit == nil {
		return
	}
	isFnsField := func(info *types.Info, e ast.Expr, names ...string) bool {
		se, ok := ast.Unparen(e).(*ast.SelectorExpr)
		if !ok {
			return false
		}
		v, ok := info.Uses[se.Sel].(*types.Var)
		if !ok || !v.IsField() {
			return false
		}
		for _, n := range names {
			if se.Sel.Name == n && eng.TypeName(info.TypeOf(se.X)) == "internal/datastore.BasicTxn" {
				return true
			}
		}
		return false
	}
	mentionsFns := func(info *types.Info, n ast.Node, names ...string) bool {
		found := false
		ast.Inspect(n, func(m ast.Node) bool {
			if e, ok := m.(ast.Expr); ok && isFnsField(info, e, names...) {
				found = true
			}
			return !found
		})
		return found
	}
	// 1. readers/writers of the callback lists are confined
	allowed := map[string]string{
		"Commit": "", "OnSuccess": "successFns", "OnSuccessAsync": "successAsyncFns", "OnError": "errorFns", "OnErrorAsync": "errorAsyncFns",
	}
	n := 0
	for _, fi := range c.P.FuncsIn("internal/datastore") {
		if fi.Decl.Body == nil || strings.HasSuffix(fi.File.Name.Name, "_test") || strings.HasSuffix(c.P.Fset.Position(fi.Decl.Pos()).Filename, "_test.go") {
			continue
		}
		info := fi.Pkg.TypesInfo
		if !mentionsFns(info, fi.Decl.Body, "successFns", "successAsyncFns", "errorFns", "errorAsyncFns") {
			continue
		}
		n++
		base := fi.Decl.Name.Name
		only, ok := allowed[base]
		good := ok && strings.Contains(fi.Name, "(*BasicTxn)")
		if good && only != "" {
			for _, other := range []string{"successFns", "successAsyncFns", "errorFns", "errorAsyncFns"} {
				if other != only && mentionsFns(info, fi.Decl.Body, other) {
					good = false
				}
			}
		}
		c.Check(good, rule, shortFn(fi)+":callback-lists-confined", fi.Decl.Pos(), "touches only its own callback list",
			"a function other than Commit and the matching On* registrar touches the success/error callback lists: callbacks may run (or be dropped) independently of the commit's outcome")
	}
	c.Floor(rule, n, 5)
	// 2. in Commit: under "store commit failed" no success list is read; under "store commit succeeded" no error list is read
	info := commit.Pkg.TypesInfo
	flow := eng.NewFlow(info, commit.Decl.Body)
	var def ast.Node
	var errObj types.Object
	ast.Inspect(commit.Decl.Body, func(m ast.Node) bool {
		as, ok := m.(*ast.AssignStmt)
		if !ok || len(as.Rhs) != 1 || len(as.Lhs) != 1 {
			return true
		}
		call, ok := ast.Unparen(as.Rhs[0]).(*ast.CallExpr)
		if !ok {
			return true
		}
		if se, ok := call.Fun.(*ast.SelectorExpr); ok && se.Sel.Name == "Commit" && isStorageCallee(info, call) {
			def, errObj = as, eng.ObjOf(info, as.Lhs[0])
		}
		return true
	})
	if def == nil || errObj == nil {
		c.Bad(rule, "Commit:store-commit-error-bound", commit.Decl.Pos(), "BasicTxn.Commit does not bind the error of the store transaction's Commit to a variable: the callbacks cannot depend on the outcome")
		return
	}
	c.OK(rule, "Commit:store-commit-error-bound", def.Pos(), "error of the store commit bound to "+errObj.Name())
	start, _ := flow.PointOf(def)
	for _, tc := range []struct {
		nonNil bool
		lists  []string
		key    string
		bad    string
	}{
		{true, []string{"successFns", "successAsyncFns"}, "Commit:failed⇒no-success-callbacks", "on a path where the store commit returned an error the success callbacks are selected: update events are published, documents marked clean and schema caches swapped for a transaction that was not stored"},
		{false, []string{"errorFns", "errorAsyncFns"}, "Commit:succeeded⇒no-error-callbacks", "on a path where the store commit succeeded the error callbacks are selected"},
	} {
		var at token.Pos
		hit := flow.Forward(start, false, eng.Walk{
			Visit: func(pt eng.Point, n ast.Node) eng.Action {
				if mentionsFns(info, n, tc.lists...) {
					at = n.Pos()
					return eng.Hit
				}
				// reassignment of the error variable ends the knowledge
				if as, ok := n.(*ast.AssignStmt); ok && as != def {
					for _, l := range as.Lhs {
						if eng.ObjOf(info, l) == errObj {
							return eng.Cut
						}
					}
				}
				return eng.Continue
			},
			Edge: func(cond ast.Expr, taken bool) bool {
				t := eng.EvalBool(info, cond, func(e ast.Expr) eng.Tri {
					if is, nonNilWhenTrue := eng.ErrNilTest(info, e, errObj); is {
						return eng.TriOf(nonNilWhenTrue == tc.nonNil)
					}
					return eng.Unknown
				})
				switch t {
				case eng.True:
					return taken
				case eng.False:
					return !taken
				}
				return true
			},
		})
		pos := def.Pos()
		if hit {
			pos = at
		}
		c.Check(!hit, rule, tc.key, pos, "callback selection follows the store commit's outcome exactly", tc.bad)
	}
	// 3. Commit returns the store commit's error on every exit
	lost, where := flow.ExitsWithout(start, false, func(n ast.Node) bool {
		r, ok := n.(*ast.ReturnStmt)
		if !ok {
			return false
		}
		m := false
		ast.Inspect(r, func(x ast.Node) bool {
			if id, ok := x.(*ast.Ident); ok && info.Uses[id] == errObj {
				m = true
			}
			return true
		})
		return m
	}, nil)
	c.Check(!lost, rule, "Commit:returns-store-commit-error", where, "every exit returns the store commit's error", "an exit of Commit does not return the store commit's error: the caller treats an unstored transaction as committed")
}

func isStorageCallee(info *types.Info, call *ast.CallExpr) bool {
	f := eng.Callee(info, call)
	return f != nil && eng.IsStorageFunc(f)
}

// ruleFailBeforeWrite: inside an explicit transaction nothing undoes the writes of a call that fails
// (Discard of an explicit transaction is a no-op until the user ends it, and there are no savepoints).
// A call therefore "reports an error and leaves everything as before" only if every failure that
// depends on the user's input is detected before the call's first write. In collection.create the
// uniqueness of indexed values is such a failure: no call that can return the unique-index violation
// may follow c.save (which writes the document's blocks and registers its update notification).
func ruleFailBeforeWrite(c *eng.Ctx) {
	const rule = "FAIL-BEFORE-WRITE"
	fi := c.Anchor(rule, "internal/db.(*collection).create")
	if fi == nil {
		return
	}
	info := fi.Pkg.TypesInfo
	var save *ast.CallExpr
	for _, cs := range eng.Calls(info, fi.Decl.Body) {
		if cs.Name == "internal/db.(*collection).save" && cs.Lit == nil {
			save = cs.Call
		}
	}
	construct := "create:unique-violation-detected-before-first-write"
	if save == nil {
		c.Unknown(rule, construct, fi.Decl.Pos(), "anchor-unresolved: the call that writes the document (c.save)")
		return
	}
	canViolateUnique := func(call *ast.CallExpr) bool {
		g := c.P.FuncOfObj(eng.Callee(info, call))
		if g == nil {
			return false
		}
		fn := c.P.SSAFunc(g)
		if fn == nil {
			return false
		}
		for f := range c.P.Cone(fn) {
			if f.Name() == "NewErrCanNotIndexNonUniqueFields" {
				return true
			}
		}
		return false
	}
	flow := eng.NewFlow(info, fi.Decl.Body)
	spt, _ := flow.PointOf(save)
	var late *ast.CallExpr
	for _, cs := range eng.Calls(info, fi.Decl.Body) {
		if cs.Lit != nil || cs.Call == save || !strings.HasPrefix(cs.Name, "internal/db.") {
			continue
		}
		if !canViolateUnique(cs.Call) {
			continue
		}
		cpt, ok := flow.PointOf(cs.Call)
		if ok && flow.Reaches(spt, cpt, nil) {
			late = cs.Call
		}
	}
	pos := save.Pos()
	if late != nil {
		pos = late.Pos()
	}
	c.Check(late == nil, rule, construct, pos, "the uniqueness of indexed values is established before the document is written",
		"a unique-index violation is only detected after c.save has written the document and registered its update notification; in an explicit transaction nothing undoes either, so a create that reported an error leaves its document (violating the unique index) and its notification in the transaction, and both become effective when the user commits")
}
