package rules

import (
	"fmt"
	"go/ast"
	"go/constant"
	"go/token"
	"go/types"
	"sort"
	"strings"

	"defracheck/internal/eng"
)

// filterOperatorClass: every operator constant of internal/connor, with what a condition found
// beneath it says about a matching document. Index narrowing may use a condition only if every
// matching document satisfies it, i.e. only from conjunctive positions.
var filterOperatorClass = map[string]string{
	"_and": "conjunctive", "_alias": "conjunctive",
	"_or":  "non-conjunctive: a document can match through another branch",
	"_not": "non-conjunctive: the matching documents are those that do not satisfy the condition",
	"_any": "array", "_all": "array", "_none": "array",
	"_eq": "simple", "_ge": "simple", "_gt": "simple", "_in": "simple", "_le": "simple", "_lt": "simple", "_ne": "simple", "_nin": "simple",
	"_like": "simple", "_nlike": "simple", "_ilike": "simple", "_nilike": "simple",
}

// ruleIndexCondConjunctive: the index fetcher derives its key ranges from conditions found by
// filter.TraverseProperties; the traversal descends into every compound operator unless told to
// skip it, so the call must skip every non-conjunctive operator.
func ruleIndexCondConjunctive(c *eng.Ctx) {
	const rule = "INDEX-COND-CONJUNCTIVE"
	// table alignment with connor's operator constants
	pk := c.P.Pkg("internal/connor")
	if pk == nil {
		c.Unknown(rule, "anchor:internal/connor", token.NoPos, "anchor-unresolved")
		return
	}
	nops := 0
	scope := pk.Types.Scope()
	for _, name := range scope.Names() {
		k, ok := scope.Lookup(name).(*types.Const)
		if !ok || !strings.HasSuffix(name, "Op") || k.Val().Kind() != constant.String {
			continue
		}
		nops++
		v := constant.StringVal(k.Val())
		_, tabled := filterOperatorClass[v]
		c.Check(tabled, rule, "operator("+v+"):classified", k.Pos(), "operator classified as "+filterOperatorClass[v],
			"filter operator "+v+" is not classified: decide whether a condition nested in it holds for every matching document before the index fetcher may use it")
	}
	c.Floor(rule+":operators", nops, 15)
	var required []string
	for op, cl := range filterOperatorClass {
		if strings.HasPrefix(cl, "non-conjunctive") {
			required = append(required, op)
		}
	}
	sort.Strings(required)
	n := 0
	for _, fi := range c.P.FuncsIn("internal/db/fetcher") {
		if fi.Decl.Body == nil || isTestFile(c.P, fi) {
			continue
		}
		info := fi.Pkg.TypesInfo
		ord := 0
		for _, cs := range eng.Calls(info, fi.Decl.Body) {
			if cs.Name != "internal/planner/filter.TraverseProperties" {
				continue
			}
			n++
			ord++
			passed := map[string]bool{}
			opaque := false
			args := cs.Call.Args[min(2, len(cs.Call.Args)):]
			if cs.Call.Ellipsis.IsValid() && len(args) == 1 {
				// skip list held in a local: skip := []string{opNot, opOr}; TraverseProperties(…, skip...)
				opaque = true
				if o := eng.ObjOf(info, args[0]); o != nil {
					defs := 0
					var lit *ast.CompositeLit
					ast.Inspect(fi.Decl.Body, func(x ast.Node) bool {
						if as, ok := x.(*ast.AssignStmt); ok {
							for i, l := range as.Lhs {
								if eng.ObjOf(info, l) == o {
									defs++
									if len(as.Rhs) == len(as.Lhs) {
										lit, _ = ast.Unparen(as.Rhs[i]).(*ast.CompositeLit)
									}
								}
							}
						}
						return true
					})
					if defs == 1 && lit != nil {
						opaque = false
						args = lit.Elts
					}
				}
			}
			for _, a := range args {
				if s, ok := eng.ConstString(info, a); ok {
					passed[s] = true
				} else if !cs.Call.Ellipsis.IsValid() || len(args) != 1 {
					opaque = true
				}
			}
			for _, op := range required {
				construct := fmt.Sprintf("%s:TraverseProperties#%d:skips(%s)", shortFn(fi), ord, op)
				if opaque && !passed[op] {
					c.Unknown(rule, construct, cs.Call.Pos(), "the skip list is not a list of constants: cannot decide whether "+op+" branches are skipped")
					continue
				}
				c.Check(passed[op], rule, construct, cs.Call.Pos(), "conditions under "+op+" are not used to narrow the index scan",
					"the index fetcher takes its key range from conditions nested in "+op+" ("+filterOperatorClass[op]+"): documents matching the filter otherwise are never fetched — the indexed query returns fewer documents than the scan")
			}
		}
	}
	c.Floor(rule, n, 1)
	// the filter that is searched for index conditions is not the product of a branch-dropping
	// transform: filter.CopyField keeps of an _or only the branches that mention the field and
	// filter.Merge normalizes a single remaining branch into a plain condition
	for _, fi := range c.P.FuncsIn("internal/db/fetcher") {
		if fi.Decl.Body == nil || isTestFile(c.P, fi) {
			continue
		}
		info := fi.Pkg.TypesInfo
		k := 0
		ast.Inspect(fi.Decl.Body, func(m ast.Node) bool {
			as, ok := m.(*ast.AssignStmt)
			if !ok {
				return true
			}
			for i, l := range as.Lhs {
				if !isFieldNamed(info, l, "indexFilter") || len(as.Rhs) != len(as.Lhs) {
					continue
				}
				k++
				derived := ""
				ast.Inspect(as.Rhs[i], func(x ast.Node) bool {
					if call, ok := x.(*ast.CallExpr); ok {
						switch nm := eng.CalleeName(info, call); nm {
						case "internal/planner/filter.CopyField", "internal/planner/filter.Merge", "internal/planner/filter.MergeConditions", "internal/planner/filter.Normalize":
							derived = nm
						}
					}
					return true
				})
				c.Check(derived == "", rule, fmt.Sprintf("%s:indexFilter-source#%d", shortFn(fi), k), as.Pos(), "index conditions are searched in the document filter itself",
					"the filter searched for index conditions is produced by "+derived+": of an _or only the branches mentioning an indexed field survive (and a single one is normalized into a plain condition), so the index is narrowed by a condition that not every matching document satisfies")
			}
			return true
		})
	}
}

// ruleInValuesDistinct: the _in iterator makes one pass over the index per listed value; the list
// it is built with must have gone through a de-duplicating step.
func ruleInValuesDistinct(c *eng.Ctx) {
	const rule = "IN-VALUES-DISTINCT"
	n := 0
	for _, fi := range c.P.FuncsIn("internal/db/fetcher") {
		if fi.Decl.Body == nil || isTestFile(c.P, fi) {
			continue
		}
		info := fi.Pkg.TypesInfo
		ast.Inspect(fi.Decl.Body, func(m ast.Node) bool {
			cl, ok := m.(*ast.CompositeLit)
			if !ok || eng.TypeName(info.TypeOf(cl)) != "internal/db/fetcher.inIndexIterator" {
				return true
			}
			for _, el := range cl.Elts {
				kv, ok := el.(*ast.KeyValueExpr)
				if !ok {
					continue
				}
				if id, ok := kv.Key.(*ast.Ident); !ok || id.Name != "inValues" {
					continue
				}
				n++
				construct := shortFn(fi) + ":inIndexIterator.inValues:distinct"
				obj := eng.ObjOf(info, kv.Value)
				if obj == nil {
					c.Bad(rule, construct, kv.Pos(), "the value list of the _in iterator is "+eng.ExprStr(kv.Value)+", not a local that went through a de-duplicating step: a value listed twice yields its documents twice")
					continue
				}
				c.Check(dedupedBefore(info, fi.Decl.Body, obj, cl), rule, construct, kv.Pos(), "value list de-duplicated before the iterator is built",
					"the value list of the _in iterator reaches it without a de-duplicating step (slices.Compact/CompactFunc/DeleteFunc, a helper taking the list, or a guarded rebuild): `_in: [v, v]` returns every document with v twice while the scan returns it once")
			}
			return true
		})
	}
	c.Floor(rule, n, 1)
}

// dedupedBefore: some statement before `at` reassigns v from a non-sorting call that takes v
// (slices.Compact(v), dedup(v), …), or v is rebuilt by appends guarded by a condition inside a loop.
func dedupedBefore(info *types.Info, body *ast.BlockStmt, v types.Object, at ast.Node) bool {
	found := false
	mentions := func(n ast.Node, o types.Object) bool {
		f := false
		ast.Inspect(n, func(m ast.Node) bool {
			if id, ok := m.(*ast.Ident); ok && info.Uses[id] == o {
				f = true
			}
			return !f
		})
		return f
	}
	var stack []ast.Node
	ast.Inspect(body, func(m ast.Node) bool {
		if m == nil {
			stack = stack[:len(stack)-1]
			return true
		}
		stack = append(stack, m)
		as, ok := m.(*ast.AssignStmt)
		if !ok || as.Pos() >= at.Pos() || len(as.Lhs) != 1 || len(as.Rhs) != 1 || eng.ObjOf(info, as.Lhs[0]) != v {
			return true
		}
		call, ok := ast.Unparen(as.Rhs[0]).(*ast.CallExpr)
		if !ok {
			return true
		}
		name := eng.CalleeName(info, call)
		if id, ok := call.Fun.(*ast.Ident); ok && id.Name == "append" && info.Uses[id] == types.Universe.Lookup("append") {
			// guarded rebuild: append inside an if inside a loop
			inIf, inLoop := false, false
			for _, s := range stack {
				switch s.(type) {
				case *ast.IfStmt:
					inIf = true
				case *ast.RangeStmt, *ast.ForStmt:
					inLoop = true
				}
			}
			if inIf && inLoop {
				found = true
			}
			return true
		}
		if strings.HasPrefix(name, "sort.") || strings.HasPrefix(name, "slices.Sort") || name == "slices.Reverse" {
			return true
		}
		switch name {
		case "slices.Compact", "slices.CompactFunc", "slices.DeleteFunc":
			if len(call.Args) > 0 && eng.ObjOf(info, call.Args[0]) == v {
				found = true
			}
			return true
		}
		if strings.HasPrefix(name, "slices.") {
			return true
		}
		if mentions(call, v) && !strings.Contains(name, "ToArrayOfNormalValues") {
			found = true // module helper taking the list and returning the new one
		}
		return true
	})
	return found
}

// ruleUnwrapEqTime: the index matchers receive the value decoded from an index key (a DateTime comes
// back in UTC) and the filter value as written by the user (it keeps its offset). Comparing the two
// unwrapped `any` values with == compares time.Time by representation (wall clock, location pointer),
// not by instant — an `_in` on a DateTime component then finds nothing through the index while a scan
// finds the row. So in package fetcher a function that compares two Unwrap() results with ==/!= also
// compares times by instant ((time.Time).Equal), as the _eq/_ne matchers do.
func ruleUnwrapEqTime(c *eng.Ctx) {
	const rule = "UNWRAP-EQ-TIME"
	n := 0
	for _, fi := range c.P.FuncsIn("internal/db/fetcher") {
		if fi.Decl.Body == nil || isTestFile(c.P, fi) {
			continue
		}
		info := fi.Pkg.TypesInfo
		isUnwrap := func(e ast.Expr) bool {
			e = resolveLocalExpr(info, fi.Decl.Body, e)
			call, ok := ast.Unparen(e).(*ast.CallExpr)
			return ok && strings.HasSuffix(eng.CalleeName(info, call), "client.(NormalValue).Unwrap")
		}
		var cmps []*ast.BinaryExpr
		ast.Inspect(fi.Decl.Body, func(m ast.Node) bool {
			if be, ok := m.(*ast.BinaryExpr); ok && (be.Op == token.EQL || be.Op == token.NEQ) && isUnwrap(be.X) && isUnwrap(be.Y) {
				cmps = append(cmps, be)
			}
			return true
		})
		if len(cmps) == 0 {
			continue
		}
		byInstant := false
		for _, cs := range eng.Calls(info, fi.Decl.Body) {
			if cs.Name == "time.(Time).Equal" {
				byInstant = true
			}
		}
		for i, be := range cmps {
			n++
			c.Check(byInstant, rule, fmt.Sprintf("%s:unwrap==unwrap#%d:times-by-instant", shortFn(fi), i+1), be.Pos(), "times are compared by instant before the generic comparison",
				shortFn(fi)+" compares two unwrapped values with "+be.Op.String()+" and has no time.Time.Equal case: a DateTime decoded from an index key (UTC) never equals the same instant written with another offset, so the filter finds the row by scan but not through the index")
		}
	}
	c.Floor(rule, n, 1)
}
