package rules

import (
	"fmt"
	"go/ast"
	"go/token"
	"go/types"
	"strings"

	"defracheck/internal/eng"

	"golang.org/x/tools/go/cfg"
)

func init() {
	register(&Property{
		ID: "C04",
		Rules: []Rule{
			{"BLOCK-WRITERS", ruleBlockWriters},
			{"HEIGHT", ruleHeight},
			{"SYNC-BEFORE-MERGE", ruleSyncBeforeMerge},
			{"SORT-BEFORE-BUILD", ruleSortBeforeBuild},
			{"HEADS-UPDATE", ruleHeadsUpdate},
			{"HEADS-PREFIX", ruleHeadsPrefix},
			{"WALK-STOP", ruleWalkStop},
			{"PURITY", func(c *eng.Ctx) {
				rulePurity(c, "PURITY", []string{"internal/core/block.New", "internal/core/block.putBlock", "internal/core/block.(*Block).GenerateLink", "internal/core/block.(*Block).Marshal"})
			}},
			{"MERGE-CID-BOUND", ruleMergeCidBound},
			{"FIELD-ID-PREFIX-EXACT", ruleFieldIDPrefixExact},
			{"FIELD-BLOCK-ONCE", ruleFieldBlockOnce},
			{"CLOSURE-NO-TOLERANCE", ruleClosureNoTolerance},
			{"ERRFLOW", func(c *eng.Ctx) {
				ruleErrFlowCone(c, "ERRFLOW", []string{"internal/core/block.AddDelta", "internal/core/block.ProcessBlock", "net.syncDAG"},
					[]string{"internal/core/block", "internal/core/crdt", "internal/datastore", "net"}, 20)
			}},
		},
		Meta: eng.PropMeta{
			Explanation: "Decides the structural conditions of a well-formed commit DAG: (BLOCK-WRITERS) the shared block store is written only through link systems that derive the key from the encoded bytes (coreblock.putBlock, the network sync link system, the KMS key store, the versioned fetcher's private copy) — no other function of the module calls Put/PutMany/DeleteBlock/SetWriteStorage; (HEIGHT) AddDelta sets the delta's priority to exactly (max head height returned by heads.List) + 1 and passes the same heads to New as parents, and heads.List accumulates a maximum; (SYNC-BEFORE-MERGE) the merge event of a received commit is published only after syncDAG returned without error, and loadBlockLinks walks AllLinks with every failure reaching the returned error, and no exit of a link goroutine is silent — each has recorded an error or descended into its link, a cancelled context included (closure under ancestry before merge); (SORT-BEFORE-BUILD) parents and links are sorted before the block is built; (HEADS-UPDATE) updateHeads replaces a head only by the processed block's own cid, writes the new head on the leaf and new-branch paths, and every store failure is returned; (PURITY) block construction and encoding read no clock, randomness, environment or mutable package state; (ERRFLOW) storage errors are not dropped in the block/head cone. (CLOSURE-NO-TOLERANCE) every not-found test (errors.Is(err, …ErrNotFound…)) in the merge/apply cone is enumerated and classified by the producer of the error: a missing block-store block is never tolerated (only encryption-store and value/marker-key reads are). (MERGE-CID-BOUND) every merge event published by the network layer carries a cid that is bound to the synced data: the DAG was fetched by that cid, or the received block's own generated link was compared with it and a mismatch left the function. (FIELD-ID-PREFIX-EXACT) the short field id under which a field's commits and heads are filed is resolved from the entries of the requested collection only (as in C19). (FIELD-BLOCK-ONCE) a field block linked from more than one composite is applied, and becomes a head, once: on the field-block path of processBlock the apply is preceded by a check of the field's heads for the block's own cid and is unreachable when it answers 'already merged'.",
			NotDecided:  "the head/frontier relation after arbitrary out-of-order and repeated merges (which blocks are heads is decided by runtime DAG shapes); hash correctness of third-party code; byte-identity of genesis commits across nodes beyond purity",
		},
	})
}

// blockWriterTable: functions allowed to write blocks, with the reason the key matches the bytes.
var blockWriterTable = map[string]string{
	"internal/core/block.putBlock":                     "lsys.Store with GetLinkPrototype(): the link system hashes the encoded node",
	"net.makeLinkSystem":                               "link system over the block service: Store/Load hash the encoded node (reads are TrustedStorage: bitswap verified them)",
	"net.(*Peer).getHeads":                             "link system used only to Load the head blocks (write storage installed, no Store call — checked by the Store rule)",
	"internal/kms.(*ipldEncStorage).put":               "key blocks go to the separate enc store through lsys.Store with GetLinkPrototype()",
	"internal/db/fetcher.(*VersionedFetcher).seekNext": "copies a block fetched from the real block store, under its own cid, into the private transient store",
	"internal/datastore.(*bstore).Put":                 "the blockstore implementation itself",
	"internal/datastore.(*bstore).PutMany":             "the blockstore implementation itself",
	"internal/datastore.(*ipldStorage).Put":            "IPLD storage adapter (called by link systems with the computed key)",
}

func ruleBlockWriters(c *eng.Ctx) {
	const rule = "BLOCK-WRITERS"
	n := 0
	for _, fi := range c.P.Funcs() {
		sp := eng.ShortPkg(fi.Pkg.PkgPath)
		if fi.Decl.Body == nil || strings.HasPrefix(sp, "tests") || strings.Contains(sp, "mocks") {
			continue
		}
		info := fi.Pkg.TypesInfo
		ord := map[string]int{}
		for _, cs := range eng.Calls(info, fi.Decl.Body) {
			se, ok := cs.Call.Fun.(*ast.SelectorExpr)
			if !ok {
				continue
			}
			isWrite := false
			switch se.Sel.Name {
			case "Put", "PutMany", "DeleteBlock":
				rt := eng.TypeName(info.TypeOf(se.X))
				if rt == "internal/datastore.Blockstore" || rt == "internal/datastore.bstore" || rt == "internal/datastore.IPLDStorage" || rt == "internal/datastore.ipldStorage" {
					isWrite = true
				}
			case "SetWriteStorage":
				isWrite = true
			}
			if !isWrite {
				continue
			}
			n++
			k := shortFn(fi) + "→" + se.Sel.Name
			ord[k]++
			construct := fmt.Sprintf("%s#%d", k, ord[k])
			why, ok := blockWriterTable[fi.Name]
			c.Check(ok, rule, construct, cs.Call.Pos(), "tabled block writer: "+why,
				"a function outside the tabled block writers writes to a block store / installs write storage: a block can be filed under a key that is not the hash of its bytes")
		}
	}
	c.Floor(rule, n, 4)
	// every Store through a link system in the module derives the cid with the repository's prototype
	for _, fi := range c.P.Funcs() {
		sp := eng.ShortPkg(fi.Pkg.PkgPath)
		if fi.Decl.Body == nil || strings.HasPrefix(sp, "tests") || strings.Contains(sp, "mocks") {
			continue
		}
		info := fi.Pkg.TypesInfo
		k := 0
		for _, cs := range eng.Calls(info, fi.Decl.Body) {
			if !strings.HasSuffix(cs.Name, "linking.(*LinkSystem).Store") {
				continue
			}
			k++
			ok := len(cs.Call.Args) == 3 && eng.ContainsCallTo(info, cs.Call.Args[1], false, "internal/core/block.GetLinkPrototype") != nil
			_, tabled := blockWriterTable[fi.Name]
			c.Check(ok && (tabled || fi.Name == "net.syncDAG"), rule, fmt.Sprintf("%s→LinkSystem.Store#%d", shortFn(fi), k), cs.Call.Pos(),
				"block stored through a link system with GetLinkPrototype() by a tabled writer", "a block is stored with a link prototype other than coreblock.GetLinkPrototype() or by an untabled function: its key is not the repository's hash of its bytes")
		}
	}
	// positive control: the rule's matcher recognises the canonical writer
	found := false
	if fi := c.P.Func("internal/core/block.putBlock"); fi != nil {
		for _, cs := range eng.Calls(fi.Pkg.TypesInfo, fi.Decl.Body) {
			if se, ok := cs.Call.Fun.(*ast.SelectorExpr); ok && se.Sel.Name == "SetWriteStorage" {
				found = true
			}
		}
		// and it stores with the repository's link prototype
		proto := eng.ContainsCallTo(fi.Pkg.TypesInfo, fi.Decl.Body, false, "internal/core/block.GetLinkPrototype") != nil
		c.Check(proto, rule, "putBlock:link-prototype", fi.Decl.Pos(), "putBlock stores with GetLinkPrototype()", "putBlock no longer derives the cid with GetLinkPrototype(): nodes would disagree on block identifiers")
	}
	c.Check(found, rule, "positive-control:putBlock", token.NoPos, "matcher recognises the canonical writer", "the writer matcher no longer recognises coreblock.putBlock (rule would pass vacuously)")
}

func ruleHeight(c *eng.Ctx) {
	const rule = "HEIGHT"
	if fi := c.Anchor(rule, "internal/core/block.AddDelta"); fi != nil {
		info := fi.Pkg.TypesInfo
		// heads, height, err := headset.List(ctx)
		var heads, height types.Object
		ast.Inspect(fi.Decl.Body, func(m ast.Node) bool {
			as, ok := m.(*ast.AssignStmt)
			if ok && len(as.Lhs) == 3 && len(as.Rhs) == 1 {
				if call, ok := as.Rhs[0].(*ast.CallExpr); ok && eng.CalleeName(info, call) == "internal/core/block.(*heads).List" {
					heads, height = eng.ObjOf(info, as.Lhs[0]), eng.ObjOf(info, as.Lhs[1])
				}
			}
			return true
		})
		if heads == nil || height == nil {
			c.Unknown(rule, "AddDelta:heads.List", fi.Decl.Pos(), "anchor-unresolved: `heads, height, err := headset.List(ctx)`")
		} else {
			// height is advanced by exactly one, exactly once, before SetPriority(height)
			incs := 0
			badInc := ""
			ast.Inspect(fi.Decl.Body, func(m ast.Node) bool {
				switch s := m.(type) {
				case *ast.IncDecStmt:
					if eng.ObjOf(info, s.X) == height {
						if s.Tok == token.INC {
							incs++
						} else {
							badInc = "decrement"
						}
					}
				case *ast.AssignStmt:
					if len(s.Lhs) == 1 && eng.ObjOf(info, s.Lhs[0]) == height && len(s.Rhs) == 1 {
						if _, isCall := s.Rhs[0].(*ast.CallExpr); isCall && len(s.Lhs) == 1 {
							return true
						}
						switch s.Tok {
						case token.ADD_ASSIGN:
							if k, ok := eng.IntConst(info, s.Rhs[0]); ok && k == 1 {
								incs++
							} else {
								badInc = "+= " + eng.ExprStr(s.Rhs[0])
							}
						case token.ASSIGN:
							be, ok := ast.Unparen(s.Rhs[0]).(*ast.BinaryExpr)
							if ok && be.Op == token.ADD {
								x, y := be.X, be.Y
								if eng.ObjOf(info, y) == height {
									x, y = y, x
								}
								if k, okk := eng.IntConst(info, y); eng.ObjOf(info, x) == height && okk && k == 1 {
									incs++
								} else {
									badInc = "= " + eng.ExprStr(s.Rhs[0])
								}
							} else {
								badInc = "= " + eng.ExprStr(s.Rhs[0])
							}
						}
					}
				}
				return true
			})
			c.Check(incs == 1 && badInc == "", rule, "AddDelta:height=max+1", fi.Decl.Pos(), "height advanced by exactly one over the maximum head height",
				fmt.Sprintf("the new commit's height is not (max head height)+1 exactly once (increments by one: %d, other updates: %q)", incs, badInc))
			flow := eng.NewFlow(info, fi.Decl.Body)
			for _, cs := range eng.Calls(info, fi.Decl.Body) {
				switch {
				case strings.HasSuffix(cs.Name, ".SetPriority"):
					ok := len(cs.Call.Args) == 1 && eng.ObjOf(info, cs.Call.Args[0]) == height
					c.Check(ok, rule, "AddDelta:SetPriority(height)", cs.Call.Pos(), "priority is the computed height", "SetPriority receives "+eng.ExprStr(cs.Call.Args[0])+" instead of the computed height")
					// and the increment happens before it
					pt, _ := flow.PointOf(cs.Call)
					early := flow.ReachesWithout(pt, func(n ast.Node) bool {
						switch s := n.(type) {
						case *ast.IncDecStmt:
							return eng.ObjOf(info, s.X) == height
						case *ast.AssignStmt:
							return len(s.Lhs) == 1 && eng.ObjOf(info, s.Lhs[0]) == height
						}
						return false
					}, nil)
					c.Check(!early, rule, "AddDelta:increment-before-SetPriority", cs.Call.Pos(), "increment precedes SetPriority", "SetPriority is reachable before the height was advanced")
				case cs.Name == "internal/core/block.New":
					ok := false
					for _, a := range cs.Call.Args {
						if eng.ObjOf(info, a) == heads {
							ok = true
						}
					}
					c.Check(ok, rule, "AddDelta:New(parents=heads)", cs.Call.Pos(), "the parents are the heads the height was computed from", "block.New does not receive the head list returned by heads.List: height and parents disagree")
				}
			}
		}
	}
	if fi := c.Anchor(rule, "internal/core/block.(*heads).List"); fi != nil {
		info := fi.Pkg.TypesInfo
		// the returned max-height variable: second result of the success return
		var maxV types.Object
		ast.Inspect(fi.Decl.Body, func(m ast.Node) bool {
			if r, ok := m.(*ast.ReturnStmt); ok && len(r.Results) == 3 {
				if o := eng.ObjOf(info, r.Results[1]); o != nil {
					maxV = o
				}
			}
			return true
		})
		if maxV == nil {
			c.Unknown(rule, "heads.List:max", fi.Decl.Pos(), "anchor-unresolved: returned height variable")
			return
		}
		n := 0
		ast.Inspect(fi.Decl.Body, func(m ast.Node) bool {
			as, ok := m.(*ast.AssignStmt)
			if !ok || len(as.Lhs) != 1 || eng.ObjOf(info, as.Lhs[0]) != maxV || as.Tok == token.DEFINE {
				return true
			}
			n++
			rhs := ast.Unparen(as.Rhs[0])
			good := false
			// max(maxV, x)
			if call, ok := rhs.(*ast.CallExpr); ok {
				if id, ok := call.Fun.(*ast.Ident); ok && id.Name == "max" {
					for _, a := range call.Args {
						if eng.ObjOf(info, a) == maxV {
							good = true
						}
					}
				}
			}
			// inside `if x > maxV` / `if maxV < x`
			if x := eng.ObjOf(info, rhs); x != nil {
				ast.Inspect(fi.Decl.Body, func(y ast.Node) bool {
					is, ok := y.(*ast.IfStmt)
					if !ok || !(is.Body.Pos() <= as.Pos() && as.End() <= is.Body.End()) {
						return true
					}
					if be, ok := ast.Unparen(is.Cond).(*ast.BinaryExpr); ok {
						l, r := eng.ObjOf(info, be.X), eng.ObjOf(info, be.Y)
						if (be.Op == token.GTR || be.Op == token.GEQ) && l == x && r == maxV {
							good = true
						}
						if (be.Op == token.LSS || be.Op == token.LEQ) && l == maxV && r == x {
							good = true
						}
					}
					return true
				})
			}
			c.Check(good, rule, fmt.Sprintf("heads.List:max-accumulation#%d", n), as.Pos(), "the returned height is a running maximum",
				"heads.List overwrites the returned height unconditionally: with heads at different heights the result is the height of whichever head iterates last, so a new commit can be no higher than one of its parents")
			return true
		})
		c.Check(n > 0, rule, "heads.List:max-assigned", fi.Decl.Pos(), "height accumulated", "the returned height is never assigned from the stored head heights")
	}
}

func ruleSyncBeforeMerge(c *eng.Ctx) {
	const rule = "SYNC-BEFORE-MERGE"
	mergeName := lookupObj(c.P, "event", "MergeName")
	n := 0
	for _, fi := range c.P.FuncsIn("net") {
		if fi.Decl.Body == nil {
			continue
		}
		info := fi.Pkg.TypesInfo
		var flow *eng.FlowGraph
		ord := 0
		for _, cs := range eng.Calls(info, fi.Decl.Body) {
			if !strings.HasSuffix(cs.Name, ".Publish") || !strings.HasPrefix(cs.Name, "event.") || !publishesUpdate(info, fi.Decl, cs.Call, mergeName) {
				continue
			}
			n++
			ord++
			if flow == nil {
				flow = eng.NewFlow(info, fi.Decl.Body)
			}
			if cs.Lit != nil {
				c.Unknown(rule, fmt.Sprintf("%s:publish-merge#%d", shortFn(fi), ord), cs.Call.Pos(), "merge event published from a closure: ordering with the DAG sync not decidable locally")
				continue
			}
			// every path to the publish passes a sync call on its success edge
			pt, _ := flow.PointOf(cs.Call)
			var syncErrs []types.Object
			ast.Inspect(fi.Decl.Body, func(m ast.Node) bool {
				as, ok := m.(*ast.AssignStmt)
				if ok && len(as.Rhs) == 1 {
					if call, ok := as.Rhs[0].(*ast.CallExpr); ok {
						switch eng.CalleeName(info, call) {
						case "net.syncDAG", "net.(*server).syncDocumentDAG", "net.(*server).syncDocumentAndMerge":
							if o := eng.ObjOf(info, as.Lhs[len(as.Lhs)-1]); o != nil {
								syncErrs = append(syncErrs, o)
							}
						}
					}
				}
				return true
			})
			unsynced := flow.ReachesWithout(pt, func(nd ast.Node) bool {
				return eng.ContainsCallTo(info, nd, false, "net.syncDAG", "net.(*server).syncDocumentDAG") != nil
			}, nil)
			// the failure edge of the sync must not reach the publish
			afterFail := false
			for _, es := range eng.ErrFlow(info, fi.Decl.Body, nil) {
				if es.Callee == "net.syncDAG" || es.Callee == "net.(*server).syncDocumentDAG" {
					if es.Finding != nil {
						afterFail = true
					}
				}
			}
			c.Check(!unsynced && !afterFail, rule, fmt.Sprintf("%s:publish-merge#%d", shortFn(fi), ord), cs.Call.Pos(),
				"the merge event follows a successful DAG sync", "the merge event is reachable without a completed DAG sync (or after a failed one): the merge would walk links whose blocks are not stored — the graph is not closed under ancestry")
			_ = syncErrs
		}
	}
	c.Floor(rule, n, 2)
	// loadBlockLinks: ranges over AllLinks and every failure reaches asyncErr / the return
	if fi := c.Anchor(rule, "net.loadBlockLinks"); fi != nil {
		info := fi.Pkg.TypesInfo
		all := false
		ast.Inspect(fi.Decl.Body, func(m ast.Node) bool {
			if rs, ok := m.(*ast.RangeStmt); ok {
				if call, ok := ast.Unparen(rs.X).(*ast.CallExpr); ok && eng.CalleeName(info, call) == "internal/core/block.(*Block).AllLinks" {
					all = true
				}
			}
			return true
		})
		c.Check(all, rule, "loadBlockLinks:range-AllLinks", fi.Decl.Pos(), "every parent and field link is fetched", "loadBlockLinks does not range over block.AllLinks(): some ancestors are never fetched before the merge")
		for _, r := range errSitesOf(fi) {
			if r.Site.Finding != nil && !(r.Site.Finding.InDefer) {
				c.Bad(rule, "loadBlockLinks:"+r.Construct, r.Site.Call.Pos(), "a link load failure is "+r.Site.Finding.Kind+": the sync reports success with an incomplete DAG")
			} else {
				c.OK(rule, "loadBlockLinks:"+r.Construct, r.Site.Call.Pos(), "failure reaches the returned error")
			}
		}
		// the function returns the collected async error
		retOK := false
		ast.Inspect(fi.Decl.Body, func(m ast.Node) bool {
			if _, ok := m.(*ast.FuncLit); ok {
				return false
			}
			if r, ok := m.(*ast.ReturnStmt); ok && len(r.Results) == 1 {
				if o := eng.ObjOf(info, r.Results[0]); o != nil && o.Name() == "asyncErr" {
					retOK = true
				}
			}
			return true
		})
		c.Check(retOK, rule, "loadBlockLinks:returns-async-error", fi.Decl.Pos(), "the collected goroutine error is returned", "loadBlockLinks does not return the error collected from its goroutines")
		// no silent exit of a link goroutine: every exit of the goroutine that loads one link has either
		// recorded an error into the returned variable (directly or through a local closure that assigns
		// it) or has passed the recursive loadBlockLinks call for that link. An exit that does neither
		// (e.g. "context already cancelled: return") makes the sync report success although that link and
		// everything below it was neither fetched nor verified.
		var retVar types.Object
		ast.Inspect(fi.Decl.Body, func(m ast.Node) bool {
			if _, ok := m.(*ast.FuncLit); ok {
				return false
			}
			if r, ok := m.(*ast.ReturnStmt); ok && len(r.Results) == 1 {
				if o := eng.ObjOf(info, r.Results[0]); o != nil {
					if _, isVar := o.(*types.Var); isVar {
						retVar = o
					}
				}
			}
			return true
		})
		assigns := func(nd ast.Node, o types.Object) bool {
			found := false
			ast.Inspect(nd, func(x ast.Node) bool {
				if as, ok := x.(*ast.AssignStmt); ok {
					for _, l := range as.Lhs {
						if eng.ObjOf(info, l) == o {
							found = true
						}
					}
				}
				return !found
			})
			return found
		}
		// local closures that record: setAsyncErr := func(err error) { asyncErr = err; … }
		recorders := map[types.Object]bool{}
		mentionsRecorder := func(nd ast.Node) bool {
			found := false
			ast.Inspect(nd, func(x ast.Node) bool {
				if id, ok := x.(*ast.Ident); ok && recorders[info.Uses[id]] {
					found = true
				}
				return !found
			})
			return found
		}
		if retVar != nil {
			// to a fixed point: a closure that calls a recording closure records as well
			for changed := true; changed; {
				changed = false
				ast.Inspect(fi.Decl.Body, func(m ast.Node) bool {
					if as, ok := m.(*ast.AssignStmt); ok && len(as.Lhs) == 1 && len(as.Rhs) == 1 {
						if lit, ok := ast.Unparen(as.Rhs[0]).(*ast.FuncLit); ok && (assigns(lit.Body, retVar) || mentionsRecorder(lit.Body)) {
							if o := eng.ObjOf(info, as.Lhs[0]); o != nil && !recorders[o] {
								recorders[o] = true
								changed = true
							}
						}
					}
					return true
				})
			}
		}
		records := func(nd ast.Node) bool {
			if retVar == nil {
				return false
			}
			if assigns(nd, retVar) {
				return true
			}
			found := false
			ast.Inspect(nd, func(x ast.Node) bool {
				if id, ok := x.(*ast.Ident); ok && recorders[info.Uses[id]] {
					found = true
				}
				return !found
			})
			return found
		}
		ng := 0
		ast.Inspect(fi.Decl.Body, func(m ast.Node) bool {
			gs, ok := m.(*ast.GoStmt)
			if !ok {
				return true
			}
			lit, ok := ast.Unparen(gs.Call.Fun).(*ast.FuncLit)
			if !ok {
				return true
			}
			ng++
			flow := eng.NewFlow(info, lit.Body)
			where := token.NoPos
			silent := flow.Forward(flow.Entry(), true, eng.Walk{
				Visit: func(_ eng.Point, nd ast.Node) eng.Action {
					if _, isDefer := nd.(*ast.DeferStmt); isDefer {
						return eng.Continue
					}
					if records(nd) || eng.ContainsCallTo(info, nd, false, "net.loadBlockLinks") != nil {
						return eng.Cut
					}
					return eng.Continue
				},
				OnExit: func(ret *ast.ReturnStmt, b *cfg.Block) eng.Action {
					if ret != nil {
						where = ret.Pos()
					} else {
						where = lit.Body.End()
					}
					return eng.Hit
				},
			})
			c.Check(!silent, rule, fmt.Sprintf("loadBlockLinks:link-goroutine#%d:no-silent-exit", ng), gs.Pos(), "every exit of the link goroutine has recorded an error or descended into the link",
				"the link goroutine can return at "+c.P.Rel(where)+" without recording an error and without loading its link: loadBlockLinks then reports success for a DAG that was neither fetched nor verified below this block, and the merge event is published for it")
			return true
		})
		c.Check(ng > 0 && retVar != nil, rule, "loadBlockLinks:link-goroutines-found", fi.Decl.Pos(), "link loading goroutine and returned error variable identified", "anchor-unresolved: no link goroutine / returned error variable in loadBlockLinks")
	}
}

func ruleHeadsUpdate(c *eng.Ctx) {
	const rule = "HEADS-UPDATE"
	fi := c.Anchor(rule, "internal/core/block.updateHeads")
	if fi == nil {
		return
	}
	info := fi.Pkg.TypesInfo
	ps := paramObjs(info, fi.Decl)
	var blockLink types.Object
	for _, p := range ps {
		if strings.HasSuffix(eng.TypeName(p.Type()), "cid.Link") {
			blockLink = p
		}
	}
	n := 0
	for _, cs := range eng.Calls(info, fi.Decl.Body) {
		switch cs.Name {
		case "internal/core/block.(*heads).Replace":
			n++
			ok := len(cs.Call.Args) == 4 && blockLink != nil && mentionsObj(info, cs.Call.Args[2], blockLink)
			c.Check(ok, rule, "updateHeads:Replace(new=this-block)", cs.Call.Pos(), "a parent head is replaced by the processed block", "Replace installs "+eng.ExprStr(cs.Call.Args[2])+" instead of the processed block's cid as the new head")
		case "internal/core/block.(*heads).Write":
			n++
			ok := len(cs.Call.Args) == 3 && blockLink != nil && mentionsObj(info, cs.Call.Args[1], blockLink)
			c.Check(ok, rule, fmt.Sprintf("updateHeads:Write(this-block)#%d", n), cs.Call.Pos(), "the processed block becomes a head", "Write adds "+eng.ExprStr(cs.Call.Args[1])+" instead of the processed block as head")
		}
	}
	c.Floor(rule, n, 3)
	// every link of the block is examined: a commit that joins two branches has two parents that can
	// both be current heads (or one a head, one a known non-head), so the loop over AllLinks neither
	// breaks nor returns success before its last element
	var loop *ast.RangeStmt
	ast.Inspect(fi.Decl.Body, func(m ast.Node) bool {
		if rs, ok := m.(*ast.RangeStmt); ok && loop == nil {
			if call, ok := ast.Unparen(rs.X).(*ast.CallExpr); ok && strings.HasSuffix(eng.CalleeName(info, call), "(*Block).AllLinks") {
				loop = rs
			}
		}
		return true
	})
	if loop == nil {
		c.Unknown(rule, "updateHeads:every-link-examined", fi.Decl.Pos(), "anchor-unresolved: range over block.AllLinks()")
	} else {
		var early ast.Node
		var walk func(nd ast.Node, breakable bool)
		walk = func(nd ast.Node, breakable bool) {
			ast.Inspect(nd, func(m ast.Node) bool {
				switch x := m.(type) {
				case *ast.FuncLit:
					return false
				case *ast.ForStmt:
					walk(x.Body, false)
					return false
				case *ast.RangeStmt:
					if x != loop {
						walk(x.Body, false)
						return false
					}
				case *ast.SwitchStmt:
					walk(x.Body, false)
					return false
				case *ast.TypeSwitchStmt:
					walk(x.Body, false)
					return false
				case *ast.SelectStmt:
					walk(x.Body, false)
					return false
				case *ast.BranchStmt:
					if x.Tok == token.BREAK && (breakable || x.Label != nil) {
						early = x
					}
					if x.Tok == token.GOTO {
						early = x
					}
				case *ast.ReturnStmt:
					// leaving with an error is fine; leaving with success skips the remaining links
					if len(x.Results) == 1 {
						if tv, ok := info.Types[x.Results[0]]; ok && tv.IsNil() {
							early = x
						}
					}
				}
				return true
			})
		}
		walk(loop.Body, true)
		pos := loop.Pos()
		if early != nil {
			pos = early.Pos()
		}
		c.Check(early == nil, rule, "updateHeads:every-link-examined", pos, "the loop over the block's links runs to its end",
			"the loop over the block's links is left early: for a commit with two parents the second one is never examined, so a parent that is still a current head stays in the head set next to its child")
	}
	// Replace = delete old + write new, both errors returned
	if rp := c.Anchor(rule, "internal/core/block.(*heads).Replace"); rp != nil {
		ri := rp.Pkg.TypesInfo
		del := eng.ContainsCallTo(ri, rp.Decl.Body, false, "github.com/sourcenetwork/corekv.(Writer).Delete") != nil
		wr := eng.ContainsCallTo(ri, rp.Decl.Body, false, "internal/core/block.(*heads).Write") != nil
		c.Check(del && wr, rule, "heads.Replace:delete-old+write-new", rp.Decl.Pos(), "old head removed and new head written", "heads.Replace no longer deletes the old head and writes the new one")
	}
}

// ---------------------------------------------------------------------------------------------
// PURITY (shared with C13)

var impureCalls = map[string]bool{
	"time.Now": true, "time.Since": true, "time.Until": true,
	"os.Getenv": true, "os.LookupEnv": true, "os.Hostname": true, "os.Getpid": true, "os.Environ": true,
	"crypto/rand.Read": true, "crypto/rand.Int": true, "crypto/rand.Prime": true,
	"github.com/google/uuid.New": true, "github.com/google/uuid.NewRandom": true, "github.com/google/uuid.NewString": true,
	"github.com/gofrs/uuid/v5.NewV4": true, "github.com/gofrs/uuid/v5.NewV1": true, "github.com/gofrs/uuid/v5.NewV6": true, "github.com/gofrs/uuid/v5.NewV7": true,
	"runtime.NumCPU": true, "runtime.NumGoroutine": true,
}

// purityExceptions: impure reads inside a content-id cone that are intended.
var purityExceptions = map[string]string{}

func rulePurity(c *eng.Ctx, rule string, roots []string) {
	var rootFns []*eng.FuncInfo
	for _, r := range roots {
		if fi := c.Anchor(rule, r); fi != nil {
			rootFns = append(rootFns, fi)
		}
	}
	decls := coneDecls(c.P, rootFns, []string{"client", "client/...", "internal/...", "crypto", "errors"})
	n := 0
	for _, fi := range decls {
		info := fi.Pkg.TypesInfo
		if fi.Decl.Body == nil {
			continue
		}
		n++
		bad := ""
		var pos token.Pos
		for _, cs := range eng.Calls(info, fi.Decl.Body) {
			if impureCalls[cs.Name] || strings.HasPrefix(cs.Name, "math/rand.") || strings.HasPrefix(cs.Name, "math/rand/v2.") {
				bad, pos = cs.Name, cs.Call.Pos()
			}
		}
		// writes to package-level variables (mutable global state feeding an id)
		ast.Inspect(fi.Decl.Body, func(m ast.Node) bool {
			as, ok := m.(*ast.AssignStmt)
			if !ok {
				return true
			}
			for _, l := range as.Lhs {
				if id, ok := ast.Unparen(l).(*ast.Ident); ok {
					if v, ok := info.Uses[id].(*types.Var); ok && v.Parent() == v.Pkg().Scope() {
						bad, pos = "write to package variable "+v.Name(), as.Pos()
					}
				}
			}
			return true
		})
		construct := shortFn(fi) + ":pure"
		if why, ok := purityExceptions[construct]; ok {
			c.OK(rule, construct, fi.Decl.Pos(), "tabled exception: "+why)
			continue
		}
		if bad == "" {
			c.OK(rule, construct, fi.Decl.Pos(), "no clock/randomness/environment/global-state read")
		} else {
			c.Bad(rule, construct, pos, "the content-identifier cone reads "+bad+": identifiers (block cids, document ids, schema ids) differ between nodes or runs for the same content")
		}
	}
	c.Floor(rule, n, len(rootFns))
}

// ruleHeadsPrefix: the head set of one CRDT is listed with a prefix that ends in the key separator,
// otherwise the heads of field/collection "2" include those of "20", "21", ...
func ruleHeadsPrefix(c *eng.Ctx) {
	const rule = "HEADS-PREFIX"
	fi := c.Anchor(rule, "internal/core/block.(*heads).List")
	if fi == nil {
		return
	}
	info := fi.Pkg.TypesInfo
	n := 0
	ast.Inspect(fi.Decl.Body, func(m ast.Node) bool {
		kv, ok := m.(*ast.KeyValueExpr)
		if !ok {
			return true
		}
		if k, ok := kv.Key.(*ast.Ident); !ok || k.Name != "Prefix" {
			return true
		}
		n++
		good := false
		v := ast.Unparen(kv.Value)
		// follow a local
		if o := eng.ObjOf(info, v); o != nil {
			ast.Inspect(fi.Decl.Body, func(x ast.Node) bool {
				if as, ok := x.(*ast.AssignStmt); ok && len(as.Lhs) == 1 && len(as.Rhs) == 1 && eng.ObjOf(info, as.Lhs[0]) == o {
					v = ast.Unparen(as.Rhs[0])
				}
				return true
			})
		}
		if call, ok := v.(*ast.CallExpr); ok {
			if id, ok := call.Fun.(*ast.Ident); ok && id.Name == "append" && len(call.Args) >= 2 {
				last := call.Args[len(call.Args)-1]
				if tv, ok := info.Types[last]; ok && tv.Value != nil && (tv.Value.ExactString() == "47" || tv.Value.ExactString() == `"/"`) {
					good = true
				}
			}
			// []byte(x.ToString() + "/")
			if len(call.Args) == 1 {
				if be, ok := ast.Unparen(call.Args[0]).(*ast.BinaryExpr); ok && be.Op == token.ADD {
					if tv, ok := info.Types[be.Y]; ok && tv.Value != nil && tv.Value.ExactString() == `"/"` {
						good = true
					}
				}
			}
		}
		c.Check(good, rule, "heads.List:prefix-ends-with-separator", kv.Pos(), "the namespace prefix is terminated by the key separator",
			"heads.List scans with the bare namespace key ("+eng.ExprStr(kv.Value)+") as prefix: the heads of field (or collection) N also include those of every field whose id starts with N, so a commit names commits of unrelated fields as parents and takes its height from them")
		return true
	})
	c.Floor(rule, n, 1)
}
