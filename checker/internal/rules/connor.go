package rules

import (
	"fmt"
	"go/ast"
	"go/token"
	"go/types"

	"defracheck/internal/eng"
)

// ruleConnorTable: the ordering operators of the filter language (_gt, _ge, _lt, _le) compare the
// document's value with the condition for every pair of numeric representations. Every comparison
// returned by connor.gt/ge/lt/le must be `data OP condition` with the operator's own OP (after
// normalising operand order), and a mixed int/float pair may only be widened to float64 — never
// truncated to an integer.
func ruleConnorTable(c *eng.Ctx) {
	const rule = "CONNOR-TABLE"
	want := map[string]token.Token{"gt": token.GTR, "ge": token.GEQ, "lt": token.LSS, "le": token.LEQ}
	total := 0
	for name, op := range want {
		fi := c.Anchor(rule, "internal/connor."+name)
		if fi == nil {
			continue
		}
		info := fi.Pkg.TypesInfo
		ps := paramObjs(info, fi.Decl)
		if len(ps) != 2 {
			c.Unknown(rule, name+":params", fi.Decl.Pos(), "expected (condition, data)")
			continue
		}
		cond, data := ps[0], ps[1]
		// origin of type-switch bound variables
		origin := map[types.Object]types.Object{cond: cond, data: data}
		ast.Inspect(fi.Decl.Body, func(m ast.Node) bool {
			ts, ok := m.(*ast.TypeSwitchStmt)
			if !ok {
				return true
			}
			var src types.Object
			ast.Inspect(ts.Assign, func(x ast.Node) bool {
				if id, ok := x.(*ast.Ident); ok {
					if o := info.Uses[id]; o != nil {
						if r, ok := origin[o]; ok {
							src = r
						}
					}
				}
				return true
			})
			if src == nil {
				return true
			}
			for _, cl := range ts.Body.List {
				if o := info.Implicits[cl]; o != nil {
					origin[o] = src
				}
			}
			return true
		})
		strip := func(e ast.Expr) (ast.Expr, *ast.CallExpr) { // inner operand, conversion (if any)
			e = ast.Unparen(e)
			if call, ok := e.(*ast.CallExpr); ok && len(call.Args) == 1 {
				if tv, ok := info.Types[call.Fun]; ok && tv.IsType() {
					return ast.Unparen(call.Args[0]), call
				}
			}
			return e, nil
		}
		n := 0
		ast.Inspect(fi.Decl.Body, func(m ast.Node) bool {
			r, ok := m.(*ast.ReturnStmt)
			if !ok || len(r.Results) != 2 {
				return true
			}
			be, ok := ast.Unparen(r.Results[0]).(*ast.BinaryExpr)
			if !ok {
				return true
			}
			switch be.Op {
			case token.GTR, token.GEQ, token.LSS, token.LEQ, token.EQL, token.NEQ:
			default:
				return true
			}
			lx, lconv := strip(be.X)
			rx, rconv := strip(be.Y)
			lo, ro := origin[eng.ObjOf(info, lx)], origin[eng.ObjOf(info, rx)]
			if lo == nil || ro == nil {
				return true
			}
			n++
			lt, rt := info.TypeOf(lx).String(), info.TypeOf(rx).String()
			construct := fmt.Sprintf("%s:compare(%s:%s,%s:%s)", name, lo.Name(), lt, ro.Name(), rt)
			got := be.Op
			if lo == cond && ro == data {
				got = eng.FlipOp(got)
			} else if !(lo == data && ro == cond) {
				c.Bad(rule, construct, be.Pos(), "the comparison does not relate the document's value to the condition")
				return true
			}
			c.Check(got == op, rule, construct+":operator", be.Pos(), "data "+op.String()+" condition",
				fmt.Sprintf("_%s evaluates `data %s condition` for this pair of representations (required `data %s condition`): the filter accepts or rejects the boundary value differently from every other representation of the same numbers", name, got, op))
			for _, cv := range []*ast.CallExpr{lconv, rconv} {
				if cv == nil {
					continue
				}
				to, _ := info.TypeOf(cv).Underlying().(*types.Basic)
				from, _ := info.TypeOf(cv.Args[0]).Underlying().(*types.Basic)
				narrowing := to != nil && from != nil && to.Info()&types.IsInteger != 0 && from.Info()&types.IsFloat != 0
				c.Check(!narrowing, rule, construct+":widening-only", cv.Pos(), "mixed operands are widened to float64",
					"a float operand is truncated to an integer before the comparison ("+eng.ExprStr(cv)+"): 3 _lt 3.5 becomes 3 < 3")
			}
			return true
		})
		total += n
		c.Floor(rule+":"+name, n, 4)
	}
	c.Floor(rule, total, 16)
}
