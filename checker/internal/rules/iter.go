package rules

import (
	"fmt"
	"go/ast"
	"go/token"
	"go/types"
	"golang.org/x/tools/go/cfg"
	"strings"

	"defracheck/internal/eng"
)

func isIteratorType(t types.Type) bool {
	return eng.TypeName(t) == "github.com/sourcenetwork/corekv.Iterator"
}

// iterCloseExceptions: acquisitions whose release is not visible as a local path property.
var iterCloseExceptions = map[string]string{}

// ruleIterClose: every locally held corekv.Iterator is closed, deferred-closed or handed over on
// every exit that follows a successful acquisition.
func ruleIterClose(c *eng.Ctx, rule string, pkgs []string, floor int) {
	n := 0
	for _, fi := range c.P.Funcs() {
		if fi.Decl.Body == nil || !pkgMatch(eng.ShortPkg(fi.Pkg.PkgPath), pkgs) {
			continue
		}
		info := fi.Pkg.TypesInfo
		bodies := []*ast.BlockStmt{fi.Decl.Body}
		ast.Inspect(fi.Decl.Body, func(m ast.Node) bool {
			if lit, ok := m.(*ast.FuncLit); ok {
				bodies = append(bodies, lit.Body)
			}
			return true
		})
		ord := 0
		for _, body := range bodies {
			var flow *eng.FlowGraph
			inspectNoLits(body, func(m ast.Node) {
				as, ok := m.(*ast.AssignStmt)
				if !ok || len(as.Rhs) != 1 {
					return
				}
				call, ok := as.Rhs[0].(*ast.CallExpr)
				if !ok {
					return
				}
				t := info.TypeOf(call)
				tup, ok := t.(*types.Tuple)
				if !ok || tup.Len() != 2 || !isIteratorType(tup.At(0).Type()) || !eng.IsErrorType(tup.At(1).Type()) {
					return
				}
				it := eng.ObjOf(info, as.Lhs[0])
				if it == nil {
					return // stored straight into a field / index: owned by that structure
				}
				if v, ok := it.(*types.Var); !ok || v.IsField() {
					return
				}
				errObj := eng.ObjOf(info, as.Lhs[1])
				n++
				ord++
				construct := fmt.Sprintf("%s:iterator#%d(%s)", shortFn(fi), ord, it.Name())
				if why, ok := iterCloseExceptions[construct]; ok {
					c.OK(rule, construct, call.Pos(), "tabled exception: "+why)
					return
				}
				if flow == nil {
					flow = eng.NewFlow(info, body)
				}
				acq, ok := flow.PointOf(as)
				if !ok {
					return
				}
				releases := func(nd ast.Node) bool {
					rel := false
					ast.Inspect(nd, func(x ast.Node) bool {
						switch y := x.(type) {
						case *ast.CallExpr:
							if se, ok := y.Fun.(*ast.SelectorExpr); ok && se.Sel.Name == "Close" && eng.ObjOf(info, se.X) == it {
								rel = true
							}
							for _, a := range y.Args {
								if eng.ObjOf(info, a) == it {
									rel = true // handed to another function
								}
							}
						case *ast.FuncLit:
							if mentionsObj(info, y, it) {
								rel = true // captured: the closure owns it
							}
						case *ast.ReturnStmt:
							for _, r := range y.Results {
								if eng.ObjOf(info, r) == it {
									rel = true
								}
							}
						case *ast.AssignStmt:
							for _, r := range y.Rhs {
								if eng.ObjOf(info, r) == it && y != as {
									rel = true // stored / aliased
								}
							}
						case *ast.CompositeLit:
							if mentionsObj(info, y, it) {
								rel = true
							}
						case *ast.KeyValueExpr:
							if eng.ObjOf(info, y.Value) == it {
								rel = true
							}
						}
						return !rel
					})
					return rel
				}
				edge := func(cond ast.Expr, taken bool) bool {
					if errObj == nil {
						return true
					}
					t := eng.EvalBool(info, cond, func(e ast.Expr) eng.Tri {
						if is, nonNil := eng.ErrNilTest(info, e, errObj); is {
							return eng.TriOf(!nonNil)
						}
						return eng.Unknown
					})
					switch t {
					case eng.True:
						return taken
					case eng.False:
						return !taken
					}
					return true
				}
				// err is usually re-assigned later; the acquisition's nil assumption only holds until then.
				reassigned := false
				leak := false
				var where token.Pos
				flow.Forward(acq, false, eng.Walk{
					Visit: func(p eng.Point, nd ast.Node) eng.Action {
						if releases(nd) {
							return eng.Cut
						}
						if a2, ok := nd.(*ast.AssignStmt); ok && errObj != nil {
							for _, l := range a2.Lhs {
								if eng.ObjOf(info, l) == errObj {
									reassigned = true
								}
							}
						}
						return eng.Continue
					},
					Edge: func(cond ast.Expr, taken bool) bool {
						if reassigned {
							return true
						}
						return edge(cond, taken)
					},
					OnExit: func(ret *ast.ReturnStmt, b *cfg.Block) eng.Action {
						leak = true
						if ret != nil {
							where = ret.Pos()
						} else {
							where = body.End()
						}
						return eng.Hit
					},
				})
				c.Check(!leak, rule, construct, call.Pos(), "closed, deferred or handed over on every exit",
					"exit at "+c.P.Rel(where)+" leaves the iterator open: with badger the transaction's Discard then panics ('Unclosed iterator at time of Txn.Discard') instead of reporting the original error")
			})
		}
	}
	c.Floor(rule, n, floor)
}

func inspectNoLits(body *ast.BlockStmt, f func(ast.Node)) {
	ast.Inspect(body, func(m ast.Node) bool {
		if m == nil {
			return true
		}
		if _, ok := m.(*ast.FuncLit); ok {
			return false
		}
		f(m)
		return true
	})
}

// ruleUseAfterErr: a pointer/interface co-result of a fallible call is not dereferenced on the
// call's failure edge.
func ruleUseAfterErr(c *eng.Ctx, rule string, pkgs []string) {
	n := 0
	for _, fi := range c.P.Funcs() {
		if fi.Decl.Body == nil || !pkgMatch(eng.ShortPkg(fi.Pkg.PkgPath), pkgs) {
			continue
		}
		info := fi.Pkg.TypesInfo
		bodies := []*ast.BlockStmt{fi.Decl.Body}
		ast.Inspect(fi.Decl.Body, func(m ast.Node) bool {
			if lit, ok := m.(*ast.FuncLit); ok {
				bodies = append(bodies, lit.Body)
			}
			return true
		})
		ord := map[string]int{}
		for _, body := range bodies {
			var flow *eng.FlowGraph
			inspectNoLits(body, func(m ast.Node) {
				as, ok := m.(*ast.AssignStmt)
				if !ok || len(as.Rhs) != 1 || len(as.Lhs) != 2 {
					return
				}
				call, ok := as.Rhs[0].(*ast.CallExpr)
				if !ok {
					return
				}
				tup, ok := info.TypeOf(call).(*types.Tuple)
				if !ok || tup.Len() != 2 || !eng.IsErrorType(tup.At(1).Type()) {
					return
				}
				switch tup.At(0).Type().Underlying().(type) {
				case *types.Pointer, *types.Interface:
				default:
					return
				}
				x, e := eng.ObjOf(info, as.Lhs[0]), eng.ObjOf(info, as.Lhs[1])
				if x == nil || e == nil {
					return
				}
				if !storageDerived(c.P, fi, call) {
					return
				}
				if flow == nil {
					flow = eng.NewFlow(info, body)
				}
				def, ok := flow.PointOf(as)
				if !ok {
					return
				}
				if !errTested(info, flow, def, e) {
					return // the error is propagated untested (return f()-style); nothing to decide
				}
				n++
				cn := calleeLabel(info, call)
				k := shortFn(fi) + "→" + cn
				ord[k]++
				construct := fmt.Sprintf("%s#%d(%s)", k, ord[k], x.Name())
				var where token.Pos
				hit := flow.Forward(def, false, eng.Walk{
					Visit: func(p eng.Point, nd ast.Node) eng.Action {
						// re-assignment of x or e ends the obligation
						if a2, ok := nd.(*ast.AssignStmt); ok {
							for _, l := range a2.Lhs {
								if o := eng.ObjOf(info, l); o == x || o == e {
									// uses on the RHS still count
									for _, r := range a2.Rhs {
										if pos := derefOf(info, r, x, e); pos.IsValid() {
											where = pos
											return eng.Hit
										}
									}
									return eng.Cut
								}
							}
						}
						if _, ok := nd.(*ast.ReturnStmt); ok {
							return eng.Cut
						}
						if pos := derefOf(info, nd, x, e); pos.IsValid() {
							where = pos
							return eng.Hit
						}
						return eng.Continue
					},
					Edge: func(cond ast.Expr, taken bool) bool {
						t := eng.EvalBool(info, cond, func(ex ast.Expr) eng.Tri {
							if is, nonNil := eng.ErrNilTest(info, ex, e); is {
								return eng.TriOf(nonNil)
							}
							// x != nil guards count as well
							if is, nonNil := eng.ErrNilTest(info, ex, x); is {
								return eng.TriOf(!nonNil) // on the failure edge x is nil
							}
							return eng.Unknown
						})
						switch t {
						case eng.True:
							return taken
						case eng.False:
							return !taken
						}
						return true
					},
				})
				c.Check(!hit, rule, construct, call.Pos(), "co-result not used on the failure edge",
					fmt.Sprintf("%s is dereferenced at %s on the path where %s failed (err != nil): a storage fault becomes a nil dereference / nil-interface call instead of an error", x.Name(), c.P.Rel(where), cn))
			})
		}
	}
	c.Floor(rule, n, 20)
}

// derefOf returns the position of a dereferencing use of x inside n (method call / field access on
// x, *x, x[i]); function literals are not entered.
func derefOf(info *types.Info, n ast.Node, x types.Object, errs ...types.Object) token.Pos {
	var pos token.Pos
	ast.Inspect(n, func(m ast.Node) bool {
		if pos.IsValid() {
			return false
		}
		switch y := m.(type) {
		case *ast.FuncLit:
			return false
		case *ast.BinaryExpr:
			// short-circuit guards: `x != nil && use(x)` / `x == nil || use(x)`
			if y.Op == token.LAND || y.Op == token.LOR {
				if is, nonNil := eng.ErrNilTest(info, y.X, x); is && nonNil == (y.Op == token.LAND) {
					return false
				}
				// … and `err == nil && use(x)` / `err != nil || use(x)` for the call's error: on the
				// failure edge the right operand is not evaluated
				for _, e := range errs {
					if is, nonNil := eng.ErrNilTest(info, y.X, e); is && nonNil == (y.Op == token.LOR) {
						return false
					}
				}
			}
		case *ast.SelectorExpr:
			if eng.ObjOf(info, y.X) == x {
				pos = y.Pos()
			}
		case *ast.StarExpr:
			if eng.ObjOf(info, y.X) == x {
				pos = y.Pos()
			}
		case *ast.IndexExpr:
			if eng.ObjOf(info, y.X) == x {
				pos = y.Pos()
			}
		}
		return true
	})
	return pos
}

var _ = strings.HasPrefix

// ruleIterNoWrite: while a locally held iterator over store S is open, the function does not write to
// S (Set/Delete on the same receiver expression). The in-memory store (always used by the versioned
// fetcher's replay) does not support writing to a range that is being iterated: the call never returns.
func ruleIterNoWrite(c *eng.Ctx, rule string, pkgs []string) {
	n := 0
	for _, fi := range c.P.Funcs() {
		if fi.Decl.Body == nil || !pkgMatch(eng.ShortPkg(fi.Pkg.PkgPath), pkgs) {
			continue
		}
		info := fi.Pkg.TypesInfo
		forEachBody(fi, func(body *ast.BlockStmt, label string) {
			var flow *eng.FlowGraph
			ord := 0
			inspectNoLits(body, func(m ast.Node) {
				as, ok := m.(*ast.AssignStmt)
				if !ok || len(as.Rhs) != 1 {
					return
				}
				call, ok := as.Rhs[0].(*ast.CallExpr)
				if !ok {
					return
				}
				tup, ok := info.TypeOf(call).(*types.Tuple)
				if !ok || tup.Len() != 2 || !isIteratorType(tup.At(0).Type()) {
					return
				}
				se, ok := call.Fun.(*ast.SelectorExpr)
				if !ok {
					return
				}
				it := eng.ObjOf(info, as.Lhs[0])
				if it == nil {
					return
				}
				store := eng.ExprStr(se.X)
				n++
				ord++
				if flow == nil {
					flow = eng.NewFlow(info, body)
				}
				acq, found := flow.PointOf(as)
				if !found {
					return
				}
				var where token.Pos
				hit := flow.Forward(acq, false, eng.Walk{
					Visit: func(p eng.Point, nd ast.Node) eng.Action {
						closed := eng.FindCall(nd, false, func(cc *ast.CallExpr) bool {
							s, ok := cc.Fun.(*ast.SelectorExpr)
							return ok && s.Sel.Name == "Close" && eng.ObjOf(info, s.X) == it
						}) != nil
						w := eng.FindCall(nd, false, func(cc *ast.CallExpr) bool {
							s, ok := cc.Fun.(*ast.SelectorExpr)
							return ok && (s.Sel.Name == "Set" || s.Sel.Name == "Delete") && eng.ExprStr(s.X) == store && strings.HasPrefix(eng.CalleeName(info, cc), "github.com/sourcenetwork/corekv.")
						})
						if w != nil && !(closed && w.Pos() > nd.Pos()) {
							where = w.Pos()
							return eng.Hit
						}
						if closed {
							return eng.Cut
						}
						if _, isRet := nd.(*ast.ReturnStmt); isRet {
							return eng.Cut
						}
						return eng.Continue
					},
				})
				c.Check(!hit, rule, fmt.Sprintf("%s:iterator#%d(%s over %s)", label, ord, it.Name(), store), call.Pos(), "no write to the iterated store while the iterator is open",
					"the function writes to "+store+" at "+c.P.Rel(where)+" while its iterator over the same store is still open: on the in-memory store (always used for time-travel replays) the write never returns")
			})
		})
	}
	c.Floor(rule, n, 5)
}
