package rules

import (
	"fmt"
	"go/ast"
	"go/token"
	"go/types"
	"sort"
	"strings"

	"defracheck/internal/eng"
)

func init() {
	register(&Property{
		ID: "C08",
		Rules: []Rule{
			{"SORT-TABLE", ruleSortTable},
			{"COMPARE-TABLES", ruleCompareTables},
			{"PANIC-ACCESSOR", rulePanicAccessor},
			{"CONNOR-TABLE", ruleConnorTable},
			{"ORDER-DIRECTION-CARRIED", func(c *eng.Ctx) { ruleOrderDirectionCarried(c, "ORDER-DIRECTION-CARRIED") }},
			{"MINMAX-TABLE", ruleMinMaxTable},
			{"AGG-PIPELINE", ruleAggPipeline},
			{"AVG-NOT-NIL", ruleAvgNotNil},
			{"AGG-KIND-PER-SOURCE", ruleAggKindPerSource},
			{"AGG-FILTER-GATE", ruleAggFilterGate},
			{"FILTER-KEY-NOT-A-FIELD", ruleFilterKeyNotAField},
			{"AGG-SIBLING-CASES", ruleAggSiblingCases},
			{"ARRAY-KIND-COVERAGE", ruleArrayKindCoverage},
			{"LIMIT-TABLE", ruleLimitTable},
			{"INDEX-GUARD", func(c *eng.Ctx) { ruleIndexGuard(c, "INDEX-GUARD", []string{"internal/planner"}, 5) }},
		},
		Meta: eng.PropMeta{
			Explanation: "Decides four structural clauses of the query semantics: (SORT-TABLE) the decision table of valuesNode.docValueLess over sign(compare) x direction is 'ASC: <0 true, >0 false, =0 next key; DESC mirrored; after the last key false' (6 cells, exhaustive); (COMPARE-TABLES) each base.compareX helper realises an antisymmetric three-way comparison on the 3 orderings of its operands; (PANIC-ACCESSOR) in dagScanNode every panicking mapping accessor (SetFirstOfName/FirstOfName/FirstIndexOfName/IndexesByName[k][0]) is used with a name the mapper registers unconditionally for that mapping, or is guarded by a presence test; (LIMIT-TABLE) limitNode.Next's stop test is 'limit!=0 && rowIndex >= limit+offset' and its skip test 'rowIndex > offset' as linear forms. (INDEX-GUARD) every constant index into a slice in the planner is dominated by a length test (also through a single-definition bool local), a range over the slice or a construction of sufficient size, or is a tabled shape invariant; (CONNOR-TABLE) every numeric comparison returned by connor.gt/ge/lt/le is `data OP condition` with the operator's own OP for all four int/float pairings, and mixed pairs are only widened to float64; (MINMAX-TABLE) every selection site `X.Cmp(Y) op 0` of _max/_min keeps the greater/lesser operand (2 cells per site, 12 sites); (AGG-PIPELINE) on every consistent path the enumerable stages of inline-array aggregates follow filter → order → offset → limit; (AGG-SIBLING-CASES) _max and _min understand the same value representations; (ORDER-DIRECTION-CARRIED) every keyed OrderCondition literal sets Direction. (ARRAY-KIND-COVERAGE) _sum/_max/_min handle all six numeric array representations, _count's filter/limit path and connor's _any/_all/_none all ten, and eq unwraps every nillable element kind — the table is aligned with the client package's FieldKind_*_ARRAY constants; (AGG-FILTER-GATE) every aggregate node yields a row only after mapper.RunFilter(row, aggregateFilter); (FILTER-KEY-NOT-A-FIELD) where the mapper turns a filter key into a selection it has excluded the map-valued operator _not. (AVG-NOT-NIL) the map that receives the {_ne: null} clause of an _avg target is, or is stored into, the target's own filter on every path; (AGG-KIND-PER-SOURCE) _max/_min resolve float-vs-integer rendering for the winning source on every iteration, from the loop's source.",
			NotDecided:  "filter evaluation beyond the ordering operators' tables (connor eq/in/like, nil handling), aggregate arithmetic beyond selection direction and stage order, grouping, parser totality, absence of hangs, equality of results with the documented semantics over data",
		},
	})
}

// ---------------------------------------------------------------------------------------------
// SORT-TABLE

func ruleSortTable(c *eng.Ctx) {
	const rule = "SORT-TABLE"
	fi := c.Anchor(rule, "internal/planner.(*valuesNode).docValueLess")
	if fi == nil {
		return
	}
	info := fi.Pkg.TypesInfo
	// slot: the variable holding the result of base.Compare
	var cmpObj types.Object
	var cmpCall *ast.CallExpr
	ast.Inspect(fi.Decl.Body, func(n ast.Node) bool {
		as, ok := n.(*ast.AssignStmt)
		if !ok || len(as.Lhs) != 1 || len(as.Rhs) != 1 {
			return true
		}
		if call, ok := as.Rhs[0].(*ast.CallExpr); ok && eng.CalleeName(info, call) == "internal/db/base.Compare" {
			cmpObj = eng.ObjOf(info, as.Lhs[0])
			cmpCall = call
		}
		return true
	})
	if cmpObj == nil {
		c.Unknown(rule, "docValueLess:compare-slot", fi.Decl.Pos(), "anchor-unresolved: no `x := base.Compare(..)` assignment found")
		return
	}
	// argument order: first argument must derive from the first doc parameter (docA), second from docB
	params := fi.Decl.Type.Params.List
	var pA, pB types.Object
	var all []types.Object
	for _, f := range params {
		for _, n := range f.Names {
			all = append(all, info.Defs[n])
		}
	}
	if len(all) == 2 {
		pA, pB = all[0], all[1]
	}
	mentions := func(e ast.Expr, o types.Object) bool {
		found := false
		ast.Inspect(e, func(n ast.Node) bool {
			if id, ok := n.(*ast.Ident); ok && info.Uses[id] == o {
				found = true
			}
			return true
		})
		return found
	}
	if pA != nil && len(cmpCall.Args) == 2 {
		ok := mentions(cmpCall.Args[0], pA) && !mentions(cmpCall.Args[0], pB) && mentions(cmpCall.Args[1], pB) && !mentions(cmpCall.Args[1], pA)
		c.Check(ok, rule, "docValueLess:compare-args", cmpCall.Pos(),
			"Compare(first-doc value, second-doc value)", "base.Compare operands are not (value of first doc, value of second doc): the table below would be mirrored")
	}

	descObj := lookupObj(c.P, "internal/planner/mapper", "DESC")
	ascObj := lookupObj(c.P, "internal/planner/mapper", "ASC")
	if descObj == nil || ascObj == nil {
		c.Unknown(rule, "anchor:mapper.DESC/ASC", fi.Decl.Pos(), "anchor-unresolved: mapper.ASC/DESC constants")
		return
	}
	flow := eng.NewFlow(info, fi.Decl.Body)
	type cell struct {
		sign int
		desc bool
	}
	expect := func(cl cell) string {
		switch {
		case cl.sign == 0:
			return "next-key"
		case (cl.sign < 0) != cl.desc:
			return "true"
		default:
			return "false"
		}
	}
	for _, desc := range []bool{false, true} {
		for _, sign := range []int{-1, 0, 1} {
			cl := cell{sign, desc}
			atom := func(e ast.Expr) eng.Tri {
				be, ok := ast.Unparen(e).(*ast.BinaryExpr)
				if !ok {
					return eng.Unknown
				}
				// compare OP const
				if eng.ObjOf(info, be.X) == cmpObj {
					if k, ok := eng.IntConst(info, be.Y); ok {
						if r, ok := eng.CmpHolds(be.Op, cmpInt(int64(sign), k)); ok {
							return eng.TriOf(r)
						}
					}
				}
				if eng.ObjOf(info, be.Y) == cmpObj {
					if k, ok := eng.IntConst(info, be.X); ok {
						if r, ok := eng.CmpHolds(eng.FlipOp(be.Op), cmpInt(int64(sign), k)); ok {
							return eng.TriOf(r)
						}
					}
				}
				// direction ==/!= mapper.DESC|ASC
				if be.Op == token.EQL || be.Op == token.NEQ {
					var dirConst types.Object
					var other ast.Expr
					if o := selObj(info, be.Y); o == descObj || o == ascObj {
						dirConst, other = o, be.X
					} else if o := selObj(info, be.X); o == descObj || o == ascObj {
						dirConst, other = o, be.Y
					}
					if dirConst != nil && isFieldNamed(info, other, "Direction") {
						eq := (dirConst == descObj) == desc
						if be.Op == token.NEQ {
							eq = !eq
						}
						return eng.TriOf(eq)
					}
				}
				return eng.Unknown
			}
			outs, trunc := flow.Paths(eng.PathSpec{
				Cond: func(br eng.Branch) eng.Tri { return eng.BranchTri(info, br, atom) },
				Effect: func(n ast.Node) string {
					if n.Pos() <= cmpCall.Pos() && cmpCall.End() <= n.End() {
						return "cmp"
					}
					return ""
				},
			})
			got := map[string]bool{}
			for _, o := range outs {
				if len(o.Effects) == 0 {
					continue // did not enter the loop body
				}
				switch o.Kind {
				case "loop":
					got["next-key"] = true
				case "return":
					if o.Ret != nil && len(o.Ret.Results) == 1 {
						switch eng.EvalBool(info, o.Ret.Results[0], atom) {
						case eng.True:
							got["true"] = true
						case eng.False:
							got["false"] = true
						default:
							got["undecided:"+eng.ExprStr(o.Ret.Results[0])] = true
						}
					} else {
						got["undecided-return"] = true
					}
				default:
					// falling out of the loop body to the statement after the loop without a new
					// iteration = treated like the after-loop result
					got["after-loop:"+o.Sig(info)] = true
				}
			}
			keys := setKeys(got)
			dir := "ASC"
			if desc {
				dir = "DESC"
			}
			construct := fmt.Sprintf("docValueLess:cell(dir=%s,sign=%+d)", dir, sign)
			want := expect(cl)
			if trunc {
				c.Unknown(rule, construct, fi.Decl.Pos(), "path enumeration truncated")
				continue
			}
			ok := len(keys) == 1 && keys[0] == want
			c.Check(ok, rule, construct, cmpCall.Pos(),
				"outcome "+want,
				fmt.Sprintf("comparator cell yields %v, documented semantics require %q (ordering by the first key must break ties by each following key)", keys, want))
		}
	}
	// after the last key: result false (not less) — paths that never (re-)enter the loop body
	outs, _ := flow.Paths(eng.PathSpec{Cond: func(br eng.Branch) eng.Tri { return eng.Unknown }})
	afterOK, n := true, 0
	for _, o := range outs {
		if o.Kind == "return" && o.Ret != nil && o.Ret.Pos() > cmpCall.End() && !within(o.Ret, loopOf(fi.Decl.Body, cmpCall)) {
			n++
			if len(o.Ret.Results) != 1 || eng.RetVal(info, o.Ret.Results[0]) != "false" {
				afterOK = false
			}
		}
	}
	c.Check(afterOK && n > 0, rule, "docValueLess:after-last-key", fi.Decl.Body.End(),
		"all keys equal ⇒ not less", "after the last ordering key the comparator does not return false (Less must be irreflexive for sort.Stable)")
}

func cmpInt(a, b int64) int {
	switch {
	case a < b:
		return -1
	case a > b:
		return 1
	}
	return 0
}

func setKeys(m map[string]bool) []string {
	var ks []string
	for k := range m {
		ks = append(ks, k)
	}
	sort.Strings(ks)
	return ks
}

func lookupObj(p *eng.Program, pkgRel, name string) types.Object {
	pk := p.Pkg(pkgRel)
	if pk == nil {
		return nil
	}
	return pk.Types.Scope().Lookup(name)
}

// selObj resolves `pkg.Name` or `Name` to its object.
func selObj(info *types.Info, e ast.Expr) types.Object {
	switch x := ast.Unparen(e).(type) {
	case *ast.Ident:
		return info.Uses[x]
	case *ast.SelectorExpr:
		return info.Uses[x.Sel]
	}
	return nil
}

func isFieldNamed(info *types.Info, e ast.Expr, name string) bool {
	se, ok := ast.Unparen(e).(*ast.SelectorExpr)
	if !ok || se.Sel.Name != name {
		return false
	}
	if s, ok := info.Selections[se]; ok {
		return s.Kind() == types.FieldVal
	}
	return false
}

func loopOf(body *ast.BlockStmt, inner ast.Node) ast.Node {
	var best ast.Node
	ast.Inspect(body, func(n ast.Node) bool {
		switch n.(type) {
		case *ast.RangeStmt, *ast.ForStmt:
			if n.Pos() <= inner.Pos() && inner.End() <= n.End() {
				best = n
			}
		}
		return true
	})
	return best
}

func within(n ast.Node, outer ast.Node) bool {
	return outer != nil && outer.Pos() <= n.Pos() && n.End() <= outer.End()
}

// ---------------------------------------------------------------------------------------------
// COMPARE-TABLES

func ruleCompareTables(c *eng.Ctx) {
	const rule = "COMPARE-TABLES"
	// helpers with two same-typed ordered operands compared through ==, <, > (or Equal/After/Before)
	names := []string{"compareBool", "compareInt", "compareFloat", "compareTime", "compareNil"}
	n := 0
	for _, nm := range names {
		fi := c.P.Func("internal/db/base." + nm)
		if fi == nil {
			continue // helper renamed/inlined: Compare's dispatch is covered by COMPARE-DISPATCH below
		}
		n++
		compareTable(c, rule, fi)
	}
	// delegating helpers: compareString/compareBytes must delegate with operands in order
	for _, nm := range []string{"compareString", "compareBytes"} {
		fi := c.P.Func("internal/db/base." + nm)
		if fi == nil {
			continue
		}
		n++
		info := fi.Pkg.TypesInfo
		ok := false
		var pos token.Pos = fi.Decl.Pos()
		ps := paramObjs(info, fi.Decl)
		ast.Inspect(fi.Decl.Body, func(m ast.Node) bool {
			if r, isRet := m.(*ast.ReturnStmt); isRet && len(r.Results) == 1 {
				if call, isCall := r.Results[0].(*ast.CallExpr); isCall && len(call.Args) == 2 && len(ps) == 2 {
					cn := eng.CalleeName(info, call)
					if (cn == "strings.Compare" || cn == "bytes.Compare" || cn == "cmp.Compare") &&
						eng.ObjOf(info, call.Args[0]) == ps[0] && eng.ObjOf(info, call.Args[1]) == ps[1] {
						ok = true
					}
					pos = call.Pos()
				}
			}
			return true
		})
		c.Check(ok, rule, nm+":delegates-in-order", pos, "returns <lib>.Compare(a, b)", "does not return the library three-way comparison of (a, b) in that order")
	}
	c.Floor(rule, n, 4)
	// Compare dispatches each dynamic type to a helper with (v, b.(T)) in order
	fi := c.Anchor(rule, "internal/db/base.Compare")
	if fi == nil {
		return
	}
	info := fi.Pkg.TypesInfo
	ps := paramObjs(info, fi.Decl)
	ast.Inspect(fi.Decl.Body, func(m ast.Node) bool {
		ts, ok := m.(*ast.TypeSwitchStmt)
		if !ok {
			return true
		}
		var bound types.Object // v in `switch v := a.(type)`
		if as, ok := ts.Assign.(*ast.AssignStmt); ok && len(as.Lhs) == 1 {
			if ta, ok := as.Rhs[0].(*ast.TypeAssertExpr); ok && len(ps) == 2 && eng.ObjOf(info, ta.X) != ps[0] {
				c.Bad(rule, "Compare:switch-on-first", ts.Pos(), "type switch is not on the first operand")
			}
		}
		_ = bound
		for _, cl := range ts.Body.List {
			cc := cl.(*ast.CaseClause)
			if cc.List == nil {
				continue
			}
			tn := eng.ExprStr(cc.List[0])
			for _, st := range cc.Body {
				r, ok := st.(*ast.ReturnStmt)
				if !ok || len(r.Results) != 1 {
					continue
				}
				call, ok := r.Results[0].(*ast.CallExpr)
				if !ok || len(call.Args) != 2 {
					continue
				}
				// first arg derives from the switch-bound value (implicit object), second from b
				firstOK := !mentionsObj(info, call.Args[0], ps[1])
				secondOK := mentionsObj(info, call.Args[1], ps[1]) && !usesImplicit(info, call.Args[1], cc)
				c.Check(firstOK && secondOK, rule, "Compare:case("+tn+"):operand-order", call.Pos(),
					"helper(a-value, b-value)", "helper called with operands swapped or the same operand twice")
			}
		}
		return false
	})
}

func usesImplicit(info *types.Info, e ast.Expr, cc *ast.CaseClause) bool {
	imp := info.Implicits[cc]
	if imp == nil {
		return false
	}
	return mentionsObj(info, e, imp)
}

// mentionsObj reports whether e uses o, directly or through plain locals that are defined exactly
// once from an expression using o (`tip := blockLink.Cid` … `Write(ctx, tip, …)`), up to three steps.
func mentionsObj(info *types.Info, e ast.Expr, o types.Object) bool {
	return mentionsObjDepth(info, e, o, 0)
}

func mentionsObjDepth(info *types.Info, e ast.Node, o types.Object, depth int) bool {
	found := false
	ast.Inspect(e, func(n ast.Node) bool {
		id, ok := n.(*ast.Ident)
		if !ok || found {
			return !found
		}
		u := info.Uses[id]
		if u == o {
			found = true
			return false
		}
		if depth < 3 && u != nil {
			if rhs := singleLocalDef(u); rhs != nil && mentionsObjDepth(info, rhs, o, depth+1) {
				found = true
			}
		}
		return true
	})
	return found
}

var (
	localDefProg *eng.Program
	localDefIdx  map[types.Object]ast.Expr
)

// UseProgram tells the helpers which loaded program local definitions are looked up in.
func UseProgram(p *eng.Program) {
	if localDefProg != p {
		localDefProg, localDefIdx = p, nil
	}
}

// singleLocalDef: the defining expression of a function-local variable that is assigned exactly once
// (one-to-one `v := expr` / `var v = expr`), is not a range/loop variable, and whose address is not
// taken; nil otherwise.
func singleLocalDef(o types.Object) ast.Expr {
	v, ok := o.(*types.Var)
	if !ok || v.IsField() || localDefProg == nil || v.Pkg() == nil || v.Parent() == v.Pkg().Scope() {
		return nil
	}
	if localDefIdx == nil {
		localDefIdx = map[types.Object]ast.Expr{}
		cnt := map[types.Object]int{}
		for _, pk := range localDefProg.Pkgs {
			info := pk.TypesInfo
			obj := func(e ast.Expr) types.Object {
				if id, ok := ast.Unparen(e).(*ast.Ident); ok {
					return info.ObjectOf(id)
				}
				return nil
			}
			for _, f := range pk.Syntax {
				ast.Inspect(f, func(n ast.Node) bool {
					switch x := n.(type) {
					case *ast.AssignStmt:
						for i, l := range x.Lhs {
							if lo := obj(l); lo != nil {
								cnt[lo]++
								if len(x.Lhs) == len(x.Rhs) && x.Tok != token.ADD_ASSIGN {
									localDefIdx[lo] = x.Rhs[i]
								} else {
									cnt[lo]++
								}
							}
						}
					case *ast.ValueSpec:
						for i, nm := range x.Names {
							if lo := info.Defs[nm]; lo != nil {
								cnt[lo]++
								if len(x.Values) == len(x.Names) {
									localDefIdx[lo] = x.Values[i]
								} else {
									cnt[lo]++
								}
							}
						}
					case *ast.RangeStmt:
						for _, l := range []ast.Expr{x.Key, x.Value} {
							if l != nil {
								if lo := obj(l); lo != nil {
									cnt[lo] += 2
								}
							}
						}
					case *ast.IncDecStmt:
						if lo := obj(x.X); lo != nil {
							cnt[lo] += 2
						}
					case *ast.UnaryExpr:
						if x.Op == token.AND {
							if lo := obj(x.X); lo != nil {
								cnt[lo] += 2
							}
						}
					}
					return true
				})
			}
		}
		for o, n := range cnt {
			if n != 1 {
				delete(localDefIdx, o)
			}
		}
	}
	return localDefIdx[o]
}

func paramObjs(info *types.Info, fd *ast.FuncDecl) []types.Object {
	var out []types.Object
	for _, f := range fd.Type.Params.List {
		for _, n := range f.Names {
			out = append(out, info.Defs[n])
		}
	}
	return out
}

// compareTable enumerates the orderings a<b, a==b, a>b of the two parameters and requires the
// returned constants to be -1, 0, +1 (sign-correct and antisymmetric).
func compareTable(c *eng.Ctx, rule string, fi *eng.FuncInfo) {
	info := fi.Pkg.TypesInfo
	ps := paramObjs(info, fi.Decl)
	if len(ps) != 2 {
		c.Unknown(rule, fi.Obj.Name()+":params", fi.Decl.Pos(), "expected two operands")
		return
	}
	a, b := ps[0], ps[1]
	flow := eng.NewFlow(info, fi.Decl.Body)
	isBool := types.Identical(a.Type().Underlying(), types.Typ[types.Bool])
	_, isTP := a.Type().(*types.TypeParam)
	isAny := types.IsInterface(a.Type()) && !isTP
	type val struct {
		name string
		sign int
		// for bool / nil-ness valuations
		av, bv bool
	}
	var vals []val
	switch {
	case isBool:
		vals = []val{{"a=false,b=false", 0, false, false}, {"a=false,b=true", -1, false, true}, {"a=true,b=false", 1, true, false}, {"a=true,b=true", 0, true, true}}
	case isAny: // compareNil: valuations over nil-ness; nil sorts below non-nil; both non-nil is not its job
		vals = []val{{"a=nil,b=nil", 0, false, false}, {"a=nil,b!=nil", -1, false, true}, {"a!=nil,b=nil", 1, true, false}}
	default:
		vals = []val{{"a<b", -1, false, false}, {"a==b", 0, false, false}, {"a>b", 1, false, false}}
	}
	for _, v := range vals {
		atom := func(e ast.Expr) eng.Tri {
			e = ast.Unparen(e)
			if isBool {
				if o := eng.ObjOf(info, e); o == a {
					return eng.TriOf(v.av)
				} else if o == b {
					return eng.TriOf(v.bv)
				}
			}
			switch x := e.(type) {
			case *ast.BinaryExpr:
				if isAny {
					// x == nil / x != nil
					if ok, nonNil := eng.ErrNilTest(info, x, a); ok {
						return eng.TriOf(nonNil == v.av)
					}
					if ok, nonNil := eng.ErrNilTest(info, x, b); ok {
						return eng.TriOf(nonNil == v.bv)
					}
					return eng.Unknown
				}
				xo, yo := eng.ObjOf(info, x.X), eng.ObjOf(info, x.Y)
				if isBool && (x.Op == token.EQL || x.Op == token.NEQ) && ((xo == a && yo == b) || (xo == b && yo == a)) {
					return eng.TriOf((v.av == v.bv) == (x.Op == token.EQL))
				}
				if xo == a && yo == b {
					if r, ok := eng.CmpHolds(x.Op, v.sign); ok {
						return eng.TriOf(r)
					}
				}
				if xo == b && yo == a {
					if r, ok := eng.CmpHolds(x.Op, -v.sign); ok {
						return eng.TriOf(r)
					}
				}
			case *ast.CallExpr: // a.Equal(b), a.After(b), a.Before(b), a.Compare(b)
				if se, ok := x.Fun.(*ast.SelectorExpr); ok && len(x.Args) == 1 {
					ro, ao := eng.ObjOf(info, se.X), eng.ObjOf(info, x.Args[0])
					s := v.sign
					if ro == b && ao == a {
						s = -s
					} else if !(ro == a && ao == b) {
						return eng.Unknown
					}
					switch se.Sel.Name {
					case "Equal":
						return eng.TriOf(s == 0)
					case "After":
						return eng.TriOf(s > 0)
					case "Before":
						return eng.TriOf(s < 0)
					}
				}
			}
			return eng.Unknown
		}
		outs, _ := flow.Paths(eng.PathSpec{Cond: func(br eng.Branch) eng.Tri { return eng.BranchTri(info, br, atom) }})
		got := map[string]bool{}
		for _, o := range outs {
			if o.Kind == "return" && o.Ret != nil && len(o.Ret.Results) == 1 {
				got[eng.RetVal(info, o.Ret.Results[0])] = true
			} else {
				got[o.Kind] = true
			}
		}
		want := fmt.Sprintf("%d", v.sign)
		keys := setKeys(got)
		c.Check(len(keys) == 1 && keys[0] == want, rule, fi.Obj.Name()+":cell("+v.name+")", fi.Decl.Pos(),
			"returns "+want, fmt.Sprintf("returns %v, a three-way comparison must return %s", keys, want))
	}
}

// ---------------------------------------------------------------------------------------------
// PANIC-ACCESSOR

var panicAccessors = map[string]bool{
	"internal/core.(*DocumentMapping).SetFirstOfName":   true,
	"internal/core.(*DocumentMapping).FirstOfName":      true,
	"internal/core.(*DocumentMapping).FirstIndexOfName": true,
}

func stringSliceVar(p *eng.Program, pkgRel, name string) (map[string]bool, bool) {
	pk := p.Pkg(pkgRel)
	if pk == nil {
		return nil, false
	}
	obj := pk.Types.Scope().Lookup(name)
	if obj == nil {
		return nil, false
	}
	out := map[string]bool{}
	found := false
	for _, f := range pk.Syntax {
		ast.Inspect(f, func(n ast.Node) bool {
			vs, ok := n.(*ast.ValueSpec)
			if !ok {
				return true
			}
			for i, nm := range vs.Names {
				if pk.TypesInfo.Defs[nm] == obj && i < len(vs.Values) {
					if cl, ok := vs.Values[i].(*ast.CompositeLit); ok {
						found = true
						for _, e := range cl.Elts {
							if s, ok := eng.ConstString(pk.TypesInfo, e); ok {
								out[s] = true
							} else {
								found = false
							}
						}
					}
				}
			}
			return true
		})
	}
	return out, found
}

func rulePanicAccessor(c *eng.Ctx) {
	const rule = "PANIC-ACCESSOR"
	version, ok1 := stringSliceVar(c.P, "client/request", "VersionFields")
	links, ok2 := stringSliceVar(c.P, "client/request", "LinksFields")
	sigs, ok3 := stringSliceVar(c.P, "client/request", "SignatureFields")
	if !ok1 || !ok2 || !ok3 {
		c.Unknown(rule, "anchor:request.{Version,Links,Signature}Fields", token.NoPos, "anchor-unresolved: constant field lists")
		return
	}
	linksName, _ := constStr(c.P, "client/request", "LinksFieldName")
	sigName, _ := constStr(c.P, "client/request", "SignatureFieldName")
	// the mapper must add these lists unconditionally for the three mappings
	mapperRegisters(c, rule)

	count := 0
	for _, fi := range c.P.FuncsIn("internal/planner") {
		if !strings.Contains(fi.Name, "(*dagScanNode)") {
			continue
		}
		info := fi.Pkg.TypesInfo
		flow := eng.NewFlow(info, fi.Decl.Body)
		ord := map[string]int{}
		// classify a mapping expression: "commit" | "links" | "signature" | ""
		classify := func(e ast.Expr) string { return classifyMapping(info, fi.Decl, e, linksName, sigName) }
		ast.Inspect(fi.Decl.Body, func(n ast.Node) bool {
			var mapExpr, nameExpr ast.Expr
			var what string
			switch x := n.(type) {
			case *ast.CallExpr:
				cn := eng.CalleeName(info, x)
				if !panicAccessors[cn] {
					return true
				}
				se := x.Fun.(*ast.SelectorExpr)
				mapExpr = se.X
				what = se.Sel.Name
				if what == "FirstIndexOfName" {
					nameExpr = x.Args[0]
				} else {
					nameExpr = x.Args[1]
				}
			case *ast.IndexExpr: // M.IndexesByName[k][i]
				in, ok := ast.Unparen(x.X).(*ast.IndexExpr)
				if !ok {
					return true
				}
				se, ok := ast.Unparen(in.X).(*ast.SelectorExpr)
				if !ok || se.Sel.Name != "IndexesByName" || eng.TypeName(info.TypeOf(se.X)) != "internal/core.DocumentMapping" {
					return true
				}
				mapExpr, nameExpr, what = se.X, in.Index, "IndexesByName[k][i]"
			default:
				return true
			}
			count++
			name, isConst := eng.ConstString(info, nameExpr)
			kind := classify(mapExpr)
			key := fmt.Sprintf("%s:%s(%s)", shortFn(fi), what, eng.ExprStr(nameExpr))
			ord[key]++
			if ord[key] > 1 {
				key = fmt.Sprintf("%s#%d", key, ord[key])
			}
			var allowed map[string]bool
			switch kind {
			case "commit":
				allowed = version
			case "links":
				allowed = links
			case "signature":
				allowed = sigs
			}
			if isConst && allowed != nil && allowed[name] {
				c.OK(rule, key, n.Pos(), fmt.Sprintf("%q is registered unconditionally for the %s mapping", name, kind))
				return true
			}
			// otherwise: must be guarded by a presence test of the same name on the same mapping
			if guardedByPresence(info, flow, fi, n, mapExpr, nameExpr) {
				c.OK(rule, key, n.Pos(), "guarded by a presence test (len/ok/range) on IndexesByName["+eng.ExprStr(nameExpr)+"]")
				return true
			}
			if callersGuard(c.P, fi, mapExpr, nameExpr) {
				c.OK(rule, key, n.Pos(), "every caller guards the call with a presence test")
				return true
			}
			why := "name is not a constant"
			if isConst {
				why = fmt.Sprintf("%q is not in the list registered unconditionally for the %s mapping", name, kind)
			}
			c.Bad(rule, key, n.Pos(), "panicking accessor without presence guard: "+why+
				" — a commits query that does not select this field panics (index out of range)")
			return true
		})
	}
	c.Floor(rule, count, 10)
}

func shortFn(fi *eng.FuncInfo) string {
	i := strings.LastIndex(fi.Name, "/")
	return fi.Name[i+1:]
}

func constStr(p *eng.Program, pkgRel, name string) (string, bool) {
	o := lookupObj(p, pkgRel, name)
	cst, ok := o.(*types.Const)
	if !ok {
		return "", false
	}
	s, err := unq(cst.Val().ExactString())
	return s, err == nil
}

// classifyMapping decides which mapper list applies to a mapping expression inside fn:
//
//	X.commitSelect.DocumentMapping / X.DocumentMapping on the commit select  -> "commit"
//	v where v := M.ChildMappings[i] and i ranges over / indexes M.IndexesByName[LinksFieldName] -> "links"
//	same with SignatureFieldName -> "signature"
func classifyMapping(info *types.Info, fd *ast.FuncDecl, e ast.Expr, linksName, sigName string) string {
	e = ast.Unparen(e)
	if se, ok := e.(*ast.SelectorExpr); ok && se.Sel.Name == "DocumentMapping" {
		if inner, ok := ast.Unparen(se.X).(*ast.SelectorExpr); ok && inner.Sel.Name == "commitSelect" {
			return "commit"
		}
		return ""
	}
	obj := eng.ObjOf(info, e)
	if obj == nil {
		return ""
	}
	// find the defining assignment v := M.ChildMappings[idx]
	var idx ast.Expr
	ast.Inspect(fd.Body, func(n ast.Node) bool {
		as, ok := n.(*ast.AssignStmt)
		if !ok || len(as.Lhs) != 1 || len(as.Rhs) != 1 || eng.ObjOf(info, as.Lhs[0]) != obj {
			return true
		}
		if ix, ok := ast.Unparen(as.Rhs[0]).(*ast.IndexExpr); ok {
			if se, ok := ast.Unparen(ix.X).(*ast.SelectorExpr); ok && se.Sel.Name == "ChildMappings" {
				idx = ix.Index
			}
		}
		return true
	})
	if idx == nil {
		return ""
	}
	k := indexNameOrigin(info, fd, idx, 8)
	switch k {
	case linksName:
		return "links"
	case sigName:
		return "signature"
	}
	return ""
}

// indexNameOrigin follows idx back to `M.IndexesByName[K]` (through [i], range value, simple
// assignment) and returns the constant K.
func indexNameOrigin(info *types.Info, fd *ast.FuncDecl, e ast.Expr, depth int) string {
	if depth == 0 {
		return ""
	}
	e = ast.Unparen(e)
	switch x := e.(type) {
	case *ast.IndexExpr:
		if se, ok := ast.Unparen(x.X).(*ast.SelectorExpr); ok && se.Sel.Name == "IndexesByName" {
			s, _ := eng.ConstString(info, x.Index)
			return s
		}
		return indexNameOrigin(info, fd, x.X, depth-1)
	case *ast.Ident:
		obj := info.ObjectOf(x)
		res := ""
		ast.Inspect(fd.Body, func(n ast.Node) bool {
			switch s := n.(type) {
			case *ast.AssignStmt:
				for i, l := range s.Lhs {
					if eng.ObjOf(info, l) == obj && i < len(s.Rhs) {
						if r := indexNameOrigin(info, fd, s.Rhs[i], depth-1); r != "" {
							res = r
						}
					}
				}
			case *ast.RangeStmt:
				if s.Value != nil && eng.ObjOf(info, s.Value) == obj {
					if r := indexNameOrigin(info, fd, s.X, depth-1); r != "" {
						res = r
					}
				}
			}
			return true
		})
		return res
	}
	return ""
}

// presenceTest classifies cond as a test of "IndexesByName[name] is non-empty" on the mapping:
// returns (isTest, presentWhenTrue).
func presenceTest(info *types.Info, fd *ast.FuncDecl, cond ast.Expr, mapExpr, nameExpr ast.Expr) (bool, bool) {
	cond = ast.Unparen(cond)
	wantName, _ := eng.ConstString(info, nameExpr)
	isTarget := func(e ast.Expr) bool {
		e = ast.Unparen(e)
		if ix, ok := e.(*ast.IndexExpr); ok {
			if se, ok := ast.Unparen(ix.X).(*ast.SelectorExpr); ok && se.Sel.Name == "IndexesByName" {
				if eng.ExprStr(se.X) != eng.ExprStr(mapExpr) {
					return false
				}
				s, ok := eng.ConstString(info, ix.Index)
				return ok && s == wantName || (!ok && eng.ExprStr(ix.Index) == eng.ExprStr(nameExpr))
			}
			return false
		}
		if id, ok := e.(*ast.Ident); ok {
			// variable assigned from the target expression
			obj := info.ObjectOf(id)
			hit := false
			ast.Inspect(fd.Body, func(n ast.Node) bool {
				if as, ok := n.(*ast.AssignStmt); ok && len(as.Rhs) == 1 && len(as.Lhs) >= 1 && eng.ObjOf(info, as.Lhs[0]) == obj {
					if ix, ok := ast.Unparen(as.Rhs[0]).(*ast.IndexExpr); ok {
						if se, ok := ast.Unparen(ix.X).(*ast.SelectorExpr); ok && se.Sel.Name == "IndexesByName" && eng.ExprStr(se.X) == eng.ExprStr(mapExpr) {
							if s, ok := eng.ConstString(info, ix.Index); ok && s == wantName {
								hit = true
							}
						}
					}
				}
				return true
			})
			return hit
		}
		return false
	}
	switch x := cond.(type) {
	case *ast.BinaryExpr:
		// len(T) OP k
		lenOf := func(e ast.Expr) bool {
			call, ok := ast.Unparen(e).(*ast.CallExpr)
			if !ok || len(call.Args) != 1 {
				return false
			}
			if id, ok := call.Fun.(*ast.Ident); !ok || id.Name != "len" {
				return false
			}
			return isTarget(call.Args[0])
		}
		op := x.Op
		var k int64
		var ok bool
		if lenOf(x.X) {
			k, ok = eng.IntConst(info, x.Y)
		} else if lenOf(x.Y) {
			k, ok = eng.IntConst(info, x.X)
			op = eng.FlipOp(op)
		} else {
			return false, false
		}
		if !ok {
			return false, false
		}
		// does (len OP k) imply len>=1 when true, or when false?
		holds := func(l int64) bool { r, _ := eng.CmpHolds(op, cmpInt(l, k)); return r }
		// true edge guarantees present iff the test is false for len=0
		if !holds(0) {
			return true, true
		}
		// false edge guarantees present iff test true for len=0 and the test is true ONLY for len=0 ... conservatively: test(0) true and test(1..3) false
		if holds(0) && !holds(1) && !holds(2) && !holds(3) {
			return true, false
		}
	case *ast.Ident:
		// ok from `v, ok := M.IndexesByName[name]` is weaker than len>0 (empty slice) — accept only with len test
	}
	return false, false
}

func guardedByPresence(info *types.Info, flow *eng.FlowGraph, fi *eng.FuncInfo, site ast.Node, mapExpr, nameExpr ast.Expr) bool {
	// form (a): inside `for _, i := range M.IndexesByName[name]` body
	inRange := false
	ast.Inspect(fi.Decl.Body, func(n ast.Node) bool {
		rs, ok := n.(*ast.RangeStmt)
		if !ok || !(rs.Body.Pos() <= site.Pos() && site.End() <= rs.Body.End()) {
			return true
		}
		if is, _ := presenceTest(info, fi.Decl, &ast.BinaryExpr{X: &ast.CallExpr{Fun: ast.NewIdent("len"), Args: []ast.Expr{rs.X}}, Op: token.GTR, Y: ast.NewIdent("0")}, mapExpr, nameExpr); is {
			inRange = true
		}
		return true
	})
	_ = inRange // (a) is subsumed: a range body is only entered when the slice is non-empty
	if rangeGuards(info, fi.Decl, site, mapExpr, nameExpr) {
		return true
	}
	// form (b): every path to the site passes a present-edge
	pt, ok := flow.PointOf(site)
	if !ok {
		return false
	}
	reach := flow.ReachesWithout(pt, func(ast.Node) bool { return false }, func(cond ast.Expr, taken bool) bool {
		if is, presentWhenTrue := presenceTest(info, fi.Decl, cond, mapExpr, nameExpr); is {
			if taken == presentWhenTrue {
				return false // present edge: forbidden for the "unguarded" search
			}
		}
		return true
	})
	return !reach
}

func rangeGuards(info *types.Info, fd *ast.FuncDecl, site ast.Node, mapExpr, nameExpr ast.Expr) bool {
	want, _ := eng.ConstString(info, nameExpr)
	res := false
	ast.Inspect(fd.Body, func(n ast.Node) bool {
		rs, ok := n.(*ast.RangeStmt)
		if !ok || !(rs.Body.Pos() <= site.Pos() && site.End() <= rs.Body.End()) {
			return true
		}
		x := ast.Unparen(rs.X)
		if id, ok := x.(*ast.Ident); ok {
			// variable assigned from IndexesByName[name]
			obj := info.ObjectOf(id)
			ast.Inspect(fd.Body, func(m ast.Node) bool {
				if as, ok := m.(*ast.AssignStmt); ok && len(as.Lhs) == 1 && len(as.Rhs) == 1 && eng.ObjOf(info, as.Lhs[0]) == obj {
					x = ast.Unparen(as.Rhs[0])
				}
				return true
			})
		}
		if ix, ok := x.(*ast.IndexExpr); ok {
			if se, ok := ast.Unparen(ix.X).(*ast.SelectorExpr); ok && se.Sel.Name == "IndexesByName" && eng.ExprStr(se.X) == eng.ExprStr(mapExpr) {
				if s, ok := eng.ConstString(info, ix.Index); ok && s == want {
					res = true
				}
			}
		}
		return true
	})
	return res
}

// callersGuard: fi is unexported; every call to it inside its package is dominated by a
// present-edge for the same mapping/name.
func callersGuard(p *eng.Program, fi *eng.FuncInfo, mapExpr, nameExpr ast.Expr) bool {
	if fi.Obj.Exported() {
		return false
	}
	n := 0
	for _, caller := range p.FuncsIn(eng.ShortPkg(fi.Pkg.PkgPath)) {
		info := caller.Pkg.TypesInfo
		if caller.Decl.Body == nil {
			continue
		}
		var flow *eng.FlowGraph
		for _, cs := range eng.Calls(info, caller.Decl.Body) {
			if cs.Callee != fi.Obj {
				continue
			}
			n++
			if cs.Lit != nil {
				return false
			}
			if flow == nil {
				flow = eng.NewFlow(info, caller.Decl.Body)
			}
			if !guardedByPresence(info, flow, caller, cs.Call, mapExpr, nameExpr) {
				return false
			}
		}
	}
	return n > 0
}

// mapperRegisters: toSelect-side agreement — the mapper adds each list in a `for .. range request.XFields`
// loop calling mapping.Add, in the arm selected by the corresponding field name.
func mapperRegisters(c *eng.Ctx, rule string) {
	found := map[string]bool{}
	for _, fi := range c.P.FuncsIn("internal/planner/mapper") {
		info := fi.Pkg.TypesInfo
		if fi.Decl.Body == nil {
			continue
		}
		ast.Inspect(fi.Decl.Body, func(n ast.Node) bool {
			rs, ok := n.(*ast.RangeStmt)
			if !ok {
				return true
			}
			o := selObj(info, rs.X)
			if o == nil || o.Pkg() == nil || eng.ShortPkg(o.Pkg().Path()) != "client/request" {
				return true
			}
			switch o.Name() {
			case "VersionFields", "LinksFields", "SignatureFields":
				if eng.FindCall(rs.Body, false, func(call *ast.CallExpr) bool {
					return eng.CalleeName(info, call) == "internal/core.(*DocumentMapping).Add"
				}) != nil && rs.Value != nil {
					found[o.Name()] = true
				}
			}
			return true
		})
	}
	for _, l := range []string{"VersionFields", "LinksFields", "SignatureFields"} {
		c.Check(found[l], rule, "mapper:registers("+l+")", token.NoPos,
			"mapper adds every name of request."+l+" to the mapping", "mapper no longer registers request."+l+" with mapping.Add in a range loop: the accessor table has no basis")
	}
}

// ---------------------------------------------------------------------------------------------
// LIMIT-TABLE

func ruleLimitTable(c *eng.Ctx) {
	const rule = "LIMIT-TABLE"
	fi := c.Anchor(rule, "internal/planner.(*limitNode).Next")
	if fi == nil {
		return
	}
	info := fi.Pkg.TypesInfo
	// Collect branch conditions as linear forms over the receiver's fields {limit, offset, rowIndex}.
	type lin struct {
		coef map[string]int64
		k    int64
	}
	var linOf func(e ast.Expr) (lin, bool)
	linOf = func(e ast.Expr) (lin, bool) {
		e = ast.Unparen(e)
		if k, ok := eng.IntConst(info, e); ok {
			return lin{map[string]int64{}, k}, true
		}
		switch x := e.(type) {
		case *ast.SelectorExpr:
			if s, ok := info.Selections[x]; ok && s.Kind() == types.FieldVal {
				return lin{map[string]int64{x.Sel.Name: 1}, 0}, true
			}
		case *ast.BinaryExpr:
			if x.Op == token.ADD || x.Op == token.SUB {
				a, ok1 := linOf(x.X)
				b, ok2 := linOf(x.Y)
				if ok1 && ok2 {
					r := lin{map[string]int64{}, a.k}
					for k, v := range a.coef {
						r.coef[k] += v
					}
					sg := int64(1)
					if x.Op == token.SUB {
						sg = -1
					}
					r.k += sg * b.k
					for k, v := range b.coef {
						r.coef[k] += sg * v
					}
					return r, true
				}
			}
		case *ast.CallExpr: // conversions
			if len(x.Args) == 1 {
				if tv, ok := info.Types[x.Fun]; ok && tv.IsType() {
					return linOf(x.Args[0])
				}
			}
		}
		return lin{}, false
	}
	// normalise `L OP R` to  (L-R) OP 0, then to a canonical string with OP in {>=,>,==,!=}
	norm := func(be *ast.BinaryExpr) (string, bool) {
		l, ok1 := linOf(be.X)
		r, ok2 := linOf(be.Y)
		if !ok1 || !ok2 {
			return "", false
		}
		d := lin{map[string]int64{}, l.k - r.k}
		for k, v := range l.coef {
			d.coef[k] += v
		}
		for k, v := range r.coef {
			d.coef[k] -= v
		}
		op := be.Op
		neg := false
		switch op {
		case token.LSS: // d < 0  ==  -d > 0
			neg, op = true, token.GTR
		case token.LEQ:
			neg, op = true, token.GEQ
		case token.GTR, token.GEQ, token.EQL, token.NEQ:
		default:
			return "", false
		}
		if neg {
			d.k = -d.k
			for k := range d.coef {
				d.coef[k] = -d.coef[k]
			}
		}
		// integers: d > 0  ==  d-1 >= 0
		if op == token.GTR {
			d.k--
			op = token.GEQ
		}
		if op == token.EQL || op == token.NEQ {
			// sign-normalise: first non-zero coefficient (sorted) positive
			ks := []string{}
			for k, v := range d.coef {
				if v != 0 {
					ks = append(ks, k)
				}
			}
			sort.Strings(ks)
			if len(ks) > 0 && d.coef[ks[0]] < 0 {
				d.k = -d.k
				for k := range d.coef {
					d.coef[k] = -d.coef[k]
				}
			}
		}
		ks := []string{}
		for k, v := range d.coef {
			if v != 0 {
				ks = append(ks, k)
			}
		}
		sort.Strings(ks)
		var sb strings.Builder
		for _, k := range ks {
			fmt.Fprintf(&sb, "%+d*%s", d.coef[k], k)
		}
		fmt.Fprintf(&sb, "%+d%s0", d.k, op.String())
		return sb.String(), true
	}
	conds := map[string]*ast.BinaryExpr{}
	ast.Inspect(fi.Decl.Body, func(n ast.Node) bool {
		if be, ok := n.(*ast.BinaryExpr); ok {
			switch be.Op {
			case token.LSS, token.LEQ, token.GTR, token.GEQ, token.EQL, token.NEQ:
				if s, ok := norm(be); ok {
					conds[s] = be
				}
			}
		}
		return true
	})
	// expected canonical forms
	stop := "-1*limit-1*offset+1*rowIndex+0>=0" // rowIndex >= limit+offset
	unbounded := "+1*limit+0!=0"                // limit != 0 (also matches limit == 0 negated: checked separately)
	skip := "-1*offset+1*rowIndex-1>=0"         // rowIndex > offset
	_, hasStop := conds[stop]
	_, hasUnb := conds[unbounded]
	_, hasUnbEq := conds["+1*limit+0==0"]
	_, hasSkip := conds[skip]
	var got []string
	for k := range conds {
		got = append(got, k)
	}
	sort.Strings(got)
	c.Check(hasStop, rule, "limitNode.Next:stop-test", fi.Decl.Pos(), "stop ⇔ rowIndex ≥ limit+offset", fmt.Sprintf("no test equivalent to rowIndex >= limit+offset (linear forms found: %v) — the node would return one row too many or too few", got))
	c.Check(hasUnb || hasUnbEq, rule, "limitNode.Next:limit0-unbounded", fi.Decl.Pos(), "limit 0 ⇒ unbounded", fmt.Sprintf("no test of limit against 0 (forms: %v)", got))
	c.Check(hasSkip, rule, "limitNode.Next:offset-skip", fi.Decl.Pos(), "row returned ⇔ rowIndex > offset after increment", fmt.Sprintf("no test equivalent to rowIndex > offset (forms: %v)", got))
	// rowIndex must be incremented by exactly one per fetched row, between the child's Next and the skip test
	incOK := false
	ast.Inspect(fi.Decl.Body, func(n ast.Node) bool {
		switch s := n.(type) {
		case *ast.IncDecStmt:
			if s.Tok == token.INC && isFieldNamed(info, s.X, "rowIndex") {
				incOK = true
			}
		case *ast.AssignStmt:
			if len(s.Lhs) == 1 && isFieldNamed(info, s.Lhs[0], "rowIndex") {
				if s.Tok == token.ADD_ASSIGN {
					if k, ok := eng.IntConst(info, s.Rhs[0]); ok && k == 1 {
						incOK = true
					}
				} else if s.Tok == token.ASSIGN {
					if l, ok := linOf(s.Rhs[0]); ok && l.k == 1 && l.coef["rowIndex"] == 1 && len(l.coef) == 1 {
						incOK = true
					}
				}
			}
		}
		return true
	})
	c.Check(incOK, rule, "limitNode.Next:rowIndex+1", fi.Decl.Pos(), "rowIndex advanced by one per child row", "rowIndex is not advanced by exactly one per fetched row")
}
