package rules

import (
	"fmt"
	"go/ast"
	"go/token"

	"defracheck/internal/eng"
)

// ruleSeenSet: a slice field that a function appends e to after comparing its elements with e is a
// seen-set (de-duplication of yielded documents). The membership test must look at every element:
// each comparison of an element of the field with e sits in a loop over the field (or the test is
// slices.Contains). A test of one position only lets an already yielded document through again.
func ruleSeenSet(c *eng.Ctx, rule string, pkgs []string, floor int) {
	n := 0
	for _, fi := range c.P.Funcs() {
		if fi.Decl.Body == nil || !pkgMatch(eng.ShortPkg(fi.Pkg.PkgPath), pkgs) || isTestFile(c.P, fi) {
			continue
		}
		info := fi.Pkg.TypesInfo
		// appends: F = append(F, e)
		type app struct {
			field string
			elem  ast.Expr
			pos   token.Pos
		}
		var apps []app
		ast.Inspect(fi.Decl.Body, func(m ast.Node) bool {
			as, ok := m.(*ast.AssignStmt)
			if !ok || len(as.Lhs) != 1 || len(as.Rhs) != 1 {
				return true
			}
			call, ok := as.Rhs[0].(*ast.CallExpr)
			if !ok || len(call.Args) != 2 || call.Ellipsis.IsValid() {
				return true
			}
			if id, ok := call.Fun.(*ast.Ident); !ok || id.Name != "append" {
				return true
			}
			if _, isSel := ast.Unparen(as.Lhs[0]).(*ast.SelectorExpr); !isSel {
				return true
			}
			f := eng.ExprStr(as.Lhs[0])
			if eng.ExprStr(call.Args[0]) != f || eng.ObjOf(info, call.Args[1]) == nil {
				return true
			}
			apps = append(apps, app{f, call.Args[1], as.Pos()})
			return true
		})
		for _, a := range apps {
			eObj := eng.ObjOf(info, a.elem)
			// comparisons of an element of the field with e
			type cmpSite struct {
				pos    token.Pos
				inLoop bool
			}
			var sites []cmpSite
			contains := false
			var stack []ast.Node
			ast.Inspect(fi.Decl.Body, func(m ast.Node) bool {
				if m == nil {
					stack = stack[:len(stack)-1]
					return true
				}
				stack = append(stack, m)
				switch x := m.(type) {
				case *ast.CallExpr:
					if nm := eng.CalleeName(info, x); (nm == "slices.Contains" || nm == "slices.Index") && len(x.Args) == 2 &&
						eng.ExprStr(x.Args[0]) == a.field && eng.ObjOf(info, x.Args[1]) == eObj {
						contains = true
					}
				case *ast.BinaryExpr:
					if x.Op != token.EQL && x.Op != token.NEQ {
						return true
					}
					var other ast.Expr
					if eng.ObjOf(info, x.Y) == eObj {
						other = x.X
					} else if eng.ObjOf(info, x.X) == eObj {
						other = x.Y
					} else {
						return true
					}
					loopVars := map[string]bool{}
					inLoop := false
					for _, s := range stack {
						switch l := s.(type) {
						case *ast.RangeStmt:
							if eng.ExprStr(l.X) == a.field {
								inLoop = true
								if l.Value != nil {
									loopVars[eng.ExprStr(l.Value)] = true
								}
							}
						case *ast.ForStmt:
							if l.Cond != nil {
								ast.Inspect(l.Cond, func(y ast.Node) bool {
									if cc, ok := y.(*ast.CallExpr); ok {
										if id, ok := cc.Fun.(*ast.Ident); ok && id.Name == "len" && len(cc.Args) == 1 && eng.ExprStr(cc.Args[0]) == a.field {
											inLoop = true
										}
									}
									return true
								})
							}
						}
					}
					isElem := false
					if ix, ok := ast.Unparen(other).(*ast.IndexExpr); ok && eng.ExprStr(ix.X) == a.field {
						isElem = true
					}
					if loopVars[eng.ExprStr(other)] {
						isElem = true
					}
					if isElem {
						sites = append(sites, cmpSite{x.Pos(), inLoop})
					}
				}
				return true
			})
			if len(sites) == 0 && !contains {
				continue // plain accumulation, not a seen-set
			}
			n++
			construct := fmt.Sprintf("%s:seen-set(%s)", shortFn(fi), a.field)
			bad := token.NoPos
			for _, s := range sites {
				if !s.inLoop {
					bad = s.pos
				}
			}
			exhaustive := contains
			for _, s := range sites {
				if s.inLoop {
					exhaustive = true
				}
			}
			if bad != token.NoPos || !exhaustive {
				pos := bad
				if pos == token.NoPos {
					pos = a.pos
				}
				c.Bad(rule, construct, pos, "the membership test of "+a.field+" against "+eng.ExprStr(a.elem)+" looks at a single position instead of every element before the value is appended: a value seen earlier (not last) passes again — the same document is yielded twice")
				continue
			}
			c.OK(rule, construct, a.pos, "membership test ranges over the whole of "+a.field)
		}
	}
	c.Floor(rule, n, floor)
}
