package rules

import (
	"fmt"
	"go/ast"
	"go/token"
	"go/types"
	"strings"

	"defracheck/internal/eng"
)

// ruleSeenSet: a slice field that a function appends e to after comparing its elements with e is a
// seen-set (de-duplication of yielded documents). The membership test must look at every element:
// each comparison of an element of the field with e sits in a loop over the field (or the test is
// slices.Contains). A test of one position only lets an already yielded document through again.
func ruleSeenSet(c *eng.Ctx, rule string, pkgs []string, floor int) {
	n := 0
	for _, fi := range c.P.Funcs() {
		if fi.Decl.Body == nil || !pkgMatch(eng.ShortPkg(fi.Pkg.PkgPath), pkgs) || isTestFile(c.P, fi) {
			continue
		}
		info := fi.Pkg.TypesInfo
		// appends: F = append(F, e)
		type app struct {
			field string
			elem  ast.Expr
			pos   token.Pos
		}
		var apps []app
		ast.Inspect(fi.Decl.Body, func(m ast.Node) bool {
			as, ok := m.(*ast.AssignStmt)
			if !ok || len(as.Lhs) != 1 || len(as.Rhs) != 1 {
				return true
			}
			call, ok := as.Rhs[0].(*ast.CallExpr)
			if !ok || len(call.Args) != 2 || call.Ellipsis.IsValid() {
				return true
			}
			if id, ok := call.Fun.(*ast.Ident); !ok || id.Name != "append" {
				return true
			}
			if _, isSel := ast.Unparen(as.Lhs[0]).(*ast.SelectorExpr); !isSel {
				return true
			}
			f := eng.ExprStr(as.Lhs[0])
			if eng.ExprStr(call.Args[0]) != f || eng.ObjOf(info, call.Args[1]) == nil {
				return true
			}
			apps = append(apps, app{f, call.Args[1], as.Pos()})
			return true
		})
		// map-based seen-sets: `if _, ok := x.F[e]; ok {…}` … `x.F[e] = …` on a struct field — exhaustive by construction
		ast.Inspect(fi.Decl.Body, func(m ast.Node) bool {
			as, ok := m.(*ast.AssignStmt)
			if !ok || len(as.Lhs) != 1 {
				return true
			}
			ix, ok := ast.Unparen(as.Lhs[0]).(*ast.IndexExpr)
			if !ok {
				return true
			}
			if _, isMap := info.TypeOf(ix.X).Underlying().(*types.Map); !isMap {
				return true
			}
			if _, isSel := ast.Unparen(ix.X).(*ast.SelectorExpr); !isSel {
				return true
			}
			field, key := eng.ExprStr(ix.X), eng.ExprStr(ix.Index)
			tested := false
			ast.Inspect(fi.Decl.Body, func(x ast.Node) bool {
				if a2, ok := x.(*ast.AssignStmt); ok && len(a2.Lhs) == 2 && len(a2.Rhs) == 1 {
					if ix2, ok := ast.Unparen(a2.Rhs[0]).(*ast.IndexExpr); ok && eng.ExprStr(ix2.X) == field && eng.ExprStr(ix2.Index) == key {
						tested = true
					}
				}
				return true
			})
			if tested {
				n++
				c.OK(rule, fmt.Sprintf("%s:seen-set(%s)", shortFn(fi), field), as.Pos(), "map-based membership test")
			}
			return true
		})
		for _, a := range apps {
			eObj := eng.ObjOf(info, a.elem)
			// comparisons of an element of the field with e
			type cmpSite struct {
				pos    token.Pos
				inLoop bool
			}
			var sites []cmpSite
			contains := false
			var stack []ast.Node
			ast.Inspect(fi.Decl.Body, func(m ast.Node) bool {
				if m == nil {
					stack = stack[:len(stack)-1]
					return true
				}
				stack = append(stack, m)
				switch x := m.(type) {
				case *ast.CallExpr:
					if nm := eng.CalleeName(info, x); (nm == "slices.Contains" || nm == "slices.Index") && len(x.Args) == 2 &&
						eng.ExprStr(x.Args[0]) == a.field && eng.ObjOf(info, x.Args[1]) == eObj {
						contains = true
					}
				case *ast.BinaryExpr:
					if x.Op != token.EQL && x.Op != token.NEQ {
						return true
					}
					var other ast.Expr
					if eng.ObjOf(info, x.Y) == eObj {
						other = x.X
					} else if eng.ObjOf(info, x.X) == eObj {
						other = x.Y
					} else {
						return true
					}
					loopVars := map[string]bool{}
					inLoop := false
					for _, s := range stack {
						switch l := s.(type) {
						case *ast.RangeStmt:
							if eng.ExprStr(l.X) == a.field {
								inLoop = true
								if l.Value != nil {
									loopVars[eng.ExprStr(l.Value)] = true
								}
							}
						case *ast.ForStmt:
							if l.Cond != nil {
								ast.Inspect(l.Cond, func(y ast.Node) bool {
									if cc, ok := y.(*ast.CallExpr); ok {
										if id, ok := cc.Fun.(*ast.Ident); ok && id.Name == "len" && len(cc.Args) == 1 && eng.ExprStr(cc.Args[0]) == a.field {
											inLoop = true
										}
									}
									return true
								})
							}
						}
					}
					isElem := false
					if ix, ok := ast.Unparen(other).(*ast.IndexExpr); ok && eng.ExprStr(ix.X) == a.field {
						isElem = true
					}
					if loopVars[eng.ExprStr(other)] {
						isElem = true
					}
					if isElem {
						sites = append(sites, cmpSite{x.Pos(), inLoop})
					}
				}
				return true
			})
			if len(sites) == 0 && !contains {
				continue // plain accumulation, not a seen-set
			}
			n++
			construct := fmt.Sprintf("%s:seen-set(%s)", shortFn(fi), a.field)
			bad := token.NoPos
			for _, s := range sites {
				if !s.inLoop {
					bad = s.pos
				}
			}
			exhaustive := contains
			for _, s := range sites {
				if s.inLoop {
					exhaustive = true
				}
			}
			if bad != token.NoPos || !exhaustive {
				pos := bad
				if pos == token.NoPos {
					pos = a.pos
				}
				c.Bad(rule, construct, pos, "the membership test of "+a.field+" against "+eng.ExprStr(a.elem)+" looks at a single position instead of every element before the value is appended: a value seen earlier (not last) passes again — the same document is yielded twice")
				continue
			}
			c.OK(rule, construct, a.pos, "membership test ranges over the whole of "+a.field)
		}
	}
	c.Floor(rule, n, floor)
}

// ruleOrderDirectionCarried: an order condition is (field path, direction); a literal that names
// the path but not the direction silently orders ascending. Every keyed OrderCondition literal in
// the planner sets Direction explicitly.
func ruleOrderDirectionCarried(c *eng.Ctx, rule string) {
	n := 0
	for _, fi := range c.P.Funcs() {
		if fi.Decl.Body == nil || !pkgMatch(eng.ShortPkg(fi.Pkg.PkgPath), []string{"internal/planner/...", "internal/request/..."}) || isTestFile(c.P, fi) {
			continue
		}
		info := fi.Pkg.TypesInfo
		ord := 0
		ast.Inspect(fi.Decl.Body, func(m ast.Node) bool {
			cl, ok := m.(*ast.CompositeLit)
			if !ok {
				return true
			}
			t := info.TypeOf(cl)
			if t == nil {
				return true
			}
			tn := eng.TypeName(t)
			if tn != "internal/planner/mapper.OrderCondition" && tn != "client/request.OrderCondition" {
				return true
			}
			ord++
			n++
			construct := fmt.Sprintf("%s:OrderCondition-literal#%d", shortFn(fi), ord)
			if len(cl.Elts) == 0 {
				c.OK(rule, construct, cl.Pos(), "empty literal (filled field by field)")
				return true
			}
			hasDir, keyed := false, false
			for _, el := range cl.Elts {
				if kv, ok := el.(*ast.KeyValueExpr); ok {
					keyed = true
					if id, ok := kv.Key.(*ast.Ident); ok && id.Name == "Direction" {
						hasDir = true
					}
				}
			}
			c.Check(!keyed || hasDir, rule, construct, cl.Pos(), "direction set explicitly",
				"an order condition is built from a field path without its direction: a descending order is silently evaluated ascending (and the order node may already have been removed in favour of the index)")
			return true
		})
	}
	c.Floor(rule, n, 3)
}

// ruleJoinEnd: a join iterator reports end of iteration — `return false` with a nil(-able) error —
// only when its first-side source is exhausted. A first-side document that yields nothing (no
// related document, filtered out, not readable) must be skipped, not end the iteration: everything
// after it would be dropped. Checked for every (bool, error) method of invertibleTypeJoin: at each
// `return false, E`, under the assumption "no error so far and every source Next() returned true",
// the enclosing conditions must be unsatisfiable.
func ruleJoinEnd(c *eng.Ctx) {
	const rule = "JOIN-END"
	n := 0
	for _, fi := range c.P.FuncsIn("internal/planner") {
		if fi.Decl.Body == nil || !strings.Contains(fi.Name, "(*invertibleTypeJoin)") || isTestFile(c.P, fi) {
			continue
		}
		sig := fi.Obj.Type().(*types.Signature)
		if sig.Results().Len() != 2 || !eng.IsErrorType(sig.Results().At(1).Type()) {
			continue
		}
		if b, ok := sig.Results().At(0).Type().Underlying().(*types.Basic); !ok || b.Kind() != types.Bool {
			continue
		}
		info := fi.Pkg.TypesInfo
		// bools assigned from a Next() call
		hasVars := map[types.Object]bool{}
		errVars := map[types.Object]bool{}
		ast.Inspect(fi.Decl.Body, func(m ast.Node) bool {
			as, ok := m.(*ast.AssignStmt)
			if !ok || len(as.Rhs) != 1 {
				return true
			}
			call, ok := ast.Unparen(as.Rhs[0]).(*ast.CallExpr)
			if !ok {
				return true
			}
			if se, ok := call.Fun.(*ast.SelectorExpr); ok && se.Sel.Name == "Next" && len(as.Lhs) == 2 {
				if o := eng.ObjOf(info, as.Lhs[0]); o != nil {
					hasVars[o] = true
				}
			}
			for _, l := range as.Lhs {
				if o := eng.ObjOf(info, l); o != nil && eng.IsErrorType(o.Type()) {
					errVars[o] = true
				}
			}
			return true
		})
		atom := func(e ast.Expr) eng.Tri {
			if o := eng.ObjOf(info, e); o != nil && hasVars[o] {
				return eng.True
			}
			for o := range errVars {
				if is, nonNilWhenTrue := eng.ErrNilTest(info, e, o); is {
					return eng.TriOf(!nonNilWhenTrue) // err == nil assumed
				}
			}
			return eng.Unknown
		}
		var stack []ast.Node
		ord := 0
		ast.Inspect(fi.Decl.Body, func(m ast.Node) bool {
			if m == nil {
				stack = stack[:len(stack)-1]
				return true
			}
			stack = append(stack, m)
			r, ok := m.(*ast.ReturnStmt)
			if !ok || len(r.Results) != 2 {
				return true
			}
			if tv, ok := info.Types[r.Results[0]]; !ok || tv.Value == nil || tv.Value.ExactString() != "false" {
				return true
			}
			ord++
			n++
			construct := fmt.Sprintf("%s:return-false#%d", shortFn(fi), ord)
			// conjunction of enclosing if-conditions (then-branches; else-branches negated)
			feasible := true
			for i, s := range stack {
				is, ok := s.(*ast.IfStmt)
				if !ok || i+1 >= len(stack) {
					continue
				}
				t := eng.EvalBool(info, is.Cond, atom)
				inThen := stack[i+1] == ast.Node(is.Body)
				if inThen && t == eng.False || !inThen && stack[i+1] == is.Else && t == eng.True {
					feasible = false
				}
			}
			c.Check(!feasible, rule, construct, r.Pos(), "reached only on an error or when the first side is exhausted",
				"the join reports end of iteration although no error occurred and its source still has documents: a first-side document with nothing to yield ends the join instead of being skipped, every later match is dropped")
			return true
		})
	}
	c.Floor(rule, n, 3)
}

// ruleJoinInvertGuards: two necessary conditions for "the same answer whether or not an index lets
// the planner invert the join".
// (a) The inverted join only produces parents that have a related document, so the planner may
// invert on a relation filter only after establishing that a parent without a related document does
// not satisfy it: every call of invertJoinDirectionWithIndex in tryOptimizeJoinDirectionByFilter is
// preceded by mapper.RunFilter(<mapping>.NewDoc(), …) whose positive result leaves the iteration.
// (b) After the inversion the parent side is fetched by docID; its scan must not keep a secondary
// index (the index fetcher ignores the requested docID): invertJoinDirectionWithIndex clears the
// parent scan's index on every successful exit.
func ruleJoinInvertGuards(c *eng.Ctx) {
	const rule = "JOIN-INVERT-GUARDS"
	if fi := c.Anchor(rule, "internal/planner.(*Planner).tryOptimizeJoinDirectionByFilter"); fi != nil {
		info := fi.Pkg.TypesInfo
		flow := eng.NewFlow(info, fi.Decl.Body)
		// the probe: v, err := mapper.RunFilter(X.NewDoc(), f)
		var probeVar types.Object
		isProbe := func(nd ast.Node) bool {
			as, ok := nd.(*ast.AssignStmt)
			if !ok || len(as.Rhs) != 1 {
				return false
			}
			call, ok := ast.Unparen(as.Rhs[0]).(*ast.CallExpr)
			if !ok {
				return false
			}
			direct := func(ci *types.Info, cc *ast.CallExpr) bool {
				if !strings.HasSuffix(eng.CalleeName(ci, cc), "mapper.RunFilter") || len(cc.Args) != 2 {
					return false
				}
				inner, ok := ast.Unparen(cc.Args[0]).(*ast.CallExpr)
				if !ok {
					return false
				}
				se, ok := inner.Fun.(*ast.SelectorExpr)
				return ok && se.Sel.Name == "NewDoc"
			}
			isP := direct(info, call)
			if !isP {
				// a helper of the package that evaluates the filter on an empty document
				if h := c.P.FuncOfObj(eng.Callee(info, call)); h != nil && h.Pkg == fi.Pkg && h != fi && h.Decl.Body != nil {
					if eng.FindCall(h.Decl.Body, false, func(cc *ast.CallExpr) bool { return direct(h.Pkg.TypesInfo, cc) }) != nil {
						isP = true
					}
				}
			}
			if !isP {
				return false
			}
			probeVar = eng.ObjOf(info, as.Lhs[0])
			return true
		}
		n := 0
		for _, cs := range eng.Calls(info, fi.Decl.Body) {
			if !strings.HasSuffix(cs.Name, ".invertJoinDirectionWithIndex") {
				continue
			}
			n++
			var stmt ast.Node
			ast.Inspect(fi.Decl.Body, func(m ast.Node) bool {
				if as, ok := m.(*ast.AssignStmt); ok && as.Pos() <= cs.Call.Pos() && cs.Call.End() <= as.End() {
					stmt = as
				}
				return true
			})
			if stmt == nil {
				c.Unknown(rule, fmt.Sprintf("tryOptimizeJoinDirectionByFilter:invert#%d", n), cs.Call.Pos(), "inversion call not bound in a statement")
				continue
			}
			pt, _ := flow.PointOf(stmt)
			unprobed := flow.ReachesWithout(pt, isProbe, nil)
			// the positive result leaves: an if on the probe variable whose body ends in continue/return,
			// and under probe=true the inversion is unreachable from the probe
			leaves := false
			if probeVar != nil {
				ast.Inspect(fi.Decl.Body, func(m ast.Node) bool {
					is, ok := m.(*ast.IfStmt)
					if !ok || eng.ObjOf(info, is.Cond) != probeVar || len(is.Body.List) == 0 {
						return true
					}
					switch l := is.Body.List[len(is.Body.List)-1].(type) {
					case *ast.BranchStmt:
						leaves = l.Tok == token.CONTINUE || l.Tok == token.BREAK
					case *ast.ReturnStmt:
						leaves = true
					}
					return true
				})
			}
			c.Check(!unprobed && leaves, rule, fmt.Sprintf("tryOptimizeJoinDirectionByFilter:invert#%d:after-null-parent-probe", n), cs.Call.Pos(), "the join is inverted only if a parent without related document fails the relation filter",
				"the join is inverted on a relation filter without first evaluating that filter on a parent that has no related document: conditions a missing relation satisfies (_ne, _nin, _eq: null) then lose exactly those parents once the related field is indexed")
		}
		c.Floor(rule+":invert-sites", n, 1)
	}
	if fi := c.Anchor(rule, "internal/planner.(*invertibleTypeJoin).invertJoinDirectionWithIndex"); fi != nil {
		info := fi.Pkg.TypesInfo
		flow := eng.NewFlow(info, fi.Decl.Body)
		// locals bound to the parent side's scan node
		parentScans := map[types.Object]bool{}
		ast.Inspect(fi.Decl.Body, func(m ast.Node) bool {
			as, ok := m.(*ast.AssignStmt)
			if !ok || len(as.Lhs) != 1 || len(as.Rhs) != 1 {
				return true
			}
			if strings.Contains(eng.ExprStr(as.Rhs[0]), "parentSide.plan") && strings.Contains(eng.ExprStr(as.Rhs[0]), "getNode") {
				if o := eng.ObjOf(info, as.Lhs[0]); o != nil {
					parentScans[o] = true
				}
			}
			return true
		})
		clears := func(nd ast.Node) bool {
			found := false
			ast.Inspect(nd, func(x ast.Node) bool {
				as, ok := x.(*ast.AssignStmt)
				if !ok || len(as.Lhs) != 1 || len(as.Rhs) != 1 {
					return true
				}
				se, ok := ast.Unparen(as.Lhs[0]).(*ast.SelectorExpr)
				if !ok || se.Sel.Name != "index" || !parentScans[eng.ObjOf(info, se.X)] {
					return true
				}
				if call, ok := ast.Unparen(as.Rhs[0]).(*ast.CallExpr); ok && strings.Contains(eng.CalleeName(info, call), "immutable.None") {
					found = true
				}
				if cl, ok := ast.Unparen(as.Rhs[0]).(*ast.CompositeLit); ok && len(cl.Elts) == 0 {
					found = true
				}
				return true
			})
			return found
		}
		// the clearing may sit in `if scan := …; scan != nil { scan.index = None }`: treat the whole if as the guard
		guard := func(nd ast.Node) bool {
			if clears(nd) {
				return true
			}
			return false
		}
		// go/cfg splits an if into cond + body blocks; a clearing inside `if scan != nil {…}` is skipped only
		// when there is no scan node, which is fine: evaluate reachability assuming the nil test holds
		n, bad := 0, token.NoPos
		for _, r := range successReturnsP(c.P, info, fi.Decl) {
			n++
			pt, ok := flow.PointOf(r)
			if !ok {
				continue
			}
			un := flow.ReachesWithout(pt, guard, func(cond ast.Expr, taken bool) bool {
				// `parentScan != nil` is assumed to hold (a join side always has a scan node when it is indexed)
				for o := range parentScans {
					if is, nonNilWhenTrue := eng.ErrNilTest(info, cond, o); is {
						return taken == nonNilWhenTrue
					}
				}
				return true
			})
			if un {
				bad = r.Pos()
			}
		}
		pos := fi.Decl.Pos()
		if bad != token.NoPos {
			pos = bad
		}
		c.Check(n > 0 && bad == token.NoPos && len(parentScans) > 0, rule, "invertJoinDirectionWithIndex:parent-scan-index-cleared", pos, "the parent scan drops its secondary index when the join is inverted",
			"after the inversion the parent documents are fetched by docID but the parent scan keeps the secondary index chosen for its own filter: the index fetcher ignores the docID and yields another document, the join then drops the row")
	}
}
