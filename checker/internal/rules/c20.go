package rules

import (
	"fmt"
	"go/ast"
	"go/token"
	"go/types"
	"golang.org/x/tools/go/cfg"
	"strings"

	"defracheck/internal/eng"
)

func init() {
	register(&Property{
		ID: "C20",
		Rules: []Rule{
			{"EVENT-ONSUCCESS", ruleEventOnSuccess},
			{"FAIL-BEFORE-WRITE", ruleFailBeforeWrite},
			{"COMMIT-CALLBACKS", ruleCommitCallbacks},
			{"EVENT-COLLECTION-ID", ruleEventCollectionID},
			{"EVENT-PAYLOAD", ruleEventPayload},
			{"CONFINEMENT", ruleBusConfinement},
			{"BUS-BLOCKING", ruleBusBlocking},
			{"BUS-SUBSCRIBER-LOCAL", ruleBusSubscriberLocal},
			{"SUB-OWN-CHANGES", ruleSubOwnChanges},
			{"SUB-CID", ruleSubCid},
			{"PEER-CONSUMES", rulePeerConsumes},
		},
		Meta: eng.PropMeta{
			Explanation: "Decides the structural side of 'exactly one notification per committed document commit, only for committed changes, in order': (EVENT-ONSUCCESS) every publication of an update event in the module sits inside a callback registered with the transaction's OnSuccess/OnSuccessAsync (one tabled exception re-announcing already committed heads); (EVENT-PAYLOAD) in save and applyDelete every document-level and collection-level AddDelta is followed, on every non-error path to the function's exit, by exactly one OnSuccess registration whose event carries the Cid and the block bytes returned by that same AddDelta; (CONFINEMENT) all bus commands pass the single commandChannel whose only receiver is the one handleChannel goroutine, which delivers in loop order; (BUS-BLOCKING) delivery to a subscriber is an unconditional blocking send — never a select with a default/timeout arm that could drop a notification; (SUB-CID) a subscription evaluates at the Cid and DocID of the received update event: handleSubscription passes both to ObjectSubscription.ToSelect, which puts them into the select's DocIDsFilter and CIDFilter, and the select is run as built; (PEER-CONSUMES) the peer subscribes to update events and hands each to handleLog. (COMMIT-CALLBACKS) as in C05: success callbacks, which carry every update event, run only when the store commit returned nil. (EVENT-COLLECTION-ID) as in C19. (BUS-SUBSCRIBER-LOCAL) subscribing and unsubscribing touch only the subscriber concerned: handleChannel deletes subscriber ids from an event's set, never the set itself, and creates a set only when the event name has none. (SUB-OWN-CHANGES) a GraphQL subscription sends a result only for events of its own collection (the event's CollectionID is compared with the subscribed collection's id on every path to the send) and judges 'nothing matched' on the selection's items, not on the result map, which is never empty. (FAIL-BEFORE-WRITE) in collection.create the unique-index violation — a failure that depends on the user's input — is detected before the first write; on the current tree it is detected after c.save, so inside an explicit transaction a create that reported an error leaves its document and its notification behind: the recorded known finding of this rule.",
			NotDecided:  "delivery under back-pressure and shutdown, exactly-one results of GraphQL subscriptions against their filter, ordering across concurrent callers (defined by commit completion order at run time)",
		},
	})
}

// ruleEventPayload: each composite/collection AddDelta in the document writers is announced once,
// with its own cid and bytes.
func ruleEventPayload(c *eng.Ctx) {
	const rule = "EVENT-PAYLOAD"
	n := 0
	for _, name := range []string{"internal/db.(*collection).save", "internal/db.(*collection).applyDelete"} {
		fi := c.Anchor(rule, name)
		if fi == nil {
			continue
		}
		info := fi.Pkg.TypesInfo
		flow := eng.NewFlow(info, fi.Decl.Body)
		ord := 0
		ast.Inspect(fi.Decl.Body, func(m ast.Node) bool {
			if _, isLit := m.(*ast.FuncLit); isLit {
				return false
			}
			as, ok := m.(*ast.AssignStmt)
			if !ok || len(as.Rhs) != 1 || len(as.Lhs) != 3 {
				return true
			}
			call, ok := as.Rhs[0].(*ast.CallExpr)
			if !ok || eng.CalleeName(info, call) != "internal/core/block.AddDelta" {
				return true
			}
			link, bytesV, errV := eng.ObjOf(info, as.Lhs[0]), eng.ObjOf(info, as.Lhs[1]), eng.ObjOf(info, as.Lhs[2])
			if id, isID := as.Lhs[1].(*ast.Ident); isID && id.Name == "_" {
				return true // field-level delta: announced through the composite that links it
			}
			n++
			ord++
			construct := fmt.Sprintf("%s:AddDelta#%d(%s,%s)", shortFn(fi), ord, nameOf(link), nameOf(bytesV))
			if link == nil || bytesV == nil {
				c.Bad(rule, construct, call.Pos(), "cid or bytes of a document-level commit discarded")
				return true
			}
			// the event literal built from (link.Cid, bytes)
			var evVar types.Object
			ast.Inspect(fi.Decl.Body, func(x ast.Node) bool {
				as2, ok := x.(*ast.AssignStmt)
				if !ok || len(as2.Lhs) != 1 || len(as2.Rhs) != 1 || as2.Pos() < as.Pos() {
					return true
				}
				cl, ok := ast.Unparen(as2.Rhs[0]).(*ast.CompositeLit)
				if !ok || eng.TypeName(info.TypeOf(cl)) != "event.Update" {
					return true
				}
				cidOK, blockOK := false, false
				for _, e := range cl.Elts {
					kv, ok := e.(*ast.KeyValueExpr)
					if !ok {
						continue
					}
					k, _ := kv.Key.(*ast.Ident)
					if k == nil {
						continue
					}
					switch k.Name {
					case "Cid":
						if se, ok := ast.Unparen(kv.Value).(*ast.SelectorExpr); ok && se.Sel.Name == "Cid" && eng.ObjOf(info, se.X) == link {
							cidOK = true
						}
					case "Block":
						if eng.ObjOf(info, kv.Value) == bytesV {
							blockOK = true
						}
					}
				}
				if cidOK && blockOK {
					evVar = eng.ObjOf(info, as2.Lhs[0])
				}
				return true
			})
			if evVar == nil {
				c.Bad(rule, construct, call.Pos(), "no event.Update{Cid: <this link>.Cid, Block: <these bytes>} is built for this commit: its notification carries another commit's cid/bytes or none")
				return true
			}
			// registrations publishing that event
			isReg := func(nd ast.Node) bool {
				return eng.FindCall(nd, false, func(cc *ast.CallExpr) bool {
					se, ok := cc.Fun.(*ast.SelectorExpr)
					if !ok || (se.Sel.Name != "OnSuccess" && se.Sel.Name != "OnSuccessAsync") || len(cc.Args) != 1 {
						return false
					}
					lit, ok := cc.Args[0].(*ast.FuncLit)
					if !ok {
						// the callback bound to a local first: f := func(){...}; txn.OnSuccess(f)
						if o := eng.ObjOf(info, cc.Args[0]); o != nil {
							ast.Inspect(fi.Decl.Body, func(x ast.Node) bool {
								if as, isAs := x.(*ast.AssignStmt); isAs && len(as.Lhs) == 1 && len(as.Rhs) == 1 && eng.ObjOf(info, as.Lhs[0]) == o {
									if l, isLit := as.Rhs[0].(*ast.FuncLit); isLit {
										lit, ok = l, true
									}
								}
								return true
							})
						}
					}
					return ok && mentionsObj(info, lit, evVar) && eng.FindCall(lit.Body, true, func(pc *ast.CallExpr) bool {
						return strings.HasSuffix(eng.CalleeName(info, pc), ".Publish")
					}) != nil
				}) != nil
			}
			def, _ := flow.PointOf(as)
			edge := func(cond ast.Expr, taken bool) bool {
				t := eng.EvalBool(info, cond, func(e ast.Expr) eng.Tri {
					if errV != nil {
						if is, nonNil := eng.ErrNilTest(info, e, errV); is {
							return eng.TriOf(!nonNil)
						}
					}
					return eng.Unknown
				})
				switch t {
				case eng.True:
					return taken
				case eng.False:
					return !taken
				}
				return true
			}
			// (a) on the success edge no exit is reached before a registration — except error returns of later calls
			missing := false
			var where token.Pos
			reassigned := false
			flow.Forward(def, false, eng.Walk{
				Visit: func(p eng.Point, nd ast.Node) eng.Action {
					if isReg(nd) {
						return eng.Cut
					}
					if a2, ok := nd.(*ast.AssignStmt); ok && a2 != as && errV != nil {
						for _, l := range a2.Lhs {
							if eng.ObjOf(info, l) == errV {
								reassigned = true
							}
						}
					}
					if r, ok := nd.(*ast.ReturnStmt); ok {
						// an error return (of a later failing call) legitimately skips the registration
						if len(r.Results) > 0 {
							last := ast.Unparen(r.Results[len(r.Results)-1])
							if tv, ok := info.Types[last]; !(ok && tv.IsNil()) {
								return eng.Cut
							}
						}
					}
					return eng.Continue
				},
				Edge: func(cond ast.Expr, taken bool) bool {
					if reassigned {
						return true
					}
					return edge(cond, taken)
				},
				OnExit: func(ret *ast.ReturnStmt, b *cfg.Block) eng.Action {
					missing = true
					where = fi.Decl.Body.End()
					if ret != nil {
						where = ret.Pos()
					}
					return eng.Hit
				},
			})
			c.Check(!missing, rule, construct+":announced", call.Pos(), "every success path registers the publication of this commit",
				"the success return at "+c.P.Rel(where)+" is reachable after this AddDelta without registering the publication of its update event: a committed document-level commit is never announced (peers and subscribers miss it)")
			// (b) exactly one registration
			regs := 0
			ast.Inspect(fi.Decl.Body, func(x ast.Node) bool {
				if es, ok := x.(*ast.ExprStmt); ok && isReg(es) {
					regs++
				}
				return true
			})
			c.Check(regs == 1, rule, construct+":once", call.Pos(), "exactly one registration", fmt.Sprintf("%d registrations publish this commit's event", regs))
			return true
		})
	}
	c.Floor(rule, n, 3)
}

func nameOf(o types.Object) string {
	if o == nil {
		return "_"
	}
	return o.Name()
}

// ruleBusBlocking: the command loop delivers to subscribers with unconditional sends.
func ruleBusBlocking(c *eng.Ctx) {
	const rule = "BUS-BLOCKING"
	handle := c.Anchor(rule, "event.(*channelBus).handleChannel")
	if handle == nil {
		return
	}
	// the delivery sites: sends on a channelSub.value channel in the cone of handleChannel (package event)
	decls := coneDecls(c.P, []*eng.FuncInfo{handle}, []string{"event"})
	n := 0
	for _, fi := range decls {
		info := fi.Pkg.TypesInfo
		k := 0
		var selects []*ast.SelectStmt
		ast.Inspect(fi.Decl.Body, func(m ast.Node) bool {
			if s, ok := m.(*ast.SelectStmt); ok {
				selects = append(selects, s)
			}
			return true
		})
		ast.Inspect(fi.Decl.Body, func(m ast.Node) bool {
			send, ok := m.(*ast.SendStmt)
			if !ok || !isFieldNamed(info, send.Chan, "value") {
				return true
			}
			se := ast.Unparen(send.Chan).(*ast.SelectorExpr)
			if eng.TypeName(info.TypeOf(se.X)) != "event.channelSub" {
				return true
			}
			n++
			k++
			inSelect := false
			for _, s := range selects {
				if s.Pos() <= send.Pos() && send.End() <= s.End() && len(s.Body.List) > 1 {
					inSelect = true
				}
			}
			c.Check(!inSelect, rule, fmt.Sprintf("%s:deliver#%d", shortFn(fi), k), send.Pos(), "unconditional blocking send to the subscriber",
				"delivery to a subscriber is one arm of a select with an alternative (default/timeout): a notification of a committed change can be dropped for a slow subscriber")
			return true
		})
	}
	c.Floor(rule, n, 2)
}

func ruleSubCid(c *eng.Ctx) {
	const rule = "SUB-CID"
	fi := c.Anchor(rule, "internal/db.(*DB).handleSubscription")
	if fi == nil {
		return
	}
	info := fi.Pkg.TypesInfo
	n := 0
	for _, cs := range eng.Calls(info, fi.Decl.Body) {
		if !strings.HasSuffix(cs.Name, ".ToSelect") {
			continue
		}
		n++
		// ToSelect(evt.DocID, evt.Cid.String()) with evt the received event.Update
		okDoc, okCid := false, false
		var evt types.Object
		if len(cs.Call.Args) == 2 {
			if se, ok := ast.Unparen(cs.Call.Args[0]).(*ast.SelectorExpr); ok && se.Sel.Name == "DocID" && eng.TypeName(info.TypeOf(se.X)) == "event.Update" {
				okDoc = true
				evt = eng.ObjOf(info, se.X)
			}
			ast.Inspect(cs.Call.Args[1], func(x ast.Node) bool {
				if se, ok := x.(*ast.SelectorExpr); ok && se.Sel.Name == "Cid" && eng.TypeName(info.TypeOf(se.X)) == "event.Update" && eng.ObjOf(info, se.X) == evt {
					okCid = true
				}
				return true
			})
		}
		c.Check(okDoc && okCid, rule, "handleSubscription:ToSelect(evt.DocID,evt.Cid)", cs.Call.Pos(), "selection evaluated at the event's document and commit",
			"the subscription selection is not built from the received update event's DocID and Cid: subscribers see a state other than the commit that triggered the notification")
		// the select built from the event reaches the planner unchanged: no field of it is assigned
		// between ToSelect and RunSelection
		var sel types.Object
		ast.Inspect(fi.Decl.Body, func(x ast.Node) bool {
			if as, ok := x.(*ast.AssignStmt); ok && len(as.Rhs) == 1 && ast.Unparen(as.Rhs[0]) == cs.Call && len(as.Lhs) == 1 {
				sel = eng.ObjOf(info, as.Lhs[0])
			}
			return true
		})
		if sel != nil {
			mutated := token.NoPos
			what := ""
			ast.Inspect(fi.Decl.Body, func(x ast.Node) bool {
				as, ok := x.(*ast.AssignStmt)
				if !ok {
					return true
				}
				for _, l := range as.Lhs {
					root := ast.Unparen(l)
					depth := 0
					for {
						switch y := root.(type) {
						case *ast.SelectorExpr:
							root = ast.Unparen(y.X)
							depth++
							continue
						case *ast.IndexExpr:
							root = ast.Unparen(y.X)
							depth++
							continue
						case *ast.StarExpr:
							root = ast.Unparen(y.X)
							depth++
							continue
						}
						break
					}
					if depth > 0 && eng.ObjOf(info, root) == sel {
						mutated, what = as.Pos(), eng.ExprStr(l)
					}
					if depth == 0 && eng.ObjOf(info, root) == sel && ast.Unparen(as.Rhs[0]) != cs.Call {
						mutated, what = as.Pos(), eng.ExprStr(l)
					}
				}
				return true
			})
			pos := cs.Call.Pos()
			if mutated != token.NoPos {
				pos = mutated
			}
			c.Check(mutated == token.NoPos, rule, "handleSubscription:select-unchanged-until-run", pos, "the select built from the event is run as built",
				"the select built from the update event is modified ("+what+") before it is run: the subscription result is evaluated at another commit/document than the one that triggered it")
		} else {
			c.Unknown(rule, "handleSubscription:select-unchanged-until-run", cs.Call.Pos(), "the result of ToSelect is not bound to a local")
		}
		// evt originates from the subscription message
		if evt != nil {
			fromMsg := false
			ast.Inspect(fi.Decl.Body, func(x ast.Node) bool {
				as, ok := x.(*ast.AssignStmt)
				if ok && len(as.Lhs) >= 1 && eng.ObjOf(info, as.Lhs[0]) == evt && len(as.Rhs) == 1 {
					if ta, ok := ast.Unparen(as.Rhs[0]).(*ast.TypeAssertExpr); ok {
						if se, ok := ast.Unparen(ta.X).(*ast.SelectorExpr); ok && se.Sel.Name == "Data" {
							fromMsg = true
						}
					}
				}
				return true
			})
			c.Check(fromMsg, rule, "handleSubscription:evt-from-message", cs.Call.Pos(), "the event is the payload of the received bus message", "the event used for the selection is not the received message's payload")
		}
	}
	c.Floor(rule, n, 1)
	// the callee side: ObjectSubscription.ToSelect puts its docID parameter into the select's
	// DocIDsFilter and its cid parameter into the select's CIDFilter (as a composite-literal field or
	// by assignment) — otherwise the selection runs at the document's current state, which need not
	// be the state of the commit that triggered the notification.
	if ts := c.Anchor(rule, "client/request.(ObjectSubscription).ToSelect"); ts != nil && ts.Decl.Body != nil {
		tinfo := ts.Pkg.TypesInfo
		var params []types.Object
		for _, f := range ts.Decl.Type.Params.List {
			for _, nm := range f.Names {
				params = append(params, tinfo.Defs[nm])
			}
		}
		mentionsAny := func(e ast.Expr, set map[types.Object]bool) bool {
			found := false
			ast.Inspect(e, func(x ast.Node) bool {
				if id, ok := x.(*ast.Ident); ok && set[tinfo.Uses[id]] {
					found = true
				}
				return true
			})
			return found
		}
		// the parameter, and every local computed from it (x := f(param); y := g(x) …)
		derivedFrom := func(o types.Object) map[types.Object]bool {
			set := map[types.Object]bool{o: true}
			for changed := true; changed; {
				changed = false
				ast.Inspect(ts.Decl.Body, func(x ast.Node) bool {
					as, ok := x.(*ast.AssignStmt)
					if !ok || len(as.Lhs) != len(as.Rhs) {
						return true
					}
					for i, l := range as.Lhs {
						id, isID := ast.Unparen(l).(*ast.Ident)
						if !isID || !mentionsAny(as.Rhs[i], set) {
							continue
						}
						lo := tinfo.Defs[id]
						if lo == nil {
							lo = tinfo.Uses[id]
						}
						if lo != nil && !set[lo] {
							set[lo] = true
							changed = true
						}
					}
					return true
				})
			}
			return set
		}
		mentions := func(e ast.Expr, o types.Object) bool { return mentionsAny(e, derivedFrom(o)) }
		flows := func(field string, o types.Object) bool {
			ok := false
			ast.Inspect(ts.Decl.Body, func(x ast.Node) bool {
				switch y := x.(type) {
				case *ast.KeyValueExpr:
					if id, isID := y.Key.(*ast.Ident); isID && id.Name == field && mentions(y.Value, o) {
						ok = true
					}
				case *ast.AssignStmt:
					for i, l := range y.Lhs {
						if i < len(y.Rhs) && isFieldNamed(tinfo, l, field) && mentions(y.Rhs[i], o) {
							ok = true
						}
						if se, isSel := ast.Unparen(l).(*ast.SelectorExpr); isSel && i < len(y.Rhs) && mentions(y.Rhs[i], o) {
							if inner, isSel2 := ast.Unparen(se.X).(*ast.SelectorExpr); isSel2 && inner.Sel.Name == field {
								ok = true
							}
						}
					}
				}
				return true
			})
			return ok
		}
		if len(params) == 2 && params[0] != nil && params[1] != nil {
			c.Check(flows("DocIDsFilter", params[0]), rule, "ToSelect:docID→DocIDsFilter", ts.Decl.Pos(), "the select is restricted to the event's document",
				"ObjectSubscription.ToSelect does not put its docID parameter into the select's DocIDsFilter: a notification reports documents other than the one that changed")
			c.Check(flows("CIDFilter", params[1]), rule, "ToSelect:cid→CIDFilter", ts.Decl.Pos(), "the select is evaluated at the event's commit",
				"ObjectSubscription.ToSelect does not put its cid parameter into the select's CIDFilter: the subscription filter and result are evaluated on the document's current state, not on the commit that triggered the notification (a matching commit followed quickly by another is not reported, or reported with the later state)")
		} else {
			c.Unknown(rule, "ToSelect:parameters", ts.Decl.Pos(), "anchor-unresolved: ToSelect no longer takes (docID, cid)")
		}
	}
}

func rulePeerConsumes(c *eng.Ctx) {
	const rule = "PEER-CONSUMES"
	// some function of package net subscribes to event.UpdateName and a loop over the subscription's
	// messages calls handleLog for event.Update payloads
	updateName := lookupObj(c.P, "event", "UpdateName")
	subscribed, handled := token.NoPos, token.NoPos
	for _, fi := range c.P.FuncsIn("net") {
		if fi.Decl.Body == nil {
			continue
		}
		info := fi.Pkg.TypesInfo
		for _, cs := range eng.Calls(info, fi.Decl.Body) {
			if strings.HasSuffix(cs.Name, ".Subscribe") && strings.HasPrefix(cs.Name, "event.") {
				for _, a := range cs.Call.Args {
					if selObj(info, a) == updateName {
						subscribed = cs.Call.Pos()
					}
				}
			}
			if cs.Name == "net.(*Peer).handleLog" && fi.Name != "net.(*Peer).handleLog" {
				handled = cs.Call.Pos()
			}
		}
	}
	c.Check(subscribed.IsValid(), rule, "net:subscribes(UpdateName)", subscribed, "the peer subscribes to update events", "package net no longer subscribes to event.UpdateName: committed changes are never pushed to peers")
	c.Check(handled.IsValid(), rule, "net:handleLog-called", handled, "update events are handed to handleLog", "handleLog is never called: update events are received but not processed")
}

// ruleBusSubscriberLocal: the bus keeps, per event name, the set of subscriber ids (b.events[name]).
// Subscribing and unsubscribing are local to the one subscriber concerned:
//   - handleChannel never deletes an entry of b.events itself (that would drop EVERY subscriber of that
//     event name when one of them leaves); it only deletes a subscriber id from an event's set;
//   - a set b.events[name] is (re)created only on the absent edge of a comma-ok lookup of that entry
//     (otherwise a new subscriber would wipe the earlier ones).
//
// Without this, a subscriber that is still registered silently stops receiving committed updates.
func ruleBusSubscriberLocal(c *eng.Ctx) {
	const rule = "BUS-SUBSCRIBER-LOCAL"
	fi := c.Anchor(rule, "event.(*channelBus).handleChannel")
	if fi == nil {
		return
	}
	info := fi.Pkg.TypesInfo
	isEvents := func(e ast.Expr) bool { return isFieldNamed(info, e, "events") }
	flow := eng.NewFlow(info, fi.Decl.Body)
	nDel, nSet := 0, 0
	ast.Inspect(fi.Decl.Body, func(m ast.Node) bool {
		switch x := m.(type) {
		case *ast.CallExpr:
			if id, ok := x.Fun.(*ast.Ident); ok && id.Name == "delete" && len(x.Args) == 2 {
				target := ast.Unparen(x.Args[0])
				if isEvents(target) {
					nDel++
					// dropping the set is harmless only when it is empty: with "the set still has a
					// member" assumed (len(b.events[…]) == 1) the delete must be unreachable
					dpt, _ := flow.PointOf(x)
					reach := flow.Forward(flow.Entry(), true, eng.Walk{
						Visit: func(p eng.Point, _ ast.Node) eng.Action {
							if p == dpt {
								return eng.Hit
							}
							return eng.Continue
						},
						Edge: func(cond ast.Expr, taken bool) bool {
							switch eng.EvalBool(info, cond, func(e ast.Expr) eng.Tri {
								if be, ok := ast.Unparen(e).(*ast.BinaryExpr); ok {
									if lc, ok := ast.Unparen(be.X).(*ast.CallExpr); ok && len(lc.Args) == 1 {
										if id, ok := lc.Fun.(*ast.Ident); ok && id.Name == "len" {
											if lx, ok := ast.Unparen(lc.Args[0]).(*ast.IndexExpr); ok && isEvents(lx.X) {
												if k, ok := eng.IntConst(info, be.Y); ok {
													if r, ok := eng.CmpHolds(be.Op, cmpInt(1, k)); ok {
														return eng.TriOf(r)
													}
												}
											}
										}
									}
								}
								return eng.Unknown
							}) {
							case eng.True:
								return taken
							case eng.False:
								return !taken
							}
							return true
						},
					})
					c.Check(!reach, rule, fmt.Sprintf("handleChannel:delete#%d:one-subscriber-only", nDel), x.Pos(), "an event's set is dropped only when it is empty",
						"an entry of b.events — the whole subscriber set of an event name — is deleted while it can still have members: when one subscriber leaves, every other subscriber of that event silently stops receiving notifications")
				} else if ix, ok := target.(*ast.IndexExpr); ok && isEvents(ix.X) {
					nDel++
					c.OK(rule, fmt.Sprintf("handleChannel:delete#%d:one-subscriber-only", nDel), x.Pos(), "removes one subscriber id from the event's set")
				}
			}
		case *ast.AssignStmt:
			for _, l := range x.Lhs {
				ix, ok := ast.Unparen(l).(*ast.IndexExpr)
				if !ok || !isEvents(ix.X) {
					continue
				}
				nSet++
				construct := fmt.Sprintf("handleChannel:events[name]=…#%d:only-when-absent", nSet)
				// the comma-ok lookup of the same entry
				var probe *ast.AssignStmt
				ast.Inspect(fi.Decl.Body, func(y ast.Node) bool {
					as, ok := y.(*ast.AssignStmt)
					if !ok || len(as.Lhs) != 2 || len(as.Rhs) != 1 {
						return true
					}
					if px, ok := ast.Unparen(as.Rhs[0]).(*ast.IndexExpr); ok && isEvents(px.X) && eng.ExprStr(px.Index) == eng.ExprStr(ix.Index) {
						probe = as
					}
					return true
				})
				if probe == nil {
					c.Bad(rule, construct, x.Pos(), "the subscriber set of an event name is replaced without looking whether one exists: earlier subscribers of that event are dropped")
					continue
				}
				okVar := eng.ObjOf(info, probe.Lhs[1])
				spt, _ := flow.PointOf(x)
				ppt, _ := flow.PointOf(probe)
				unprobed := flow.ReachesWithout(spt, func(nd ast.Node) bool { return nd == ast.Node(probe) }, nil)
				reached := flow.Forward(ppt, false, eng.Walk{
					Visit: func(p eng.Point, nd ast.Node) eng.Action {
						if p == spt {
							return eng.Hit
						}
						if nd == ast.Node(probe) {
							return eng.Cut
						}
						return eng.Continue
					},
					Edge: func(cond ast.Expr, taken bool) bool {
						switch eng.EvalBool(info, cond, func(e ast.Expr) eng.Tri {
							if eng.ObjOf(info, e) == okVar && okVar != nil {
								return eng.True
							}
							return eng.Unknown
						}) {
						case eng.True:
							return taken
						case eng.False:
							return !taken
						}
						return true
					},
				})
				c.Check(!unprobed && !reached, rule, construct, x.Pos(), "a set is created only when the event name has none",
					"the subscriber set of an event name is replaced although one exists: earlier subscribers of that event are dropped")
			}
		}
		return true
	})
	c.Floor(rule, nDel+nSet, 2)
}

// ruleSubOwnChanges: a GraphQL subscription yields a result exactly for the committed changes of its
// own collection that match its filter. The bus carries the update events of every collection (and the
// collection-level commits of branchable ones), so in handleSubscription:
//   - the send of a result is unreachable for an event whose CollectionID differs from the subscribed
//     collection's id (every path to the send passes that comparison; with "differs" assumed the send is
//     not reached) — otherwise a document of another collection is replayed under the subscribed
//     collection's ids and reported as one of its documents, or an error result is sent;
//   - "nothing matched" is not decided by len() of the map RunSelection returns: that map always has the
//     selection's name as its key (holding an empty list), so such a test never skips and one empty
//     result is sent for every non-matching change.
func ruleSubOwnChanges(c *eng.Ctx) {
	const rule = "SUB-OWN-CHANGES"
	fi := c.Anchor(rule, "internal/db.(*DB).handleSubscription")
	if fi == nil {
		return
	}
	info := fi.Pkg.TypesInfo
	var lit *ast.FuncLit
	ast.Inspect(fi.Decl.Body, func(m ast.Node) bool {
		if g, ok := m.(*ast.GoStmt); ok && lit == nil {
			lit, _ = ast.Unparen(g.Call.Fun).(*ast.FuncLit)
		}
		return true
	})
	if lit == nil {
		c.Unknown(rule, "handleSubscription:event-loop", fi.Decl.Pos(), "anchor-unresolved: the goroutine that serves the subscription")
		return
	}
	flow := eng.NewFlow(info, lit.Body)
	// sends of results
	var sends []ast.Node
	ast.Inspect(lit.Body, func(m ast.Node) bool {
		if s, ok := m.(*ast.SendStmt); ok {
			if strings.HasSuffix(eng.TypeName(info.TypeOf(s.Value)), "client.GQLResult") {
				sends = append(sends, s)
			}
		}
		return true
	})
	// a comparison of the event's collection id with another collection id
	cmpTri := func(e ast.Expr) eng.Tri {
		be, ok := ast.Unparen(e).(*ast.BinaryExpr)
		if !ok || (be.Op != token.EQL && be.Op != token.NEQ) {
			return eng.Unknown
		}
		isEvtCol := func(x ast.Expr) bool {
			se, ok := ast.Unparen(x).(*ast.SelectorExpr)
			return ok && se.Sel.Name == "CollectionID" && strings.HasSuffix(eng.TypeName(info.TypeOf(se.X)), "event.Update")
		}
		isColID := func(x ast.Expr) bool {
			s := eng.ExprStr(resolveLocalExpr(info, lit.Body, x))
			return strings.Contains(s, "CollectionID") || strings.Contains(s, "SchemaRoot()")
		}
		if isEvtCol(be.X) && isColID(be.Y) && !isEvtCol(be.Y) || isEvtCol(be.Y) && isColID(be.X) && !isEvtCol(be.X) {
			return eng.TriOf(be.Op == token.NEQ) // assume: the event belongs to another collection
		}
		return eng.Unknown
	}
	hasCmp := func(nd ast.Node) bool {
		found := false
		ast.Inspect(nd, func(x ast.Node) bool {
			if e, ok := x.(ast.Expr); ok && cmpTri(e) != eng.Unknown {
				found = true
			}
			return !found
		})
		return found
	}
	runPos0 := token.NoPos
	for _, cs := range eng.Calls(info, lit.Body) {
		if strings.HasSuffix(cs.Name, "planner.(*Planner).RunSelection") || strings.HasSuffix(cs.Name, "planner.(*Planner).RunRequest") {
			runPos0 = cs.Call.Pos()
		}
	}
	for i, s := range sends {
		spt, ok := flow.PointOf(s)
		if !ok {
			continue
		}
		// go/cfg evaluates the comm clauses of a select before branching: take the point of the clause body
		// paths on which the lookup of the subscribed collection failed are not at issue here (the
		// failure is reported to the subscriber): conditions on an error that lie before the selection
		// is run are taken on their "no error" edge
		runPos := token.NoPos
		for _, cs := range eng.Calls(info, lit.Body) {
			if strings.HasSuffix(cs.Name, "planner.(*Planner).RunSelection") || strings.HasSuffix(cs.Name, "planner.(*Planner).RunRequest") {
				runPos = cs.Call.Pos()
			}
		}
		unguarded := flow.ReachesWithout(spt, hasCmp, func(cond ast.Expr, taken bool) bool {
			if runPos.IsValid() && cond.Pos() < runPos && !hasCmp(cond) {
				switch eng.EvalBool(info, cond, func(e ast.Expr) eng.Tri {
					if be, ok := ast.Unparen(e).(*ast.BinaryExpr); ok && (be.Op == token.EQL || be.Op == token.NEQ) {
						if tv, ok := info.Types[be.Y]; ok && tv.IsNil() && eng.IsErrorType(info.TypeOf(be.X)) {
							return eng.TriOf(be.Op == token.EQL)
						}
					}
					return eng.Unknown
				}) {
				case eng.True:
					return taken
				case eng.False:
					return !taken
				}
			}
			return true
		})
		reached := flow.Forward(flow.Entry(), true, eng.Walk{
			Visit: func(p eng.Point, _ ast.Node) eng.Action {
				if p == spt {
					return eng.Hit
				}
				return eng.Continue
			},
			Edge: func(cond ast.Expr, taken bool) bool {
				// inside the condition that holds the comparison, the lookup of the subscribed
				// collection is taken to have succeeded (`err == nil && evt.CollectionID != …`): a
				// failed lookup is reported to the subscriber by the code that follows
				inCmp := hasCmp(cond) || (runPos0.IsValid() && cond.Pos() < runPos0)
				switch eng.EvalBool(info, cond, func(e ast.Expr) eng.Tri {
					if t := cmpTri(e); t != eng.Unknown {
						return t
					}
					if be, ok := ast.Unparen(e).(*ast.BinaryExpr); ok && inCmp && (be.Op == token.EQL || be.Op == token.NEQ) {
						if tv, ok := info.Types[be.Y]; ok && tv.IsNil() && eng.IsErrorType(info.TypeOf(be.X)) {
							return eng.TriOf(be.Op == token.EQL)
						}
					}
					return eng.Unknown
				}) {
				case eng.True:
					return taken
				case eng.False:
					return !taken
				}
				return true
			},
		})
		c.Check(!unguarded && !reached, rule, fmt.Sprintf("handleSubscription:send#%d:own-collection-only", i+1), s.Pos(), "events of other collections never reach the result channel",
			"a result can be sent for an update event whose CollectionID was not compared with the subscribed collection's id: the change of another collection is replayed under this collection's ids — its document is reported as one of this collection's, or an error result is sent")
	}
	c.Floor(rule, len(sends), 1)
	// the emptiness test
	var mapRes types.Object
	for _, cs := range eng.Calls(info, lit.Body) {
		if strings.HasSuffix(cs.Name, "planner.(*Planner).RunSelection") || strings.HasSuffix(cs.Name, "planner.(*Planner).RunRequest") {
			if as := assignOf(lit.Body, cs.Call); as != nil {
				mapRes = eng.ObjOf(info, as.Lhs[0])
			}
		}
	}
	if mapRes == nil {
		c.Unknown(rule, "handleSubscription:empty-result-skipped", lit.Pos(), "anchor-unresolved: result of RunSelection")
		return
	}
	bad := token.NoPos
	ast.Inspect(lit.Body, func(m ast.Node) bool {
		if call, ok := m.(*ast.CallExpr); ok && len(call.Args) == 1 {
			if id, ok := call.Fun.(*ast.Ident); ok && id.Name == "len" && eng.ObjOf(info, call.Args[0]) == mapRes {
				bad = call.Pos()
			}
		}
		return true
	})
	c.Check(bad == token.NoPos, rule, "handleSubscription:empty-result-skipped", lit.Pos(), "emptiness is judged on the selection's items",
		"'nothing matched' is decided by len() of the map returned by RunSelection, which always holds the selection's name (with an empty list): the test never skips, and one empty result is sent for every change that does not match the filter")
}
