package rules

import (
	"fmt"
	"go/ast"
	"go/types"
	"strings"

	"defracheck/internal/eng"
)

// closureToleranceExceptions: not-found tolerances on block reads inside the merge/apply cone.
var closureToleranceExceptions = map[string]string{}

// ruleClosureNoTolerance: a commit becomes a head only if everything it links to is stored: on the
// merge/apply path a block that cannot be loaded fails the merge. Every test of an error against a
// not-found sentinel (errors.Is(err, ipld.ErrNotFound{}) / corekv.ErrNotFound / a type assertion to
// it) in the merge cone is enumerated and classified by where the error was produced: a read of the
// *block* store (blockLS.Load, Blockstore().Get/Has) must not be tolerated; reads of the encryption
// store (keys may legitimately be missing) and of value/marker keys (absent values) may.
func ruleClosureNoTolerance(c *eng.Ctx) {
	const rule = "CLOSURE-NO-TOLERANCE"
	root := c.Anchor(rule, "internal/db.(*DB).executeMerge")
	if root == nil {
		return
	}
	decls := coneDecls(c.P, []*eng.FuncInfo{root}, []string{"internal/db", "internal/core/block", "internal/core/crdt", "internal/db/id"})
	n := 0
	for _, fi := range decls {
		if fi.Decl.Body == nil {
			continue
		}
		info := fi.Pkg.TypesInfo
		ord := 0
		ast.Inspect(fi.Decl.Body, func(m ast.Node) bool {
			call, ok := m.(*ast.CallExpr)
			if !ok || len(call.Args) != 2 || !strings.HasSuffix(eng.CalleeName(info, call), "errors.Is") {
				return true
			}
			sentinel := eng.ExprStr(call.Args[1])
			if !strings.Contains(sentinel, "ErrNotFound") {
				return true
			}
			errObj := eng.ObjOf(info, call.Args[0])
			if errObj == nil {
				return true
			}
			// producer: the last assignment to the error variable before this test
			var prod *ast.CallExpr
			ast.Inspect(fi.Decl.Body, func(x ast.Node) bool {
				as, ok := x.(*ast.AssignStmt)
				if !ok || as.Pos() >= call.Pos() || len(as.Rhs) != 1 {
					return true
				}
				for _, l := range as.Lhs {
					if eng.ObjOf(info, l) == errObj {
						if pc, ok := ast.Unparen(as.Rhs[0]).(*ast.CallExpr); ok {
							prod = pc
						}
					}
				}
				return true
			})
			ord++
			n++
			class := "other"
			src := ""
			if prod != nil {
				src = eng.ExprStr(prod.Fun)
				nm := eng.CalleeName(info, prod)
				switch {
				case strings.Contains(src, "encBlockLS") || strings.Contains(src, "Encstore"):
					class = "encryption-store"
				case strings.Contains(src, "blockLS") || strings.Contains(src, "Blockstore") || strings.Contains(nm, "loadBlockFromBlockStore") ||
					strings.Contains(nm, "linking.(*LinkSystem).Load") && !strings.Contains(src, "enc"):
					class = "block-store"
				case strings.Contains(nm, "corekv.(Reader).Get") || strings.Contains(nm, "corekv.(Reader).Has"):
					class = "key-value"
				}
			}
			construct := fmt.Sprintf("%s:not-found-test#%d(%s←%s)", shortFn(fi), ord, class, src)
			if class != "block-store" {
				c.OK(rule, construct, call.Pos(), "not-found tolerated on a "+class+" read")
				return true
			}
			// translating the not-found error into another error is not a tolerance: the branch
			// taken when the test holds ends in a return of an error constructor
			translated := false
			ast.Inspect(fi.Decl.Body, func(x ast.Node) bool {
				is, ok := x.(*ast.IfStmt)
				if !ok || !(is.Cond.Pos() <= call.Pos() && call.End() <= is.Cond.End()) || len(is.Body.List) == 0 {
					return true
				}
				if ue, ok := ast.Unparen(is.Cond).(*ast.UnaryExpr); ok && ue.Op.String() == "!" {
					return true // `if !errors.Is(…)`: the body is the other branch
				}
				if r, ok := is.Body.List[len(is.Body.List)-1].(*ast.ReturnStmt); ok && len(r.Results) > 0 {
					if rc, ok := ast.Unparen(r.Results[len(r.Results)-1]).(*ast.CallExpr); ok && alwaysError(c.P, info, rc, 2) {
						translated = true
					}
				}
				return true
			})
			if translated {
				c.OK(rule, construct, call.Pos(), "the missing block is reported with a more specific error")
				return true
			}
			if why, ok := closureToleranceExceptions[construct]; ok {
				c.OK(rule, construct, call.Pos(), "tabled exception: "+why)
				return true
			}
			c.Bad(rule, construct, call.Pos(), "on the merge path a block that is not in the block store is tolerated ("+src+"): the commit linking to it is merged and becomes a head although part of what it links to is not stored — the stored DAG is no longer closed under links")
			return true
		})
	}
	c.Floor(rule, n, 3)
	_ = types.Universe
}
