package rules

import (
	"fmt"
	"go/ast"
	"go/token"
	"go/types"
	"strings"

	"golang.org/x/tools/go/ssa"

	"defracheck/internal/eng"
)

func init() {
	register(&Property{
		ID: "C19",
		Rules: []Rule{
			{"SCHEMA-CONFINEMENT", ruleSchemaConfinement},
			{"UNKNOWN-FIELD-SKIP", ruleUnknownFieldSkip},
			{"VERSION-SEARCH-EXHAUSTIVE", ruleVersionSearchExhaustive},
			{"FIELD-IDS-ALWAYS", ruleFieldIDsAlways},
			{"FIELD-ID-PREFIX-EXACT", ruleFieldIDPrefixExact},
			{"FIELD-IDS-EVERY-FIELD", ruleFieldIDsEveryField},
			{"EVENT-COLLECTION-ID", ruleEventCollectionID},
			{"VERSION-FLIP", ruleVersionFlip},
			{"MERGE-FRESH-COLLECTION", ruleMergeFreshCollection},
			{"TXN-SHAPE", ruleTxnShape},
		},
		Meta: eng.PropMeta{
			Explanation: "Decides the structural conditions of 'schema evolution never alters existing data': (SCHEMA-CONFINEMENT) the call-graph cones of patchSchema, updateSchema and setActiveSchemaVersion reach the transaction's system store but no accessor of the document data store, head store or block store — evolving a schema cannot touch values, heads or commits; (UNKNOWN-FIELD-SKIP) during a merge a field unknown to the local schema version yields a skipped block (nil CRDT, nil error), never an error — peers on a newer version stay mergeable; (VERSION-FLIP) setActiveSchemaVersion saves the target version as active and, when another version was active, that one as inactive, both before the type system is reloaded, in the caller's transaction; (TXN-SHAPE) PatchSchema/PatchCollection/SetActiveSchemaVersion commit only on success. (VERSION-SEARCH-EXHAUSTIVE) the search for the active version above a version descends into every child version; (FIELD-IDS-ALWAYS) description.SaveCollection assigns short field ids before every successful exit, also for a version saved inactive. (FIELD-IDS-EVERY-FIELD) id.SetShortFieldIDs reports success only after the loop over all fields of the version; (EVENT-COLLECTION-ID) every update event built in internal/db is addressed with the collection version's CollectionID (constant across schema versions), never a version id. (FIELD-ID-PREFIX-EXACT) GetShortFieldID takes over only the entries of the requested collection: its iteration prefix has no trailing separator and also matches the entries of collections 10…19 for collection 1, which must be skipped.",
			NotDecided:  "readability of every document under the active version (lens migrations, defaults), agreement of nodes on different versions over the fields both know for all histories",
		},
	})
}

func ruleSchemaConfinement(c *eng.Ctx) {
	const rule = "SCHEMA-CONFINEMENT"
	c.P.BuildCG()
	for _, name := range []string{"internal/db.(*DB).patchSchema", "internal/db.(*DB).updateSchema", "internal/db.(*DB).setActiveSchemaVersion"} {
		fi := c.Anchor(rule, name)
		if fi == nil {
			continue
		}
		root := c.P.SSAFunc(fi)
		if root == nil {
			c.Unknown(rule, shortFn(fi)+":ssa", fi.Decl.Pos(), "anchor-unresolved: no SSA function")
			continue
		}
		// cone without the query-language reload (SetSchema re-generates types; it reads descriptions only)
		cone := c.P.Cone(root)
		touched := map[string]string{}
		sys := false
		for fn := range cone {
			for _, b := range fn.Blocks {
				for _, in := range b.Instrs {
					ci, ok := in.(ssa.CallInstruction)
					if !ok {
						continue
					}
					cm := ci.Common()
					var m *types.Func
					if cm.IsInvoke() {
						m = cm.Method
					} else if sc := cm.StaticCallee(); sc != nil {
						m, _ = sc.Object().(*types.Func)
					}
					if m == nil || m.Pkg() == nil || !strings.HasPrefix(m.Pkg().Path(), eng.Module) {
						continue
					}
					sig, _ := m.Type().(*types.Signature)
					if sig == nil || sig.Recv() == nil {
						continue
					}
					rt := eng.TypeName(sig.Recv().Type())
					if rt != "internal/datastore.Multistore" && rt != "internal/datastore.Txn" && rt != "client.Txn" && rt != "internal/datastore.BasicTxn" {
						continue
					}
					switch m.Name() {
					case "Datastore", "Headstore", "Blockstore", "Encstore":
						if d := c.P.DeclOf(fn); d != nil {
							touched[m.Name()] = shortFn(d) + " at " + c.P.Rel(ci.Pos())
						}
					case "Systemstore":
						sys = true
					}
				}
			}
		}
		c.Check(sys, rule, shortFn(fi)+":writes-systemstore", fi.Decl.Pos(), "schema evolution works on the system store", "the cone of "+shortFn(fi)+" no longer reaches the system store (rule would be vacuous)")
		c.Check(len(touched) == 0, rule, shortFn(fi)+":no-document-store-access", fi.Decl.Pos(), fmt.Sprintf("cone of %d functions reaches no document/head/block store accessor", len(cone)),
			fmt.Sprintf("the cone of %s reaches document-level stores %v: a schema patch or version switch can read-modify or rewrite existing document values, heads or commits", shortFn(fi), touched))
	}
}

func ruleVersionFlip(c *eng.Ctx) {
	const rule = "VERSION-FLIP"
	fi := c.Anchor(rule, "internal/db.(*DB).setActiveSchemaVersion")
	if fi == nil {
		return
	}
	info := fi.Pkg.TypesInfo
	flow := eng.NewFlow(info, fi.Decl.Body)
	// col.IsActive = true ; SaveCollection(col) ; activeCol.IsActive = false ; SaveCollection(activeCol)
	type flip struct {
		obj  types.Object
		val  string
		stmt *ast.AssignStmt
	}
	var flips []flip
	ast.Inspect(fi.Decl.Body, func(m ast.Node) bool {
		as, ok := m.(*ast.AssignStmt)
		if ok && len(as.Lhs) == 1 && isFieldNamed(info, as.Lhs[0], "IsActive") {
			se := ast.Unparen(as.Lhs[0]).(*ast.SelectorExpr)
			if tv, ok := info.Types[as.Rhs[0]]; ok && tv.Value != nil {
				flips = append(flips, flip{eng.ObjOf(info, se.X), tv.Value.ExactString(), as})
			}
		}
		return true
	})
	var on, off *flip
	for i := range flips {
		if flips[i].val == "true" {
			on = &flips[i]
		} else {
			off = &flips[i]
		}
	}
	c.Check(on != nil && off != nil && on.obj != off.obj, rule, "setActiveSchemaVersion:flips-both", fi.Decl.Pos(), "target set active, previously active set inactive",
		"setActiveSchemaVersion does not set the target version active and the previously active one inactive (two different collection versions): two versions end up active, or none")
	if on == nil || off == nil {
		return
	}
	savedAfter := func(f *flip) bool {
		pt, _ := flow.PointOf(f.stmt)
		// from the flip, every success exit passes SaveCollection(ctx, f.obj)
		leak, _ := flow.ExitsWithout(pt, false, func(nd ast.Node) bool {
			return eng.FindCall(nd, false, func(cc *ast.CallExpr) bool {
				return eng.CalleeName(info, cc) == "internal/db/description.SaveCollection" && len(cc.Args) == 2 && eng.ObjOf(info, cc.Args[1]) == f.obj
			}) != nil
		}, nil)
		return !leak
	}
	c.Check(savedAfter(on), rule, "setActiveSchemaVersion:target-saved", on.stmt.Pos(), "the activated version is persisted", "the target version is marked active in memory but not saved on every path")
	c.Check(savedAfter(off), rule, "setActiveSchemaVersion:previous-saved", off.stmt.Pos(), "the deactivated version is persisted", "the previously active version is marked inactive in memory but not saved on every path: after the switch two versions are active")
	// the deactivation is guarded only by "an active version was found"
	ast.Inspect(fi.Decl.Body, func(m ast.Node) bool {
		is, ok := m.(*ast.IfStmt)
		if ok && is.Body.Pos() <= off.stmt.Pos() && off.stmt.End() <= is.Body.End() {
			_, isIdent := ast.Unparen(is.Cond).(*ast.Ident)
			c.Check(isIdent, rule, "setActiveSchemaVersion:deactivation-guard("+eng.ExprStr(is.Cond)+")", is.Pos(), "deactivation happens whenever an active version was found", "the deactivation of the previously active version depends on "+eng.ExprStr(is.Cond))
		}
		return true
	})
	// the upward search for the active version starts from a root that was determined on every path
	for _, cs := range eng.Calls(info, fi.Decl.Body) {
		if cs.Name != "internal/db.(*DB).getActiveCollectionUp" || len(cs.Call.Args) != 3 {
			continue
		}
		var root types.Object
		ast.Inspect(cs.Call.Args[2], func(x ast.Node) bool {
			if id, ok := x.(*ast.Ident); ok && root == nil {
				if v, ok := info.Uses[id].(*types.Var); ok && !v.IsField() {
					root = v
				}
			}
			return true
		})
		if root == nil {
			continue
		}
		pt, _ := flow.PointOf(cs.Call)
		unassigned := flow.ReachesWithout(pt, func(nd ast.Node) bool {
			as, ok := nd.(*ast.AssignStmt)
			if !ok {
				return false
			}
			for _, l := range as.Lhs {
				if eng.ObjOf(info, l) == root {
					return true
				}
			}
			return false
		}, nil)
		c.Check(!unassigned, rule, "setActiveSchemaVersion:up-search-root-assigned", cs.Call.Pos(), "the upward search starts from a root determined on every path",
			"getActiveCollectionUp is reachable with "+root.Name()+" still at its zero value (no assignment on some path): when the target version is the root of the chain the previously active version is not found and stays active next to it")
	}
	// the type system is reloaded after the saves on the success path
	for _, cs := range eng.Calls(info, fi.Decl.Body) {
		if cs.Name == "internal/db.(*DB).loadSchema" && cs.Call.Pos() > on.stmt.Pos() {
			ok := mustPassBefore(fi, flow, cs.Call, happyEdge(info), "internal/db/description.SaveCollection")
			c.Check(ok, rule, "setActiveSchemaVersion:reload-after-save", cs.Call.Pos(), "the query type system is reloaded from the saved descriptions", "loadSchema runs before the version flags are saved: the in-memory type system shows the old active version")
		}
	}
	_ = token.NoPos
}

// ruleMergeFreshCollection: every merge runs against the collection definition read for that very
// merge event (inside the event's goroutine), never against a cached collection object.
func ruleMergeFreshCollection(c *eng.Ctx) {
	const rule = "MERGE-FRESH-COLLECTION"
	fi := c.Anchor(rule, "internal/db.(*DB).handleMessages")
	if fi == nil {
		return
	}
	info := fi.Pkg.TypesInfo
	n := 0
	ast.Inspect(fi.Decl.Body, func(m ast.Node) bool {
		lit, ok := m.(*ast.FuncLit)
		if !ok {
			return true
		}
		for _, cs := range eng.Calls(info, lit.Body) {
			if cs.Name != "internal/db.(*DB).executeMerge" || len(cs.Call.Args) != 3 {
				continue
			}
			n++
			col := eng.ObjOf(info, cs.Call.Args[1])
			fresh := false
			if col != nil && lit.Body.Pos() <= col.Pos() && col.Pos() <= lit.Body.End() {
				// every assignment to col inside the literal is a direct lookup
				all, any := true, false
				ast.Inspect(lit.Body, func(x ast.Node) bool {
					as, ok := x.(*ast.AssignStmt)
					if !ok {
						return true
					}
					for i, l := range as.Lhs {
						if eng.ObjOf(info, l) != col {
							continue
						}
						any = true
						var rhs ast.Expr
						if len(as.Rhs) == 1 {
							rhs = as.Rhs[0]
						} else if i < len(as.Rhs) {
							rhs = as.Rhs[i]
						}
						call, isCall := ast.Unparen(rhs).(*ast.CallExpr)
						if !isCall || eng.CalleeName(info, call) != "internal/db.getCollectionFromCollectionID" {
							all = false
						}
					}
					return true
				})
				fresh = all && any
			}
			c.Check(fresh, rule, fmt.Sprintf("handleMessages:executeMerge#%d:collection-read-per-event", n), cs.Call.Pos(), "the merge uses the collection definition read for this event",
				"executeMerge receives a collection that is not read by getCollectionFromCollectionID inside the event's own goroutine (a cached or shared object): after a schema patch or version switch merges keep running against the stale definition and silently skip the new fields")
		}
		return true
	})
	c.Floor(rule, n, 1)
}

// ruleVersionSearchExhaustive: the search for the currently active version above a given version
// visits every child version: in getActiveCollectionUp every recursive call sits in the range over
// the children of the current version and descends into that loop's element. A positional descent
// (children[0]) leaves the active version of a branched history unfound — setActiveSchemaVersion
// then activates the target without deactivating it, and two versions stay active.
func ruleVersionSearchExhaustive(c *eng.Ctx) {
	const rule = "VERSION-SEARCH-EXHAUSTIVE"
	fi := c.Anchor(rule, "internal/db.(*DB).getActiveCollectionUp")
	if fi == nil {
		return
	}
	info := fi.Pkg.TypesInfo
	var stack []ast.Node
	n := 0
	ast.Inspect(fi.Decl.Body, func(m ast.Node) bool {
		if m == nil {
			stack = stack[:len(stack)-1]
			return true
		}
		stack = append(stack, m)
		call, ok := m.(*ast.CallExpr)
		if !ok || eng.Callee(info, call) != fi.Obj {
			return true
		}
		n++
		good := false
		for _, s := range stack {
			rs, ok := s.(*ast.RangeStmt)
			if !ok {
				continue
			}
			if _, isSlice := info.TypeOf(rs.X).Underlying().(*types.Slice); !isSlice {
				continue
			}
			// the loop's element: its value variable, or a local bound to X[key] / X[key] itself
			elems := map[types.Object]bool{}
			if rs.Value != nil {
				if v := eng.ObjOf(info, rs.Value); v != nil {
					elems[v] = true
				}
			}
			var keyObj types.Object
			if rs.Key != nil {
				keyObj = eng.ObjOf(info, rs.Key)
			}
			isElemExpr := func(e ast.Expr) bool {
				ix, ok := ast.Unparen(e).(*ast.IndexExpr)
				return ok && keyObj != nil && eng.ExprStr(ix.X) == eng.ExprStr(rs.X) && eng.ObjOf(info, ix.Index) == keyObj
			}
			ast.Inspect(rs.Body, func(x ast.Node) bool {
				if as, ok := x.(*ast.AssignStmt); ok && len(as.Lhs) == 1 && len(as.Rhs) == 1 && isElemExpr(as.Rhs[0]) {
					if o := eng.ObjOf(info, as.Lhs[0]); o != nil {
						elems[o] = true
					}
				}
				return true
			})
			for _, a := range call.Args {
				ast.Inspect(a, func(x ast.Node) bool {
					if id, ok := x.(*ast.Ident); ok && elems[info.Uses[id]] {
						good = true
					}
					if e, ok := x.(ast.Expr); ok && isElemExpr(e) {
						good = true
					}
					return true
				})
			}
		}
		c.Check(good, rule, fmt.Sprintf("getActiveCollectionUp:recursion#%d:over-every-child", n), call.Pos(), "the search descends into every child version",
			"the recursive search for the active version does not descend into the element of a loop over all child versions: in a branched version history the active version is not found, so a second version is activated without deactivating it")
		return true
	})
	c.Floor(rule, n, 1)
}

// ruleFieldIDsAlways: every saved collection version has short ids for all of its fields — also a
// version that is saved inactive (documents can be written through its handle, and data written
// before activation must stay readable after it): in description.SaveCollection every success exit
// is preceded by id.SetShortFieldIDs.
func ruleFieldIDsAlways(c *eng.Ctx) {
	const rule = "FIELD-IDS-ALWAYS"
	fi := c.Anchor(rule, "internal/db/description.SaveCollection")
	if fi == nil {
		return
	}
	info := fi.Pkg.TypesInfo
	flow := eng.NewFlow(info, fi.Decl.Body)
	isSet := func(nd ast.Node) bool {
		return eng.FindCall(nd, false, func(cc *ast.CallExpr) bool {
			if strings.HasSuffix(eng.CalleeName(info, cc), "id.SetShortFieldIDs") {
				return true
			}
			// a helper of the same package that makes the call unconditionally at its top level
			if h := c.P.FuncOfObj(eng.Callee(info, cc)); h != nil && h.Pkg == fi.Pkg && h.Decl.Body != nil {
				for _, st := range h.Decl.Body.List {
					if eng.FindCall(st, false, func(c2 *ast.CallExpr) bool {
						return strings.HasSuffix(eng.CalleeName(h.Pkg.TypesInfo, c2), "id.SetShortFieldIDs")
					}) != nil {
						if _, isIf := st.(*ast.IfStmt); !isIf {
							return true
						}
						// `if err := id.SetShortFieldIDs(…); err != nil {…}` is unconditional as well
						if is := st.(*ast.IfStmt); is.Init != nil && eng.FindCall(is.Init, false, func(c3 *ast.CallExpr) bool {
							return strings.HasSuffix(eng.CalleeName(h.Pkg.TypesInfo, c3), "id.SetShortFieldIDs")
						}) != nil {
							return true
						}
					}
				}
			}
			return false
		}) != nil
	}
	n := 0
	for _, r := range successReturnsP(c.P, info, fi.Decl) {
		n++
		pt, ok := flow.PointOf(r)
		if !ok {
			continue
		}
		un := flow.ReachesWithout(pt, isSet, nil)
		c.Check(!un, rule, fmt.Sprintf("SaveCollection:success-return#%d:after-SetShortFieldIDs", n), r.Pos(), "short field ids are assigned before the version is saved",
			"a collection version can be saved without short field ids being assigned to its fields (e.g. when it is saved inactive): fields written through that version are stored under id 0 and are unreadable once the version is activated")
	}
	c.Floor(rule, n, 1)
}

// ruleFieldIDPrefixExact: GetShortFieldID loads "the whole collection's worth" of short field ids by
// iterating the system store with the prefix /field/shortID/<collectionShortID>. That prefix has no
// trailing separator, so for collection 1 it also matches the entries of collections 10…19. Every
// entry it takes over — the store into the cache and the assignment of the result — must therefore be
// unreachable for an entry whose parsed collection id differs from the requested one (or the prefix
// must end in a separator). Otherwise, from the tenth collection on, a field of collection 1 resolves
// to the short id of a same-named field of collection 10: values are decoded under the wrong field
// and field commits are filed under another field's heads.
func ruleFieldIDPrefixExact(c *eng.Ctx) {
	const rule = "FIELD-ID-PREFIX-EXACT"
	fi := c.Anchor(rule, "internal/db/id.GetShortFieldID")
	if fi == nil {
		return
	}
	info := fi.Pkg.TypesInfo
	construct := "GetShortFieldID:entries-of-other-collections-not-taken"
	// the requested collection id (parameter) and the parsed entry
	var want types.Object
	for _, p := range paramObjs(info, fi.Decl) {
		if b, ok := p.Type().Underlying().(*types.Basic); ok && b.Info()&types.IsInteger != 0 {
			want = p
		}
	}
	var parse *ast.AssignStmt
	for _, cs := range eng.Calls(info, fi.Decl.Body) {
		if strings.HasSuffix(cs.Name, "keys.NewFieldIDFromString") {
			parse = assignOf(fi.Decl.Body, cs.Call)
		}
	}
	if want == nil || parse == nil {
		c.Unknown(rule, construct, fi.Decl.Pos(), "anchor-unresolved: collection id parameter / parsed entry")
		return
	}
	// a prefix that ends in a separator needs no filtering
	for _, cs := range eng.Calls(info, fi.Decl.Body) {
		if strings.HasSuffix(cs.Name, ".Iterator") {
			if strings.Contains(eng.ExprStr(cs.Call), `+ "/"`) {
				c.OK(rule, construct, cs.Call.Pos(), "the prefix ends in a separator")
				return
			}
		}
	}
	entry := eng.ObjOf(info, parse.Lhs[0])
	flow := eng.NewFlow(info, fi.Decl.Body)
	ppt, _ := flow.PointOf(parse)
	var resultVars []types.Object
	ast.Inspect(fi.Decl.Body, func(m ast.Node) bool {
		if r, ok := m.(*ast.ReturnStmt); ok && len(r.Results) == 2 {
			if o := eng.ObjOf(info, r.Results[0]); o != nil {
				resultVars = append(resultVars, o)
			}
		}
		return true
	})
	takes := func(nd ast.Node) bool {
		as, ok := nd.(*ast.AssignStmt)
		if !ok || as == parse {
			return false
		}
		for _, l := range as.Lhs {
			if ix, ok := ast.Unparen(l).(*ast.IndexExpr); ok {
				if _, isMap := info.TypeOf(ix.X).Underlying().(*types.Map); isMap {
					return true
				}
			}
			for _, rv := range resultVars {
				if eng.ObjOf(info, l) == rv && as.Tok == token.ASSIGN {
					return true
				}
			}
		}
		return false
	}
	where := token.NoPos
	taken := flow.Forward(ppt, false, eng.Walk{
		Visit: func(_ eng.Point, nd ast.Node) eng.Action {
			if nd == ast.Node(parse) {
				return eng.Cut
			}
			if takes(nd) {
				where = nd.Pos()
				return eng.Hit
			}
			return eng.Continue
		},
		Edge: func(cond ast.Expr, tk bool) bool {
			switch eng.EvalBool(info, cond, func(e ast.Expr) eng.Tri {
				be, ok := ast.Unparen(e).(*ast.BinaryExpr)
				if !ok || (be.Op != token.EQL && be.Op != token.NEQ) {
					return eng.Unknown
				}
				isEntryID := func(x ast.Expr) bool {
					se, ok := ast.Unparen(x).(*ast.SelectorExpr)
					return ok && se.Sel.Name == "CollectionShortID" && eng.ObjOf(info, se.X) == entry
				}
				isWant := func(x ast.Expr) bool { return eng.ObjOf(info, x) == want }
				if isEntryID(be.X) && isWant(be.Y) || isEntryID(be.Y) && isWant(be.X) {
					return eng.TriOf(be.Op == token.NEQ) // assume: the entry belongs to another collection
				}
				return eng.Unknown
			}) {
			case eng.True:
				return tk
			case eng.False:
				return !tk
			}
			return true
		},
	})
	c.Check(!taken, rule, construct, parse.Pos(), "an entry of another collection is skipped",
		"an entry whose collection id differs from the requested one is still taken over at "+c.P.Rel(where)+" (the iteration prefix has no trailing separator, so collection 1 also sees the entries of collections 10…19): a field of the requested collection resolves to another collection's short id")
}
