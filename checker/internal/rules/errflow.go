package rules

import (
	"fmt"
	"go/ast"
	"go/types"
	"golang.org/x/tools/go/ssa"
	"sort"
	"strings"

	"defracheck/internal/eng"
)

// errSiteRec is an analysed error-producing call with its stable construct key.
type errSiteRec struct {
	Fn        *eng.FuncInfo
	Site      eng.ErrSite
	Construct string
}

// errSitesOf analyses one source function (its body and every nested function literal).
func errSitesOf(fi *eng.FuncInfo) []errSiteRec {
	if fi.Decl.Body == nil {
		return nil
	}
	info := fi.Pkg.TypesInfo
	eng.AlwaysErr = func(info *types.Info, call *ast.CallExpr) bool { return alwaysError(fi.Prog, info, call, 2) }
	var named []types.Object
	if fi.Decl.Type.Results != nil {
		for _, f := range fi.Decl.Type.Results.List {
			for _, n := range f.Names {
				named = append(named, info.Defs[n])
			}
		}
	}
	var out []errSiteRec
	ord := map[string]int{}
	add := func(sites []eng.ErrSite) {
		for _, s := range sites {
			callee := s.Callee
			if callee == "" {
				callee = "dynamic:" + eng.ExprStr(s.Call.Fun)
			}
			k := shortFn(fi) + "→" + callee
			ord[k]++
			out = append(out, errSiteRec{Fn: fi, Site: s, Construct: fmt.Sprintf("%s#%d", k, ord[k])})
		}
	}
	add(eng.ErrFlow(info, fi.Decl.Body, named))
	ast.Inspect(fi.Decl.Body, func(n ast.Node) bool {
		if lit, ok := n.(*ast.FuncLit); ok {
			var ln []types.Object
			if lit.Type.Results != nil {
				for _, f := range lit.Type.Results.List {
					for _, nm := range f.Names {
						ln = append(ln, info.Defs[nm])
					}
				}
			}
			// captured named results of the enclosing function count as well
			add(eng.ErrFlow(info, lit.Body, append(ln, named...)))
		}
		return true
	})
	return out
}

// DebugErrFlow prints every finding in the given packages (module-relative paths; prefix match with /...).
func DebugErrFlow(p *eng.Program, pkgs []string) {
	n, bad := 0, 0
	for _, fi := range p.Funcs() {
		if !pkgMatch(eng.ShortPkg(fi.Pkg.PkgPath), pkgs) {
			continue
		}
		for _, r := range errSitesOf(fi) {
			n++
			if r.Site.Finding != nil {
				bad++
				f := r.Site.Finding
				fmt.Printf("%s\t%s\t%s\t%s -> exit %s\n", p.Rel(r.Site.Call.Pos()), f.Kind, r.Construct, f.Detail, p.Rel(f.Where))
			}
		}
	}
	fmt.Printf("sites=%d findings=%d\n", n, bad)
}

func pkgMatch(pk string, pats []string) bool {
	for _, pat := range pats {
		if strings.HasSuffix(pat, "/...") {
			base := strings.TrimSuffix(pat, "/...")
			if pk == base || strings.HasPrefix(pk, base+"/") {
				return true
			}
		} else if pk == pat {
			return true
		}
	}
	return false
}

func sortedKeys[M ~map[string]V, V any](m M) []string {
	var ks []string
	for k := range m {
		ks = append(ks, k)
	}
	sort.Strings(ks)
	return ks
}

// errflowExceptions: confirmed, legitimate minority cases (one named construct + reason each).
// Key: construct without ordinal suffix is NOT accepted — the full construct must match.
var errflowExceptions = map[string]string{
	"datastore.(*bstore).Put→github.com/sourcenetwork/corekv.(Reader).Has#1": "Has is an optimisation probe ('Has is cheaper than Set'): on its failure the block is written anyway and Set's error is what the caller gets",
	// deferred best-effort cleanup of a read-only plan after the result/err has already been decided;
	// the plan's Close touches no persistent state (iterators of the same txn, which is discarded/committed by the caller)
	"db.(*collection).updateWithFilter→internal/planner.(planNode).Close#1":            "deferred Close of the selection plan: logged by design (source comment), result already decided; iterators die with the txn",
	"db.(*collection).deleteWithFilter→internal/planner.(planNode).Close#1":            "deferred Close of the selection plan: logged by design, result already decided",
	"db.(*collection).get→internal/db/fetcher.(Fetcher).Close#1":                       "Close on an error exit: the original error is returned (explicit `_ =`)",
	"db.(*collection).get→internal/db/fetcher.(Fetcher).Close#2":                       "Close on an error exit: the original error is returned (explicit `_ =`)",
	"db.(*collection).get→internal/db/fetcher.(Fetcher).Close#3":                       "Close on the not-found exit: the not-found result is returned (explicit `_ =`)",
	"db.isUpdatingIndexedFields→client.(*Document).GetValue#1":                         "GetValue error means 'field not set' (documented in the source comment); both errors are inspected by the switch",
	"db.isUpdatingIndexedFields→client.(*Document).GetValue#2":                         "GetValue error means 'field not set'; inspected by the switch",
	"planner.(*parallelNode).Prefixes→internal/planner.(*parallelNode).applyToPlans#1": "the callback passed here always returns nil (Prefixes has no error result); explicit `_ =`",
	"planner.(*Planner).RunRequest→internal/planner.(planNode).Close#1":                "deferred Close of the executed plan after the result and error were decided; the assignment targets a non-result variable, so the close error is dropped — no state decision depends on it",
	"planner.(*Planner).executeAndExplainRequest→internal/planner.(planNode).Start#1":  "explain-execute reports the failure inside the explain result by design (executionSuccess=false)",
	"db.(*DB).basicExport→client.(*Document).Get#1":                                    "Get error means the relation field is not set on this document (inspected with `err == nil`)",
	"db.(*DB).basicExport→internal/db.(*collection).Get#1":                             "a foreign key whose target cannot be read is exported as null by design (dangling relation); noted: a storage fault is treated the same way",
	"db.(*DB).handleSubscription→internal/db.(*DB).NewTxn#1":                           "subscription evaluation goroutine (read-only, after the triggering commit): a failed NewTxn is logged and the event skipped; delivery completeness is the undecided remainder of C20",
}

// ruleErrFlowCone applies the error-flow rule to every storage-derived error produced inside the
// call-graph cone of the roots, restricted to the given packages.
func ruleErrFlowCone(c *eng.Ctx, rule string, roots []string, pkgs []string, floor int) {
	var rootFns []*eng.FuncInfo
	for _, r := range roots {
		if fi := c.Anchor(rule, r); fi != nil {
			rootFns = append(rootFns, fi)
		}
	}
	if len(rootFns) == 0 {
		return
	}
	decls := coneDecls(c.P, rootFns, pkgs)
	n := 0
	for _, fi := range decls {
		for _, r := range errSitesOf(fi) {
			if !storageDerived(c.P, fi, r.Site.Call) {
				continue
			}
			n++
			f := r.Site.Finding
			if f == nil {
				c.OK(rule, r.Construct, r.Site.Call.Pos(), "error reaches a return/sink on every non-nil path")
				continue
			}
			if why, ok := errflowExceptions[r.Construct]; ok {
				c.OK(rule, r.Construct, r.Site.Call.Pos(), "tabled exception: "+why)
				continue
			}
			if f.Kind == "dropped" && f.InDefer && strings.HasSuffix(f.Callee, ".Close") {
				c.OK(rule, r.Construct, r.Site.Call.Pos(), "deferred Close (accepted idiom: releases a read resource; no state decision depends on it)")
				continue
			}
			c.Bad(rule, r.Construct, r.Site.Call.Pos(), fmt.Sprintf("storage-derived error %s: %s (exit at %s)", f.Kind, f.Detail, c.P.Rel(f.Where)))
		}
	}
	c.Floor(rule, n, floor)
	c.Notes = append(c.Notes, fmt.Sprintf("%s: cone of %v = %d source functions in %v", rule, roots, len(decls), pkgs))
}

func coneDecls(p *eng.Program, roots []*eng.FuncInfo, pkgs []string) []*eng.FuncInfo {
	var fns []*ssa.Function
	for _, r := range roots {
		if f := p.SSAFunc(r); f != nil {
			fns = append(fns, f)
		}
	}
	cone := p.Cone(fns...)
	var out []*eng.FuncInfo
	for _, fi := range p.ConeDecls(cone) {
		if pkgMatch(eng.ShortPkg(fi.Pkg.PkgPath), pkgs) {
			out = append(out, fi)
		}
	}
	return out
}

// storageDerived: the call may yield an error that originates in the key-value layer.
func storageDerived(p *eng.Program, fi *eng.FuncInfo, call *ast.CallExpr) bool {
	info := fi.Pkg.TypesInfo
	if cal := eng.Callee(info, call); cal != nil {
		if eng.IsStorageFunc(cal) {
			return true
		}
		if d := p.FuncOfObj(cal); d != nil {
			if f := p.SSAFunc(d); f != nil && p.StorageReaching(f) {
				return true
			}
		}
	}
	for _, f := range p.CalleesAt(call.Lparen) {
		if p.StorageReaching(f) {
			return true
		}
		if o, ok := f.Object().(*types.Func); ok && eng.IsStorageFunc(o) {
			return true
		}
	}
	return false
}
