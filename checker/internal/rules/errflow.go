package rules

import (
	"fmt"
	"go/ast"
	"go/types"
	"sort"
	"strings"

	"defracheck/internal/eng"
)

// errSiteRec is an analysed error-producing call with its stable construct key.
type errSiteRec struct {
	Fn        *eng.FuncInfo
	Site      eng.ErrSite
	Construct string
}

// errSitesOf analyses one source function (its body and every nested function literal).
func errSitesOf(fi *eng.FuncInfo) []errSiteRec {
	if fi.Decl.Body == nil {
		return nil
	}
	info := fi.Pkg.TypesInfo
	var named []types.Object
	if fi.Decl.Type.Results != nil {
		for _, f := range fi.Decl.Type.Results.List {
			for _, n := range f.Names {
				named = append(named, info.Defs[n])
			}
		}
	}
	var out []errSiteRec
	ord := map[string]int{}
	add := func(sites []eng.ErrSite) {
		for _, s := range sites {
			callee := s.Callee
			if callee == "" {
				callee = "dynamic:" + eng.ExprStr(s.Call.Fun)
			}
			k := shortFn(fi) + "→" + callee
			ord[k]++
			out = append(out, errSiteRec{Fn: fi, Site: s, Construct: fmt.Sprintf("%s#%d", k, ord[k])})
		}
	}
	add(eng.ErrFlow(info, fi.Decl.Body, named))
	ast.Inspect(fi.Decl.Body, func(n ast.Node) bool {
		if lit, ok := n.(*ast.FuncLit); ok {
			var ln []types.Object
			if lit.Type.Results != nil {
				for _, f := range lit.Type.Results.List {
					for _, nm := range f.Names {
						ln = append(ln, info.Defs[nm])
					}
				}
			}
			// captured named results of the enclosing function count as well
			add(eng.ErrFlow(info, lit.Body, append(ln, named...)))
		}
		return true
	})
	return out
}

// DebugErrFlow prints every finding in the given packages (module-relative paths; prefix match with /...).
func DebugErrFlow(p *eng.Program, pkgs []string) {
	n, bad := 0, 0
	for _, fi := range p.Funcs() {
		if !pkgMatch(eng.ShortPkg(fi.Pkg.PkgPath), pkgs) {
			continue
		}
		for _, r := range errSitesOf(fi) {
			n++
			if r.Site.Finding != nil {
				bad++
				f := r.Site.Finding
				fmt.Printf("%s\t%s\t%s\t%s -> exit %s\n", p.Rel(r.Site.Call.Pos()), f.Kind, r.Construct, f.Detail, p.Rel(f.Where))
			}
		}
	}
	fmt.Printf("sites=%d findings=%d\n", n, bad)
}

func pkgMatch(pk string, pats []string) bool {
	for _, pat := range pats {
		if strings.HasSuffix(pat, "/...") {
			base := strings.TrimSuffix(pat, "/...")
			if pk == base || strings.HasPrefix(pk, base+"/") {
				return true
			}
		} else if pk == pat {
			return true
		}
	}
	return false
}

func sortedKeys[M ~map[string]V, V any](m M) []string {
	var ks []string
	for k := range m {
		ks = append(ks, k)
	}
	sort.Strings(ks)
	return ks
}
