package rules

import "strconv"

func unq(s string) (string, error) { return strconv.Unquote(s) }
