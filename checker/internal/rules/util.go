package rules

import (
	"strconv"
	"strings"

	"defracheck/internal/eng"
)

func unq(s string) (string, error) { return strconv.Unquote(s) }

func isTestFile(p *eng.Program, fi *eng.FuncInfo) bool {
	return strings.HasSuffix(p.Fset.Position(fi.Decl.Pos()).Filename, "_test.go")
}
