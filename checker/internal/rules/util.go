package rules

import (
	"go/ast"
	"go/token"
	"go/types"
	"strconv"
	"strings"

	"defracheck/internal/eng"
)

func unq(s string) (string, error) { return strconv.Unquote(s) }

func isTestFile(p *eng.Program, fi *eng.FuncInfo) bool {
	return strings.HasSuffix(p.Fset.Position(fi.Decl.Pos()).Filename, "_test.go")
}

// resolveLocalExpr follows a plain local variable to the expression it was defined from, when the
// variable has exactly one assignment in body (`v := expr`, one-to-one), up to three steps. Anything
// else is returned unchanged. Used by rules that identify WHAT is compared or passed, so that hoisting
// an operand into a local does not change the verdict.
func resolveLocalExpr(info *types.Info, body *ast.BlockStmt, e ast.Expr) ast.Expr {
	for step := 0; step < 3; step++ {
		id, ok := ast.Unparen(e).(*ast.Ident)
		if !ok {
			return e
		}
		o := info.ObjectOf(id)
		if _, isVar := o.(*types.Var); !isVar || o == nil {
			return e
		}
		var rhs ast.Expr
		n := 0
		ast.Inspect(body, func(m ast.Node) bool {
			switch x := m.(type) {
			case *ast.AssignStmt:
				for i, l := range x.Lhs {
					if lid, ok := l.(*ast.Ident); ok && info.ObjectOf(lid) == o {
						n++
						if len(x.Lhs) == len(x.Rhs) {
							rhs = x.Rhs[i]
						} else {
							rhs = nil
							n++
						}
					}
				}
			case *ast.RangeStmt:
				for _, l := range []ast.Expr{x.Key, x.Value} {
					if lid, ok := l.(*ast.Ident); ok && info.ObjectOf(lid) == o {
						n += 2
					}
				}
			case *ast.UnaryExpr:
				if x.Op == token.AND {
					if lid, ok := ast.Unparen(x.X).(*ast.Ident); ok && info.ObjectOf(lid) == o {
						n += 2
					}
				}
			case *ast.IncDecStmt:
				if lid, ok := ast.Unparen(x.X).(*ast.Ident); ok && info.ObjectOf(lid) == o {
					n += 2
				}
			}
			return true
		})
		if n != 1 || rhs == nil {
			return e
		}
		e = rhs
	}
	return e
}
