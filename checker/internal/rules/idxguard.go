package rules

import (
	"fmt"
	"go/ast"
	"go/token"
	"go/types"
	"strings"

	"defracheck/internal/eng"
)

// indexGuardExceptions: constant-index accesses that are safe for a reason a local length test does not show.
var indexGuardExceptions = map[string]string{
	"planner.(*Planner).View:col.Version().Sources[0]#1":                          "View is called only from getCollectionScanPlan's `len(col.Version().QuerySources()) > 0` arm: a view collection has at least one source",
	"planner.(*Planner).expandGroupNodePlan:topNodeSelect.group.dataSources[0]#1": "GroupBy always builds at least one data source (source comment: 'GroupBy must always have at least one data source'; the no-child-select arm appends one)",
	"planner.(*groupNode).Source:n.dataSources[0]#1":                              "same constructor invariant of groupNode.dataSources",
	"planner.(*lensNode).toDoc:properties[0]#1":                                   "properties has len(mapDoc) elements and the access sits in the loop over mapDoc, so it is non-empty; index is the constant core.DocIDFieldIndex",
	"planner.(*operationNode).Next:child.Value().Fields[0]#1":                     "a topLevelNode's value is the document built by its mapping, which always has the single aggregate field at index 0",
	"planner.findFilteredByRelationFields:indices[0]#1":                           "values of DocumentMapping.IndexesByName are created by Add, which appends: never empty",
	"planner.findIndexByFilteringField$1:path[0]#1":                               "filter.TraverseFields calls back with the path of a field condition: at least the field name",
	"planner.findOrderedByRelationFields:ordering.FieldIndexes[0]#1":              "an OrderCondition is built by the mapper from a field path: at least one index",
	"planner.findOrderedByRelationFields:ordering.FieldIndexes[1]#1":              "guarded by the first index addressing a child mapping: an order on a relation always names a sub field (source comment: 'must exist, otherwise the query would ill-formed')",
	"planner.getMapPropList:props[0]#2":                                           "callers (getDocProp, the recursion on props[1:] after the len == 1 return) pass at least one element",
}

// ruleIndexGuard: inside the request planner, a constant index into a slice (`s[0]`, `x.f[1]`) is
// dominated by a test of that slice's length (or sits in a range over it / after an append to it /
// on a slice built by a literal or make with a constant size). A request must never panic.
func ruleIndexGuard(c *eng.Ctx, rule string, pkgs []string, floor int) {
	n := 0
	for _, fi := range c.P.Funcs() {
		if fi.Decl.Body == nil || !pkgMatch(eng.ShortPkg(fi.Pkg.PkgPath), pkgs) {
			continue
		}
		info := fi.Pkg.TypesInfo
		forEachBody(fi, func(body *ast.BlockStmt, label string) {
			var flow *eng.FlowGraph
			ord := map[string]int{}
			inspectNoLits(body, func(m ast.Node) {
				ix, ok := m.(*ast.IndexExpr)
				if !ok {
					return
				}
				if _, isSlice := info.TypeOf(ix.X).Underlying().(*types.Slice); !isSlice {
					return
				}
				k, isConst := eng.IntConst(info, ix.Index)
				if !isConst {
					return
				}
				base := eng.ExprStr(ix.X)
				// only slices reached through a field or parameter (request-derived shapes); locals built here are judged by their construction
				n++
				key := label + ":" + base + fmt.Sprintf("[%d]", k)
				ord[key]++
				construct := fmt.Sprintf("%s#%d", key, ord[key])
				if why, ok := indexGuardExceptions[construct]; ok {
					c.OK(rule, construct, ix.Pos(), "tabled exception: "+why)
					return
				}
				if flow == nil {
					flow = eng.NewFlow(info, body)
				}
				if indexGuarded(info, flow, body, ix, base, k) {
					c.OK(rule, construct, ix.Pos(), "dominated by a length test / construction of sufficient size")
					return
				}
				c.Bad(rule, construct, ix.Pos(), fmt.Sprintf("%s[%d] is read without a dominating test that %s has more than %d element(s): a request that leaves it shorter panics with index out of range", base, k, base, k))
			})
		})
	}
	c.Floor(rule, n, floor)
}

func indexGuarded(info *types.Info, flow *eng.FlowGraph, body *ast.BlockStmt, ix *ast.IndexExpr, base string, k int64) bool {
	// (a) lexically inside a range over the same slice, or inside `for i := 0; i < len(base); ...`
	inRange := false
	ast.Inspect(body, func(n ast.Node) bool {
		switch s := n.(type) {
		case *ast.RangeStmt:
			if s.Body.Pos() <= ix.Pos() && ix.End() <= s.Body.End() && eng.ExprStr(s.X) == base {
				inRange = true
			}
		}
		return true
	})
	if inRange && k == 0 {
		return true
	}
	// (b) the slice is a local built with enough elements: literal with > k elements, make(.., n>k), or appended to before
	if id, ok := ast.Unparen(ix.X).(*ast.Ident); ok {
		obj := info.ObjectOf(id)
		okBuilt := false
		ast.Inspect(body, func(n ast.Node) bool {
			as, ok := n.(*ast.AssignStmt)
			if !ok || as.Pos() > ix.Pos() {
				return true
			}
			for i, l := range as.Lhs {
				if eng.ObjOf(info, l) != obj || i >= len(as.Rhs) && len(as.Rhs) != 1 {
					continue
				}
				r := as.Rhs[0]
				if len(as.Rhs) == len(as.Lhs) {
					r = as.Rhs[i]
				}
				switch x := ast.Unparen(r).(type) {
				case *ast.CompositeLit:
					if int64(len(x.Elts)) > k {
						okBuilt = true
					}
				case *ast.CallExpr:
					if f, ok := x.Fun.(*ast.Ident); ok {
						if f.Name == "make" && len(x.Args) >= 2 {
							if sz, ok := eng.IntConst(info, x.Args[1]); ok && sz > k {
								okBuilt = true
							}
						}
						if f.Name == "append" && k == 0 && len(x.Args) >= 2 {
							okBuilt = true
						}
					}
					// strings.Split always returns at least one element
					if nm := eng.CalleeName(info, x); (nm == "strings.Split" || nm == "strings.SplitN") && k == 0 {
						okBuilt = true
					}
				}
			}
			return true
		})
		if okBuilt {
			return true
		}
	}
	defs := boolLocalDefs(info, body)
	// (c0) short-circuit guard in the same expression: len(base) > k && base[k]..., len(base) == 0 || base[0]...
	sc := false
	ast.Inspect(body, func(n ast.Node) bool {
		be, ok := n.(*ast.BinaryExpr)
		if !ok || (be.Op != token.LAND && be.Op != token.LOR) {
			return true
		}
		if be.Y.Pos() <= ix.Pos() && ix.End() <= be.Y.End() {
			if edgeProvesLen(info, be.X, be.Op == token.LAND, base, k, defs) {
				sc = true
			}
		}
		return true
	})
	if sc {
		return true
	}
	// (c) every path to the access takes an edge on which len(base) > k is known
	pt, ok := flow.PointOf(ix)
	if !ok {
		return true
	}
	reach := flow.ReachesWithout(pt, func(nd ast.Node) bool { return false }, func(cond ast.Expr, taken bool) bool {
		return !edgeProvesLen(info, cond, taken, base, k, defs)
	})
	if !reach {
		return true
	}
	return false
}

// edgeProvesLen: taking the `taken` edge of cond proves len(base) > k (every assumption
// len(base) == 0..k contradicts the edge).
func edgeProvesLen(info *types.Info, cond ast.Expr, taken bool, base string, k int64, defs map[types.Object]ast.Expr) bool {
	{
		provesEnough := true
		for l := int64(0); l <= k; l++ {
			var atom func(e ast.Expr) eng.Tri
			atom = func(e ast.Expr) eng.Tri {
				// a bool local defined once from a guard expression (hasOrder := x != nil && len(x.s) > 0)
				if id, ok := ast.Unparen(e).(*ast.Ident); ok {
					if d, ok := defs[info.Uses[id]]; ok {
						return eng.EvalBool(info, d, atom)
					}
					return eng.Unknown
				}
				be, ok := ast.Unparen(e).(*ast.BinaryExpr)
				if !ok {
					return eng.Unknown
				}
				isLen := func(x ast.Expr) bool {
					call, ok := ast.Unparen(x).(*ast.CallExpr)
					if !ok || len(call.Args) != 1 {
						return false
					}
					f, ok := call.Fun.(*ast.Ident)
					return ok && f.Name == "len" && eng.ExprStr(call.Args[0]) == base
				}
				op := be.Op
				var cst int64
				var okc bool
				if isLen(be.X) {
					cst, okc = eng.IntConst(info, be.Y)
				} else if isLen(be.Y) {
					cst, okc = eng.IntConst(info, be.X)
					op = eng.FlipOp(op)
				} else {
					return eng.Unknown
				}
				if !okc {
					return eng.Unknown
				}
				r, ok2 := eng.CmpHolds(op, cmpInt(l, cst))
				if !ok2 {
					return eng.Unknown
				}
				return eng.TriOf(r)
			}
			t := eng.EvalBool(info, cond, atom)
			// under len==l the condition has value t; the edge `taken` is possible unless t contradicts it
			possible := t == eng.Unknown || (t == eng.True) == taken
			if possible {
				provesEnough = false
			}
		}
		_ = strings.HasPrefix
		return provesEnough
	}
}

// boolLocalDefs: bool locals with exactly one definition and no other assignment (and whose address
// is not taken): their defining expression can stand in for them in a branch condition, provided
// the operands are not reassigned in between — restricted here to definitions whose operands are
// selector chains and len() calls over parameters/fields that the function never assigns.
func boolLocalDefs(info *types.Info, body *ast.BlockStmt) map[types.Object]ast.Expr {
	count := map[types.Object]int{}
	def := map[types.Object]ast.Expr{}
	assignedRoots := map[types.Object]bool{}
	ast.Inspect(body, func(n ast.Node) bool {
		switch s := n.(type) {
		case *ast.AssignStmt:
			for i, l := range s.Lhs {
				o := eng.ObjOf(info, l)
				if o == nil {
					// x.f = …, x[i] = …: remember the root as assigned
					root := ast.Unparen(l)
					for {
						switch x := root.(type) {
						case *ast.SelectorExpr:
							root = ast.Unparen(x.X)
							continue
						case *ast.IndexExpr:
							root = ast.Unparen(x.X)
							continue
						case *ast.StarExpr:
							root = ast.Unparen(x.X)
							continue
						}
						break
					}
					if ro := eng.ObjOf(info, root); ro != nil {
						assignedRoots[ro] = true
					}
					continue
				}
				count[o]++
				if b, ok := o.Type().Underlying().(*types.Basic); ok && b.Kind() == types.Bool && len(s.Lhs) == len(s.Rhs) {
					def[o] = s.Rhs[i]
				}
			}
		case *ast.UnaryExpr:
			if s.Op == token.AND {
				if o := eng.ObjOf(info, s.X); o != nil {
					count[o] += 2
				}
			}
		case *ast.IncDecStmt:
			if o := eng.ObjOf(info, s.X); o != nil {
				count[o] += 2
			}
		}
		return true
	})
	out := map[types.Object]ast.Expr{}
	for o, d := range def {
		if count[o] != 1 {
			continue
		}
		stable := true
		ast.Inspect(d, func(n ast.Node) bool {
			if id, ok := n.(*ast.Ident); ok {
				if v, isVar := info.Uses[id].(*types.Var); isVar && (count[v] > 1 || assignedRoots[v]) {
					stable = false
				}
			}
			if call, ok := n.(*ast.CallExpr); ok {
				if f, ok := call.Fun.(*ast.Ident); !ok || f.Name != "len" {
					stable = false
				}
			}
			return true
		})
		if stable {
			out[o] = d
		}
	}
	return out
}

// DebugIndexGuard lists the unguarded constant slice indexes of the given packages (advisory scan).
func DebugIndexGuard(p *eng.Program, pkgs []string) {
	c := eng.NewCtx(p, "DEBUG", "debug")
	ruleIndexGuard(c, "INDEX-GUARD", pkgs, 0)
	n := 0
	for _, o := range c.Obs {
		if o.Status != eng.Discharged {
			n++
			fmt.Printf("%s\t%s\n", o.Pos, o.Construct)
		}
	}
	fmt.Printf("sites=%d unguarded=%d\n", len(c.Obs), n)
}
