package rules

import (
	"fmt"
	"go/ast"
	"go/token"
	"go/types"
	"strings"

	"defracheck/internal/eng"
)

func init() {
	register(&Property{
		ID: "C18",
		Rules: []Rule{
			{"TXN-SHAPE", ruleTxnShape},
			{"IMPORT-NUMBER", ruleImportNumber},
			{"IMPORT-STRICT", ruleImportStrict},
			{"IMPORT-IDMAP", ruleImportIDMap},
			{"EXPORT-IDMAP", ruleExportIDMap},
			{"EXPORT-SELFREF", ruleExportSelfRef},
			{"NORMALISE-IDENTITY", ruleNormaliseIdentity},
			{"EXPORT-TOLERATES-DELETED", ruleExportToleratesDeleted},
			{"DECODE-NO-DEFAULTS", ruleDecodeNoDefaults},
			{"EXPORT-NEWID-ONE-PROCEDURE", ruleExportNewIDOneProcedure},
			{"ERRFLOW", func(c *eng.Ctx) {
				ruleErrFlowAll(c, "ERRFLOW", []string{"internal/db.(*DB).basicImport", "internal/db.(*DB).basicExport", "internal/db.writeString"})
			}},
		},
		Meta: eng.PropMeta{
			Explanation: "Decides the structural conditions of export/import fidelity and import atomicity: (TXN-SHAPE) BasicImport runs basicImport inside one transaction that is committed only on success (the Create/Update calls inside run on that explicit transaction); (IMPORT-NUMBER) the JSON decoder that feeds the document constructor preserves integers (UseNumber, typed targets or raw JSON) — it did not on the tree this work started from; repaired (d152973); (IMPORT-STRICT) every error of the decoder (Token/Decode) is returned unconditionally — no decoder error is filtered (a truncated file can not be imported as a successful prefix), and every error of Create/Update/NewDocFromMap aborts; (IMPORT-IDMAP) the self-reference test compares a foreign key with the document's recorded new id (_docIDNew), and both id fields are removed before the document is rebuilt; (EXPORT-IDMAP) every exported document records _docIDNew from the rebuilt document and _docID from the stored one, a self reference is rewritten to the new id, and changed ids are entered into the key-change map used for foreign keys; (ERRFLOW) no error (file, JSON, store) is dropped in import/export. IMPORT-NUMBER accepts documents decoded with UseNumber or kept as json.RawMessage; (EXPORT-SELFREF) the exporter's self-reference tests compare identifiers of the source database only, never a value read from the old→new id map; (NORMALISE-IDENTITY) as in C13 (typed values read back from the store pass the normalisers unchanged, e.g. sub-second DateTime). (EXPORT-TOLERATES-DELETED) GetAllDocIDs also yields deleted documents, and the not-found error of fetching one does not leave basicExport; (DECODE-NO-DEFAULTS) a document decoded from the store (Collection.Get, which the exporter reads through) keeps no schema default for a field with no stored value; (EXPORT-NEWID-ONE-PROCEDURE) the identifier a document gets on import is computed by one procedure, whether the document is being written or referred to — on the current tree it is not (two sites), which is the recorded known finding of this property.",
			NotDecided:  "field-value fidelity for every kind and value (floats, date-times, blobs, JSON), equivalence of a re-export, relation fidelity for all topologies",
		},
	})
}

// ruleErrFlowAll applies the error-flow rule to every error-producing call of the named functions
// (not only storage-derived ones).
func ruleErrFlowAll(c *eng.Ctx, rule string, fns []string) {
	n := 0
	for _, name := range fns {
		fi := c.Anchor(rule, name)
		if fi == nil {
			continue
		}
		for _, r := range errSitesOf(fi) {
			n++
			f := r.Site.Finding
			if f == nil {
				c.OK(rule, r.Construct, r.Site.Call.Pos(), "error reaches a return/sink on every non-nil path")
				continue
			}
			if why, ok := errflowExceptions[r.Construct]; ok {
				c.OK(rule, r.Construct, r.Site.Call.Pos(), "tabled exception: "+why)
				continue
			}
			c.Bad(rule, r.Construct, r.Site.Call.Pos(), fmt.Sprintf("error %s: %s (exit at %s)", f.Kind, f.Detail, c.P.Rel(f.Where)))
		}
	}
	c.Floor(rule, n, 20)
}

func decoderVar(info *types.Info, fd *ast.FuncDecl) types.Object {
	var d types.Object
	ast.Inspect(fd.Body, func(m ast.Node) bool {
		as, ok := m.(*ast.AssignStmt)
		if ok && len(as.Lhs) == 1 && len(as.Rhs) == 1 {
			if call, ok := as.Rhs[0].(*ast.CallExpr); ok && eng.CalleeName(info, call) == "encoding/json.NewDecoder" {
				d = eng.ObjOf(info, as.Lhs[0])
			}
		}
		return true
	})
	return d
}

func ruleImportNumber(c *eng.Ctx) {
	const rule = "IMPORT-NUMBER"
	fi := c.Anchor(rule, "internal/db.(*DB).basicImport")
	if fi == nil {
		return
	}
	info := fi.Pkg.TypesInfo
	d := decoderVar(info, fi.Decl)
	if d == nil {
		c.Unknown(rule, "basicImport:decoder", fi.Decl.Pos(), "anchor-unresolved: json.NewDecoder")
		return
	}
	flow := eng.NewFlow(info, fi.Decl.Body)
	n := 0
	for _, cs := range eng.Calls(info, fi.Decl.Body) {
		if cs.Name != "encoding/json.(*Decoder).Decode" {
			continue
		}
		se := cs.Call.Fun.(*ast.SelectorExpr)
		if eng.ObjOf(info, se.X) != d {
			continue
		}
		// target type: map[string]any / any ⇒ numbers become float64 unless UseNumber was called
		generic, raw := false, false
		if len(cs.Call.Args) == 1 {
			t := info.TypeOf(cs.Call.Args[0])
			if p, ok := t.(*types.Pointer); ok {
				switch u := p.Elem().Underlying().(type) {
				case *types.Map:
					generic = types.IsInterface(u.Elem())
					raw = eng.TypeName(u.Elem()) == "encoding/json.RawMessage"
				case *types.Interface:
					generic = true
				}
			}
		}
		if raw {
			// values kept as raw JSON text: no number is converted by the decoder
			n++
			c.OK(rule, fmt.Sprintf("basicImport:Decode#%d:integers-preserved", n), cs.Call.Pos(), "document values are kept as json.RawMessage")
			continue
		}
		if !generic {
			continue
		}
		n++
		pt, _ := flow.PointOf(cs.Call)
		noUse := flow.ReachesWithout(pt, func(nd ast.Node) bool {
			return eng.FindCall(nd, false, func(cc *ast.CallExpr) bool {
				s, ok := cc.Fun.(*ast.SelectorExpr)
				return ok && s.Sel.Name == "UseNumber" && eng.ObjOf(info, s.X) == d
			}) != nil
		}, nil)
		c.Check(!noUse, rule, fmt.Sprintf("basicImport:Decode#%d:integers-preserved", n), cs.Call.Pos(), "numbers are decoded as json.Number",
			"documents are decoded into map[string]any without Decoder.UseNumber(): every number passes through float64, so integers beyond 2^53 are silently changed by an export/import round trip")
	}
	c.Floor(rule, n, 1)
}

func ruleImportStrict(c *eng.Ctx) {
	const rule = "IMPORT-STRICT"
	fi := c.Anchor(rule, "internal/db.(*DB).basicImport")
	if fi == nil {
		return
	}
	info := fi.Pkg.TypesInfo
	flow := eng.NewFlow(info, fi.Decl.Body)
	n := 0
	ast.Inspect(fi.Decl.Body, func(m ast.Node) bool {
		as, ok := m.(*ast.AssignStmt)
		if !ok || len(as.Rhs) != 1 {
			return true
		}
		call, ok := as.Rhs[0].(*ast.CallExpr)
		if !ok {
			return true
		}
		nm := eng.CalleeName(info, call)
		strict := strings.HasPrefix(nm, "encoding/json.(*Decoder).") || nm == "client.NewDocFromMap" || nm == "client.NewDocFromJSON" || nm == "encoding/json.Marshal" || nm == "encoding/json.Unmarshal" || strings.HasSuffix(nm, ".Create") || strings.HasSuffix(nm, ".Update") || strings.HasSuffix(nm, ".Set") || nm == "internal/db.(*DB).getCollectionByName"
		if !strict {
			return true
		}
		ev := eng.ObjOf(info, as.Lhs[len(as.Lhs)-1])
		if ev == nil || !eng.IsErrorType(ev.Type()) {
			return true
		}
		n++
		// on the non-nil edge the very next thing is a return: no path from the definition reaches a
		// condition that inspects the error's identity (errors.Is / == sentinel) or any non-return code
		def, found := flow.PointOf(as)
		if !found {
			return true
		}
		bad := ""
		flow.Forward(def, false, eng.Walk{
			Visit: func(p eng.Point, nd ast.Node) eng.Action {
				switch x := nd.(type) {
				case *ast.ReturnStmt:
					return eng.Cut
				case ast.Expr:
					if is, _ := eng.ErrNilTest(info, x, ev); is {
						return eng.Continue
					}
					if mentionsObj(info, x, ev) {
						bad = "its error is inspected by " + eng.ExprStr(x)
						return eng.Hit
					}
					return eng.Continue
				case *ast.AssignStmt:
					if x != as {
						for _, l := range x.Lhs {
							if eng.ObjOf(info, l) == ev {
								bad = "its error is overwritten before being returned"
								return eng.Hit
							}
						}
					}
				}
				return eng.Continue
			},
			Edge: func(cond ast.Expr, taken bool) bool {
				t := eng.EvalBool(info, cond, func(e ast.Expr) eng.Tri {
					if is, nonNil := eng.ErrNilTest(info, e, ev); is {
						return eng.TriOf(nonNil)
					}
					return eng.Unknown
				})
				switch t {
				case eng.True:
					return taken
				case eng.False:
					return !taken
				}
				return true
			},
		})
		c.Check(bad == "", rule, fmt.Sprintf("basicImport:%s#%d:error-aborts", nm[strings.LastIndex(nm, ".")+1:], n), call.Pos(), "any failure aborts the import unconditionally",
			"a failure of "+nm+" does not abort the import unconditionally ("+bad+"): a damaged or truncated file can be imported as a successful prefix")
		return true
	})
	c.Floor(rule, n, 6)
}

func ruleImportIDMap(c *eng.Ctx) {
	const rule = "IMPORT-IDMAP"
	fi := c.Anchor(rule, "internal/db.(*DB).basicImport")
	if fi == nil {
		return
	}
	info := fi.Pkg.TypesInfo
	newID := lookupObj(c.P, "client/request", "NewDocIDFieldName")
	oldID := lookupObj(c.P, "client/request", "DocIDFieldName")
	// comparison docMap[K] == val inside the relation-field loop: K must be NewDocIDFieldName
	n := 0
	ast.Inspect(fi.Decl.Body, func(m ast.Node) bool {
		var sides []ast.Expr
		pos := token.NoPos
		switch x := m.(type) {
		case *ast.BinaryExpr:
			if x.Op == token.EQL {
				sides, pos = []ast.Expr{x.X, x.Y}, x.Pos()
			}
		case *ast.CallExpr: // bytes.Equal(docMap[K], val) on raw values
			if nm := eng.CalleeName(info, x); (nm == "bytes.Equal" || nm == "reflect.DeepEqual") && len(x.Args) == 2 {
				sides, pos = x.Args, x.Pos()
			}
		}
		if sides == nil {
			return true
		}
		be := struct{ p token.Pos }{pos}
		for _, side := range sides {
			ix, ok := ast.Unparen(resolveLocalExpr(info, fi.Decl.Body, side)).(*ast.IndexExpr)
			if !ok {
				continue
			}
			k := selObj(info, ix.Index)
			if k == newID || k == oldID {
				n++
				c.Check(k == newID, rule, "basicImport:self-reference-test-uses-new-id", be.p, "a self reference is recognised by the recorded new id",
					"the self-reference test compares the foreign key with "+k.Name()+" instead of the recorded new id: for a document whose id changed on export the self reference is not stripped, the document is created under another id than _docIDNew and its relation dangles")
			}
		}
		return true
	})
	c.Floor(rule, n, 1)
	// both id fields are deleted from the map before NewDocFromMap
	flow := eng.NewFlow(info, fi.Decl.Body)
	for _, cs := range eng.Calls(info, fi.Decl.Body) {
		// the point where the map becomes the document: NewDocFromMap, or json.Marshal of the map
		// (followed by NewDocFromJSON)
		if cs.Name != "client.NewDocFromMap" && cs.Name != "encoding/json.Marshal" {
			continue
		}
		for _, key := range []types.Object{newID, oldID} {
			pt, _ := flow.PointOf(cs.Call)
			un := flow.ReachesWithout(pt, func(nd ast.Node) bool {
				return eng.FindCall(nd, false, func(cc *ast.CallExpr) bool {
					id, ok := cc.Fun.(*ast.Ident)
					return ok && id.Name == "delete" && len(cc.Args) == 2 && selObj(info, cc.Args[1]) == key
				}) != nil
			}, nil)
			c.Check(!un, rule, "basicImport:delete("+key.Name()+")-before-rebuild", cs.Call.Pos(), "the recorded id fields do not enter the rebuilt document",
				key.Name()+" is still in the map when the document is rebuilt: it becomes a field value (or an error) and changes the computed id")
		}
	}
}

func ruleExportIDMap(c *eng.Ctx) {
	const rule = "EXPORT-IDMAP"
	fi := c.Anchor(rule, "internal/db.(*DB).basicExport")
	if fi == nil {
		return
	}
	info := fi.Pkg.TypesInfo
	newID := lookupObj(c.P, "client/request", "NewDocIDFieldName")
	oldID := lookupObj(c.P, "client/request", "DocIDFieldName")
	flow := eng.NewFlow(info, fi.Decl.Body)
	// the write of a document is preceded by docM[NewDocIDFieldName] = newDoc.ID().String() and docM[DocIDFieldName] = doc.ID().String()
	var marshal []*ast.CallExpr
	for _, cs := range eng.Calls(info, fi.Decl.Body) {
		if (cs.Name == "encoding/json.Marshal" || cs.Name == "encoding/json.MarshalIndent") && cs.Lit == nil {
			marshal = append(marshal, cs.Call)
		}
	}
	if len(marshal) == 0 {
		c.Unknown(rule, "basicExport:marshal", fi.Decl.Pos(), "anchor-unresolved: json.Marshal of a document")
		return
	}
	assignKey := func(key types.Object) func(ast.Node) bool {
		return func(nd ast.Node) bool {
			as, ok := nd.(*ast.AssignStmt)
			if !ok || len(as.Lhs) != 1 {
				return false
			}
			ix, ok := ast.Unparen(as.Lhs[0]).(*ast.IndexExpr)
			return ok && selObj(info, ix.Index) == key
		}
	}
	for i, mc := range marshal {
		pt, _ := flow.PointOf(mc)
		for _, key := range []types.Object{newID, oldID} {
			un := flow.ReachesWithout(pt, assignKey(key), nil)
			c.Check(!un, rule, fmt.Sprintf("basicExport:marshal#%d:%s-recorded", i+1, key.Name()), mc.Pos(), "every exported document records the id",
				"a document can be written without "+key.Name()+": the import cannot map old to new identifiers")
		}
	}
	// key-change map written when ids differ, and read for foreign keys
	writes, reads := 0, 0
	ast.Inspect(fi.Decl.Body, func(m ast.Node) bool {
		switch x := m.(type) {
		case *ast.AssignStmt:
			for _, l := range x.Lhs {
				if ix, ok := ast.Unparen(l).(*ast.IndexExpr); ok && strings.Contains(eng.ExprStr(ix.X), "keyChangeCache") {
					writes++
				}
			}
			for _, r := range x.Rhs {
				if ix, ok := ast.Unparen(r).(*ast.IndexExpr); ok && strings.Contains(eng.ExprStr(ix.X), "keyChangeCache") {
					reads++
				}
			}
		}
		return true
	})
	c.Check(writes >= 1 && reads >= 1, rule, "basicExport:key-change-map", fi.Decl.Pos(), "changed ids are recorded and applied to foreign keys", fmt.Sprintf("key-change map writes=%d reads=%d", writes, reads))
	// the old→new map lives for the whole export: it is created outside every loop, so an id that
	// changed while one collection was written is still known when another collection refers to it
	var cacheObj types.Object
	ast.Inspect(fi.Decl.Body, func(m ast.Node) bool {
		if as, ok := m.(*ast.AssignStmt); ok {
			for _, l := range as.Lhs {
				if ix, ok := ast.Unparen(l).(*ast.IndexExpr); ok {
					if mt, ok := info.TypeOf(ix.X).Underlying().(*types.Map); ok && mt.Key().String() == "string" && mt.Elem().String() == "string" {
						if o := eng.ObjOf(info, ix.X); o != nil {
							cacheObj = o
						}
					}
				}
			}
		}
		return true
	})
	if cacheObj == nil {
		c.Unknown(rule, "basicExport:key-change-map-spans-the-export", fi.Decl.Pos(), "anchor-unresolved: the old→new identifier map")
		return
	}
	inLoop := false
	var walk func(n ast.Node, depth int)
	walk = func(n ast.Node, depth int) {
		ast.Inspect(n, func(m ast.Node) bool {
			switch x := m.(type) {
			case *ast.ForStmt:
				walk(x.Body, depth+1)
				return false
			case *ast.RangeStmt:
				walk(x.Body, depth+1)
				return false
			case *ast.FuncLit:
				return false
			case *ast.AssignStmt:
				for _, l := range x.Lhs {
					if id, ok := l.(*ast.Ident); ok && info.Defs[id] == cacheObj && depth > 0 {
						inLoop = true
					}
				}
			case *ast.ValueSpec:
				for _, id := range x.Names {
					if info.Defs[id] == cacheObj && depth > 0 {
						inLoop = true
					}
				}
			}
			return true
		})
	}
	walk(fi.Decl.Body, 0)
	c.Check(!inLoop, rule, "basicExport:key-change-map-spans-the-export", cacheObj.Pos(), "the old→new identifier map is created once per export",
		"the old→new identifier map is created inside a loop, so it is emptied for every collection (or document): a foreign key pointing at a document of an earlier collection whose identifier changed is written with the identifier re-derived from the target's current values — its old one — and dangles after import")
}

// ruleExportSelfRef: while exporting, a document is recognised as referencing itself by comparing
// identifiers of the *source* database (the stored foreign key, or the fetched related document's
// id, against the document's own id). A value taken from keyChangeCache is an identifier of the
// *target* database (the id the related document will have after import) and must not take part in
// that test: after an update the two differ, the self reference is missed and the exported ids no
// longer match each other.
func ruleExportSelfRef(c *eng.Ctx) {
	const rule = "EXPORT-SELFREF"
	fi := c.Anchor(rule, "internal/db.(*DB).basicExport")
	if fi == nil {
		return
	}
	info := fi.Pkg.TypesInfo
	// variables read out of keyChangeCache
	remapped := map[types.Object]bool{}
	var cache types.Object
	ast.Inspect(fi.Decl.Body, func(m ast.Node) bool {
		as, ok := m.(*ast.AssignStmt)
		if !ok || len(as.Rhs) != 1 {
			return true
		}
		if ix, ok := ast.Unparen(as.Rhs[0]).(*ast.IndexExpr); ok {
			if mt, ok := info.TypeOf(ix.X).Underlying().(*types.Map); ok && mt.Key().String() == "string" && mt.Elem().String() == "string" {
				cache = eng.ObjOf(info, ix.X)
				if o := eng.ObjOf(info, as.Lhs[0]); o != nil {
					remapped[o] = true
				}
			}
		}
		return true
	})
	if cache == nil {
		c.Unknown(rule, "basicExport:key-change-cache", fi.Decl.Pos(), "anchor-unresolved: the old→new id map")
		return
	}
	n := 0
	ast.Inspect(fi.Decl.Body, func(m ast.Node) bool {
		is, ok := m.(*ast.IfStmt)
		if !ok {
			return true
		}
		sets := false
		for _, st := range is.Body.List {
			if as, ok := st.(*ast.AssignStmt); ok && len(as.Lhs) == 1 && len(as.Rhs) == 1 {
				if o := eng.ObjOf(info, as.Lhs[0]); o != nil && o.Name() == "isSelfReference" {
					if tv, ok := info.Types[as.Rhs[0]]; ok && tv.Value != nil && tv.Value.ExactString() == "true" {
						sets = true
					}
				}
			}
		}
		if !sets {
			return true
		}
		n++
		usesRemapped := false
		ast.Inspect(is.Cond, func(x ast.Node) bool {
			if id, ok := x.(*ast.Ident); ok && remapped[info.Uses[id]] {
				usesRemapped = true
			}
			if ix, ok := x.(*ast.IndexExpr); ok && eng.ObjOf(info, ix.X) == cache {
				usesRemapped = true
			}
			return true
		})
		c.Check(!usesRemapped, rule, fmt.Sprintf("basicExport:self-reference-test#%d:source-ids-only", n), is.Cond.Pos(), "the self-reference test compares identifiers of the source database",
			"the self-reference test ("+eng.ExprStr(is.Cond)+") uses an identifier read from the old→new id map: for a document that was updated (its new id differs) the self reference is missed, its _docIDNew is computed with the relation included and the foreign keys written for its referrers match no exported document")
		return true
	})
	c.Floor(rule, n, 2)
}
