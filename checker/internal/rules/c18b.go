package rules

import (
	"go/ast"
	"go/token"
	"strconv"
	"strings"

	"defracheck/internal/eng"

	"golang.org/x/tools/go/cfg"
)

// ruleExportToleratesDeleted: Collection.GetAllDocIDs also yields the ids of deleted documents (the
// replicator relies on that). A consumer that fetches each id with showDeleted == false therefore gets
// ErrDocumentNotFoundOrNotAuthorized for them; in basicExport that error must not leave the function —
// otherwise a database in which any document was deleted cannot be exported.
func ruleExportToleratesDeleted(c *eng.Ctx) {
	const rule = "EXPORT-TOLERATES-DELETED"
	fi := c.Anchor(rule, "internal/db.(*DB).basicExport")
	if fi == nil {
		return
	}
	info := fi.Pkg.TypesInfo
	notFound := lookupObj(c.P, "client", "ErrDocumentNotFoundOrNotAuthorized")
	// the channel of ids and the loop over it
	n := 0
	ast.Inspect(fi.Decl.Body, func(m ast.Node) bool {
		rs, ok := m.(*ast.RangeStmt)
		if !ok {
			return true
		}
		src := resolveLocalExpr(info, fi.Decl.Body, rs.X)
		call, ok := ast.Unparen(src).(*ast.CallExpr)
		if !ok {
			// `ch, err := col.GetAllDocIDs(ctx)`: two results, not resolvable by resolveLocalExpr
			if id, isID := ast.Unparen(rs.X).(*ast.Ident); isID {
				if as, _ := assignOfObj(info, fi.Decl.Body, info.ObjectOf(id)).(*ast.AssignStmt); as != nil && len(as.Rhs) == 1 {
					call, _ = ast.Unparen(as.Rhs[0]).(*ast.CallExpr)
				}
			}
		}
		if call == nil || !strings.HasSuffix(eng.CalleeName(info, call), ".GetAllDocIDs") {
			return true
		}
		// the flow graph of ONE iteration: falling off its end or `continue` is not leaving the export
		flow := eng.NewFlow(info, rs.Body)
		for _, cs := range eng.Calls(info, rs.Body) {
			if cs.Lit != nil || !strings.HasSuffix(cs.Name, "client.(Collection).Get") || len(cs.Call.Args) != 3 {
				continue
			}
			// only fetches of the yielded id
			if !mentionsObj(info, cs.Call.Args[1], eng.ObjOf(info, rs.Key)) {
				continue
			}
			n++
			construct := "basicExport:Get(yielded id):deleted-document-does-not-abort"
			if tv, ok := info.Types[cs.Call.Args[2]]; ok && tv.Value != nil && tv.Value.String() == "true" {
				c.OK(rule, construct, cs.Call.Pos(), "deleted documents are fetched (showDeleted)")
				continue
			}
			as := assignOf(fi.Decl.Body, cs.Call)
			if as == nil {
				c.Unknown(rule, construct, cs.Call.Pos(), "result of Get is not assigned")
				continue
			}
			ev := eng.ObjOf(info, as.Lhs[len(as.Lhs)-1])
			pt, _ := flow.PointOf(as)
			where := token.NoPos
			// with the error non-nil and errors.Is(err, ErrDocumentNotFoundOrNotAuthorized) true, no
			// exit of the function is reachable before err is bound again
			leaves := flow.Forward(pt, false, eng.Walk{
				Visit: func(_ eng.Point, nd ast.Node) eng.Action {
					if a2, ok := nd.(*ast.AssignStmt); ok {
						for _, l := range a2.Lhs {
							if eng.ObjOf(info, l) == ev {
								return eng.Cut
							}
						}
					}
					return eng.Continue
				},
				Edge: func(cond ast.Expr, taken bool) bool {
					var atom func(e ast.Expr) eng.Tri
					atom = func(e ast.Expr) eng.Tri {
						if is, nonNil := eng.ErrNilTest(info, e, ev); is {
							return eng.TriOf(nonNil)
						}
						// a bool local holding the test: deleted := errors.Is(err, …)
						if o := eng.ObjOf(info, e); o != nil {
							if def := singleLocalDef(o); def != nil {
								return eng.EvalBool(info, def, atom)
							}
						}
						if ic, ok := ast.Unparen(e).(*ast.CallExpr); ok && strings.HasSuffix(eng.CalleeName(info, ic), "errors.Is") && len(ic.Args) == 2 {
							if eng.ObjOf(info, ic.Args[0]) == ev && selObj(info, ic.Args[1]) == notFound && notFound != nil {
								return eng.True
							}
						}
						return eng.Unknown
					}
					t := eng.EvalBool(info, cond, atom)
					switch t {
					case eng.True:
						return taken
					case eng.False:
						return !taken
					}
					return true
				},
				OnExit: func(ret *ast.ReturnStmt, _ *cfg.Block) eng.Action {
					if ret == nil {
						return eng.Continue
					}
					where = ret.Pos()
					return eng.Hit
				},
			})
			c.Check(!leaves, rule, construct, cs.Call.Pos(), "the not-found error of a deleted document does not end the export",
				"GetAllDocIDs yields deleted documents too, and the not-found error of fetching one leaves basicExport at "+c.P.Rel(where)+": a database with a deleted document cannot be exported")
		}
		return true
	})
	c.Floor(rule, n, 1)
}

// ruleDecodeNoDefaults: a document decoded from the store (fetcher.Decode, behind Collection.Get)
// holds the stored values only. If the constructor it uses pre-populates schema defaults
// (reaches (*Document).setDefaultValues), Decode must reset every field that has a default to nil
// before it applies the stored properties — otherwise a field that was explicitly set to null reads
// back as its default: the export writes the default, and index maintenance sees a wrong old value.
func ruleDecodeNoDefaults(c *eng.Ctx) {
	const rule = "DECODE-NO-DEFAULTS"
	fi := c.Anchor(rule, "internal/db/fetcher.Decode")
	if fi == nil {
		return
	}
	info := fi.Pkg.TypesInfo
	// does a constructor called here reach setDefaultValues? (static callees inside package client, depth 3)
	var reaches func(name string, depth int) bool
	seen := map[string]bool{}
	reaches = func(name string, depth int) bool {
		if strings.HasSuffix(name, "client.(*Document).setDefaultValues") {
			return true
		}
		if depth == 0 || seen[name] {
			return false
		}
		seen[name] = true
		f := c.P.Func(name)
		if f == nil || f.Decl.Body == nil {
			return false
		}
		for _, cs := range eng.Calls(f.Pkg.TypesInfo, f.Decl.Body) {
			if strings.HasPrefix(cs.Name, "client.") && reaches(cs.Name, depth-1) {
				return true
			}
		}
		return false
	}
	var ctor *ast.CallExpr
	for _, cs := range eng.Calls(info, fi.Decl.Body) {
		if strings.HasPrefix(cs.Name, "client.New") && reaches(cs.Name, 3) {
			ctor = cs.Call
		}
	}
	construct := "Decode:no-schema-default-survives-decoding"
	if ctor == nil {
		c.OK(rule, construct, fi.Decl.Pos(), "the document is built without schema defaults")
		return
	}
	// the reset loop: for _, f := range <def>.GetFields() { [if f.DefaultValue == nil { continue }] doc.Set(f.Name, nil) }
	var reset *ast.RangeStmt
	ast.Inspect(fi.Decl.Body, func(m ast.Node) bool {
		rs, ok := m.(*ast.RangeStmt)
		if !ok || rs.Value == nil {
			return true
		}
		if call, ok := ast.Unparen(rs.X).(*ast.CallExpr); !ok || !strings.HasSuffix(eng.CalleeName(info, call), ".GetFields") {
			return true
		}
		fv := eng.ObjOf(info, rs.Value)
		flow := eng.NewFlow(info, rs.Body)
		var set *ast.CallExpr
		for _, cs := range eng.Calls(info, rs.Body) {
			if strings.HasSuffix(cs.Name, "client.(*Document).Set") && len(cs.Call.Args) == 2 && mentionsObj(info, cs.Call.Args[0], fv) {
				if tv, ok := info.Types[cs.Call.Args[1]]; ok && tv.IsNil() {
					set = cs.Call
				}
			}
		}
		if set == nil {
			return true
		}
		// with "the field has a default" assumed, the Set(nil) is reached on every path of the body
		spt, _ := flow.PointOf(set)
		skipped := flow.Forward(flow.Entry(), true, eng.Walk{
			Visit: func(p eng.Point, _ ast.Node) eng.Action {
				if p == spt {
					return eng.Cut
				}
				return eng.Continue
			},
			Edge: func(cond ast.Expr, taken bool) bool {
				t := eng.EvalBool(info, cond, func(e ast.Expr) eng.Tri {
					if be, ok := ast.Unparen(e).(*ast.BinaryExpr); ok && (be.Op == token.EQL || be.Op == token.NEQ) {
						x, y := ast.Unparen(be.X), ast.Unparen(be.Y)
						if tv, ok := info.Types[y]; ok && tv.IsNil() && strings.HasSuffix(eng.ExprStr(x), ".DefaultValue") && mentionsObj(info, x, fv) {
							return eng.TriOf(be.Op == token.NEQ)
						}
					}
					return eng.Unknown
				})
				switch t {
				case eng.True:
					return taken
				case eng.False:
					return !taken
				}
				return true
			},
			OnExit: func(*ast.ReturnStmt, *cfg.Block) eng.Action { return eng.Hit },
		})
		if !skipped {
			reset = rs
		}
		return true
	})
	// … and it comes before the stored properties are applied
	var apply *ast.RangeStmt
	ast.Inspect(fi.Decl.Body, func(m ast.Node) bool {
		if rs, ok := m.(*ast.RangeStmt); ok && rs != reset {
			for _, cs := range eng.Calls(info, rs.Body) {
				if strings.HasSuffix(cs.Name, "client.(*Document).Set") {
					apply = rs
				}
			}
		}
		return true
	})
	ok := reset != nil && apply != nil && reset.End() <= apply.Pos() && ctor.End() <= reset.Pos()
	c.Check(ok, rule, construct, ctor.Pos(), "fields with a default are reset to nil before the stored properties are applied",
		"the decoded document is built by a constructor that pre-populates schema defaults and they are not reset before the stored properties are applied: a field explicitly set to null reads back as its default (export writes the default; index maintenance sees a wrong old value and reports a corrupted index)")
}

// ruleExportNewIDOneProcedure: the identifier a document will have after import is computed from its
// rewritten content (client.NewDocFromMap). The exporter needs that identifier in two situations — when
// it writes the document itself and when another document refers to it before it has been written.
// Both must be the same computation (one call site, or one helper), because the importer recomputes
// the identifier once, from the written content. Two different preparations of the map give two
// different identifiers for one document, and the reference written first dangles.
func ruleExportNewIDOneProcedure(c *eng.Ctx) {
	const rule = "EXPORT-NEWID-ONE-PROCEDURE"
	fi := c.Anchor(rule, "internal/db.(*DB).basicExport")
	if fi == nil {
		return
	}
	info := fi.Pkg.TypesInfo
	var sites []*ast.CallExpr
	for _, cs := range eng.Calls(info, fi.Decl.Body) {
		if cs.Name == "client.NewDocFromMap" || cs.Name == "client.NewDocFromJSON" {
			sites = append(sites, cs.Call)
		}
	}
	if len(sites) == 0 {
		// computed in a helper: fine as long as basicExport calls exactly one helper that does it
		helpers := map[string]bool{}
		for _, cs := range eng.Calls(info, fi.Decl.Body) {
			if f := c.P.Func(cs.Name); f != nil && f.Decl.Body != nil && strings.HasPrefix(cs.Name, "internal/db.") {
				for _, c2 := range eng.Calls(f.Pkg.TypesInfo, f.Decl.Body) {
					if c2.Name == "client.NewDocFromMap" || c2.Name == "client.NewDocFromJSON" {
						helpers[cs.Name] = true
					}
				}
			}
		}
		c.Check(len(helpers) == 1, rule, "basicExport:new-id-computed-by-one-procedure", fi.Decl.Pos(), "the new identifier is computed by one helper",
			"the new identifier of an exported document is computed by "+strings.Join(setKeys(helpers), ", ")+" (expected exactly one procedure)")
		return
	}
	pos := sites[0].Pos()
	c.Check(len(sites) == 1, rule, "basicExport:new-id-computed-by-one-procedure", pos, "the new identifier is computed at one site",
		"basicExport computes the identifier a document gets on import at "+strconv.Itoa(len(sites))+" separate sites with differently prepared content (the document's own export rewrites its foreign keys and strips a self reference; the forward-reference branch does neither for the referenced document): a reference to a document whose own foreign key or self reference changes its identifier is written with an identifier no imported document has")
}
