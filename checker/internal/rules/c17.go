package rules

import (
	"fmt"
	"go/ast"
	"go/constant"
	"go/token"
	"go/types"
	"sort"
	"strings"

	"defracheck/internal/eng"
)

func init() {
	register(&Property{
		ID: "C17",
		Rules: []Rule{
			{"MARKER-PARTITION", ruleMarkerPartition},
			{"MARKER-ORDER", ruleMarkerOrder},
			{"DIRECTION-DISPATCH", ruleDirectionDispatch},
			{"DIRECTION-CONSISTENT", ruleDirectionConsistent},
			{"PREFIX-END-SHAPE", rulePrefixEndShape},
			{"SCALAR-KIND-UNIFORM", ruleScalarKindUniform},
			{"UNWRAP-EQ-TIME", ruleUnwrapEqTime},
			{"KEY-LAYOUT", ruleKeyLayout},
		},
		Meta: eng.PropMeta{
			Explanation: "Order preservation for all value pairs and round-trip equality are numerical statements and are not decided. Decided is the agreement of the writer's and the reader's tables: (MARKER-PARTITION) by constant evaluation of PeekType's case guards over all 256 byte values, every marker constant selects exactly one Type (no two guards overlap), each marker lands in its own family, null is the smallest and descending-null the largest marker (exhaustive, 256 cells); (MARKER-ORDER) inside each family the markers are ordered as the value classes are (NaN < negative < zero < positive < descending-NaN for both float widths, false < true); (DIRECTION-DISPATCH) EncodeFieldValue, DecodeFieldValue and decodeJSON pick the Descending member of a codec family exactly on the descending edge and the Ascending member otherwise, for every kind; (DIRECTION-CONSISTENT) a ...Descending codec never calls an ...Ascending codec of a value (and vice versa) unless it compensates by bitwise inversion, and where a descending codec inverts the arguments it hands to a shared helper (or takes out of one) it inverts all of them — a half-inverted tuple orders one component the wrong way; (KEY-LAYOUT) EncodeIndexDataStoreKey and DecodeIndexDataStoreKey agree on the separator and pass each field's own Descending flag to the value codec. (PREFIX-END-SHAPE) as in C07: the successor of a key prefix is the copy cut after the incremented byte. (SCALAR-KIND-UNIFORM) a GraphQL scalar with a single Go representation returns that representation from ParseLiteral for every literal form (a Float32 bound written as an integer literal is a float32, not a float64), because a filter bound is encoded into the index key under the tag of its Go kind. (UNWRAP-EQ-TIME) an index matcher that compares two unwrapped values with == compares times by instant first, like the _eq/_ne matchers — a DateTime decoded from a key is in UTC, a filter literal keeps its offset.",
			NotDecided:  "that the byte order of encodings equals the value order for every pair of values, and that decode(encode(v)) == v for every value (negative zero, subnormals, extreme integers, strings with 0x00/0xFF)",
		},
	})
}

// evalGuard evaluates a PeekType-style guard with the switch variable bound to m.
func evalGuard(info *types.Info, e ast.Expr, mObj types.Object, m int64) (bool, bool) {
	e = ast.Unparen(e)
	be, ok := e.(*ast.BinaryExpr)
	if !ok {
		return false, false
	}
	switch be.Op {
	case token.LAND, token.LOR:
		a, ok1 := evalGuard(info, be.X, mObj, m)
		b, ok2 := evalGuard(info, be.Y, mObj, m)
		if !ok1 || !ok2 {
			return false, false
		}
		if be.Op == token.LAND {
			return a && b, true
		}
		return a || b, true
	}
	val := func(x ast.Expr) (int64, bool) {
		if eng.ObjOf(info, x) == mObj {
			return m, true
		}
		if tv, ok := info.Types[x]; ok && tv.Value != nil {
			if v, exact := constant.Int64Val(constant.ToInt(tv.Value)); exact {
				return v, true
			}
		}
		return 0, false
	}
	l, ok1 := val(be.X)
	r, ok2 := val(be.Y)
	if !ok1 || !ok2 {
		return false, false
	}
	res, ok := eng.CmpHolds(be.Op, cmpInt(l, r))
	return res, ok
}

func ruleMarkerPartition(c *eng.Ctx) {
	const rule = "MARKER-PARTITION"
	fi := c.Anchor(rule, "internal/encoding.PeekType")
	if fi == nil {
		return
	}
	info := fi.Pkg.TypesInfo
	var sw *ast.SwitchStmt
	var mObj types.Object
	ast.Inspect(fi.Decl.Body, func(n ast.Node) bool {
		if s, ok := n.(*ast.SwitchStmt); ok && s.Tag == nil {
			sw = s
		}
		if as, ok := n.(*ast.AssignStmt); ok && len(as.Lhs) == 1 {
			if ix, ok := ast.Unparen(as.Rhs[0]).(*ast.IndexExpr); ok {
				if k, ok := eng.IntConst(info, ix.Index); ok && k == 0 {
					mObj = eng.ObjOf(info, as.Lhs[0])
				}
			}
		}
		return true
	})
	if sw == nil || mObj == nil {
		c.Unknown(rule, "PeekType:switch", fi.Decl.Pos(), "anchor-unresolved: tagless switch over the first byte")
		return
	}
	type arm struct {
		typ    string
		guards []ast.Expr
	}
	var arms []arm
	for _, cl := range sw.Body.List {
		cc := cl.(*ast.CaseClause)
		if cc.List == nil {
			continue
		}
		a := arm{guards: cc.List}
		for _, st := range cc.Body {
			if r, ok := st.(*ast.ReturnStmt); ok && len(r.Results) == 1 {
				a.typ = eng.ExprStr(r.Results[0])
			}
		}
		arms = append(arms, a)
	}
	// table byte -> set of arms whose guard holds
	table := map[int64]string{}
	overlaps := map[int64][]string{}
	for m := int64(0); m < 256; m++ {
		var hit []string
		for _, a := range arms {
			for _, g := range a.guards {
				v, ok := evalGuard(info, g, mObj, m)
				if !ok {
					c.Unknown(rule, "PeekType:guard("+eng.ExprStr(g)+")", g.Pos(), "guard not evaluable by constant evaluation")
					return
				}
				if v {
					hit = append(hit, a.typ)
					break
				}
			}
		}
		if len(hit) > 0 {
			table[m] = hit[0]
		}
		if len(hit) > 1 {
			overlaps[m] = hit
		}
	}
	c.Check(len(overlaps) == 0, rule, "PeekType:guards-disjoint(256 bytes)", sw.Pos(), "no byte value satisfies two case guards",
		fmt.Sprintf("byte values satisfying more than one guard (the first arm shadows the others): %v — two markers share a value or ranges overlap, so one kind decodes as another", overlaps))
	// each marker constant lands in its family
	pk := c.P.Pkg("internal/encoding")
	family := func(name string) string {
		switch {
		case strings.HasPrefix(name, "float64"):
			return "Float64"
		case strings.HasPrefix(name, "float32"):
			return "Float32"
		case name == "bytesMarker":
			return "Bytes"
		case name == "bytesDescMarker":
			return "BytesDesc"
		case name == "timeMarker":
			return "Time"
		case name == "falseMarker", name == "trueMarker":
			return "Bool"
		case name == "jsonMarker":
			return "JSON"
		case name == "encodedNull", name == "encodedNullDesc":
			return "Null"
		case name == "IntMin", name == "IntMax", name == "intZero":
			return "Int"
		}
		return ""
	}
	n := 0
	var minM, maxM int64 = 256, -1
	vals := map[string]int64{}
	for _, name := range pk.Types.Scope().Names() {
		cst, ok := pk.Types.Scope().Lookup(name).(*types.Const)
		if !ok || family(name) == "" {
			continue
		}
		v, exact := constant.Int64Val(constant.ToInt(cst.Val()))
		if !exact {
			continue
		}
		n++
		vals[name] = v
		if v < minM {
			minM = v
		}
		if v > maxM {
			maxM = v
		}
		c.Check(table[v] == family(name), rule, "marker("+name+")→"+family(name), cst.Pos(), fmt.Sprintf("byte %d decodes as %s", v, family(name)),
			fmt.Sprintf("marker %s (byte %d) is classified by PeekType as %q, not %s: values written with this marker are read back as another kind or rejected", name, v, table[v], family(name)))
	}
	c.Floor(rule, n, 15)
	c.Check(vals["encodedNull"] == minM && vals["encodedNullDesc"] == maxM, rule, "null-markers-are-extremes", token.NoPos, "null sorts below and descending-null above every other marker",
		fmt.Sprintf("encodedNull=%d encodedNullDesc=%d but markers span [%d,%d]: null no longer sorts first (or last in descending fields)", vals["encodedNull"], vals["encodedNullDesc"], minM, maxM))
}

func ruleMarkerOrder(c *eng.Ctx) {
	const rule = "MARKER-ORDER"
	pk := c.P.Pkg("internal/encoding")
	if pk == nil {
		c.Unknown(rule, "anchor:encoding", token.NoPos, "anchor-unresolved")
		return
	}
	get := func(name string) (int64, bool) {
		cst, ok := pk.Types.Scope().Lookup(name).(*types.Const)
		if !ok {
			return 0, false
		}
		return constant.Int64Val(constant.ToInt(cst.Val()))
	}
	chains := [][]string{
		{"float64NaN", "float64Neg", "float64Zero", "float64Pos", "float64NaNDesc"},
		{"float32NaN", "float32Neg", "float32Zero", "float32Pos", "float32NaNDesc"},
		{"falseMarker", "trueMarker"},
		{"IntMin", "intZero", "IntMax"},
	}
	for _, ch := range chains {
		ok := true
		var vs []int64
		for _, nm := range ch {
			v, found := get(nm)
			if !found {
				c.Unknown(rule, "anchor:"+nm, token.NoPos, "anchor-unresolved")
				ok = false
				break
			}
			vs = append(vs, v)
		}
		if !ok {
			continue
		}
		inc := sort.SliceIsSorted(vs, func(i, j int) bool { return vs[i] < vs[j] })
		strict := true
		for i := 1; i < len(vs); i++ {
			if vs[i] <= vs[i-1] {
				strict = false
			}
		}
		c.Check(inc && strict, rule, "order("+strings.Join(ch, "<")+")", token.NoPos, fmt.Sprintf("marker values %v strictly increasing", vs),
			fmt.Sprintf("marker values %v are not strictly increasing in the order of the value classes: values of different sign classes compare the wrong way in an index", vs))
	}
}

// directionTable enumerates codec calls of fn under the given value of its direction flag.
func directionTable(c *eng.Ctx, rule string, fi *eng.FuncInfo, flagName string, flagMeansDescending bool) {
	info := fi.Pkg.TypesInfo
	var flag types.Object
	for _, p := range paramObjs(info, fi.Decl) {
		if p.Name() == flagName {
			flag = p
		}
	}
	if flag == nil {
		c.Unknown(rule, shortFn(fi)+":flag", fi.Decl.Pos(), "anchor-unresolved: boolean direction parameter "+flagName)
		return
	}
	flow := eng.NewFlow(info, fi.Decl.Body)
	locals := boolLocalDefs(info, fi.Decl.Body) // e.g. ascending := !descending
	for _, fv := range []bool{true, false} {
		desc := fv == flagMeansDescending
		wantSuffix, badSuffix := "Ascending", "Descending"
		if desc {
			wantSuffix, badSuffix = "Descending", "Ascending"
		}
		outs, trunc := flow.Paths(eng.PathSpec{
			Cond: func(br eng.Branch) eng.Tri {
				var atom func(e ast.Expr) eng.Tri
				atom = func(e ast.Expr) eng.Tri {
					o := eng.ObjOf(info, e)
					if o == flag {
						return eng.TriOf(fv)
					}
					if def, ok := locals[o]; ok && o != nil {
						return eng.EvalBool(info, def, atom)
					}
					return eng.Unknown
				}
				return eng.BranchTri(info, br, atom)
			},
			Effect: func(n ast.Node) string {
				var l []string
				ast.Inspect(n, func(x ast.Node) bool {
					if call, ok := x.(*ast.CallExpr); ok {
						nm := eng.CalleeName(info, call)
						if strings.HasPrefix(nm, "internal/encoding.") && (strings.HasSuffix(nm, "Ascending") || strings.HasSuffix(nm, "Descending")) {
							l = append(l, strings.TrimPrefix(nm, "internal/encoding."))
						}
					}
					return true
				})
				return strings.Join(l, ",")
			},
			MaxPaths: 20000,
		})
		if trunc {
			c.Unknown(rule, shortFn(fi)+":paths", fi.Decl.Pos(), "path enumeration truncated")
			return
		}
		bad := map[string]bool{}
		n := 0
		for _, o := range outs {
			for _, e := range o.Effects {
				for _, nm := range strings.Split(e, ",") {
					n++
					if strings.HasSuffix(nm, badSuffix) {
						bad[nm] = true
					}
				}
			}
		}
		c.Check(len(bad) == 0 && n > 0, rule, fmt.Sprintf("%s:cell(descending=%v)", shortFn(fi), desc), fi.Decl.Pos(), "only "+wantSuffix+" codecs on this edge",
			fmt.Sprintf("on the descending=%v edge the function calls %v: that kind is written/read in the wrong direction, so range filters and ordering on it are reversed", desc, setKeys(bad)))
	}
}

func ruleDirectionDispatch(c *eng.Ctx) {
	const rule = "DIRECTION-DISPATCH"
	if fi := c.Anchor(rule, "internal/encoding.EncodeFieldValue"); fi != nil {
		directionTable(c, rule, fi, "descending", true)
	}
	if fi := c.Anchor(rule, "internal/encoding.DecodeFieldValue"); fi != nil {
		directionTable(c, rule, fi, "descending", true)
	}
	if fi := c.Anchor(rule, "internal/encoding.decodeJSON"); fi != nil {
		directionTable(c, rule, fi, "ascending", false)
	}
}

func ruleDirectionConsistent(c *eng.Ctx) {
	const rule = "DIRECTION-CONSISTENT"
	n := 0
	for _, fi := range c.P.FuncsIn("internal/encoding") {
		if fi.Decl.Body == nil {
			continue
		}
		name := fi.Obj.Name()
		var mine, other string
		switch {
		case strings.HasSuffix(name, "Descending"):
			mine, other = "Descending", "Ascending"
		case strings.HasSuffix(name, "Ascending"):
			mine, other = "Ascending", "Descending"
		default:
			continue
		}
		info := fi.Pkg.TypesInfo
		compensates := false
		ast.Inspect(fi.Decl.Body, func(m ast.Node) bool {
			switch x := m.(type) {
			case *ast.CallExpr:
				if eng.CalleeName(info, x) == "internal/encoding.onesComplement" {
					compensates = true
				}
			case *ast.UnaryExpr:
				// bitwise inversion, arithmetic negation (floats) and logical negation (bools) all
				// mirror the order of the component they are applied to
				if x.Op == token.XOR || x.Op == token.SUB || x.Op == token.NOT {
					compensates = true
				}
			}
			return true
		})
		for _, cs := range eng.Calls(info, fi.Decl.Body) {
			if !strings.HasPrefix(cs.Name, "internal/encoding.") {
				continue
			}
			callee := strings.TrimPrefix(cs.Name, "internal/encoding.")
			if strings.HasSuffix(callee, other) {
				n++
				// structural parts of a key (JSON path segments) are direction independent: tabled
				if why, ok := directionExceptions[name+"→"+callee]; ok {
					c.OK(rule, name+"→"+callee, cs.Call.Pos(), "tabled exception: "+why)
					continue
				}
				c.Check(compensates && mine == "Descending", rule, name+"→"+callee, cs.Call.Pos(), "direction flip compensated by bitwise inversion",
					name+" calls "+callee+" without inverting the result: this component of the value is laid out in the opposite direction of the field, so range scans over it return the wrong rows")
			} else if strings.HasSuffix(callee, mine) {
				n++
				c.OK(rule, name+"→"+callee, cs.Call.Pos(), "same direction")
			}
		}
		// all-or-none inversion of the values handed to / taken from a shared helper
		if mine == "Descending" {
			for _, cs := range eng.Calls(info, fi.Decl.Body) {
				inv, plain := 0, 0
				for i, a := range cs.Call.Args {
					t := info.TypeOf(a)
					if t == nil {
						continue
					}
					if b, ok := t.Underlying().(*types.Basic); !ok || b.Info()&types.IsInteger == 0 {
						continue
					}
					if tv, ok := info.Types[a]; ok && tv.Value != nil {
						continue
					}
					_ = i
					if u, ok := ast.Unparen(a).(*ast.UnaryExpr); ok && u.Op == token.XOR {
						inv++
					} else {
						plain++
					}
				}
				if inv > 0 {
					n++
					c.Check(plain == 0, rule, name+"→"+calleeLabel(info, cs.Call)+":all-components-inverted", cs.Call.Pos(), "every integer component is inverted",
						fmt.Sprintf("%s inverts %d and leaves %d integer component(s) of the tuple un-inverted: within equal leading components the remaining one is ordered ascending inside a descending field", name, inv, plain))
				}
			}
		}
	}
	c.Floor(rule, n, 10)
}

var directionExceptions = map[string]string{}

func ruleKeyLayout(c *eng.Ctx) {
	const rule = "KEY-LAYOUT"
	enc := c.Anchor(rule, "internal/keys.EncodeIndexDataStoreKey")
	dec := c.Anchor(rule, "internal/keys.DecodeIndexDataStoreKey")
	if enc == nil || dec == nil {
		return
	}
	// the value codec receives the field's own Descending flag on both sides
	for _, p := range []struct {
		fi     *eng.FuncInfo
		callee string
		argIdx int
	}{{enc, "internal/encoding.EncodeFieldValue", 2}, {dec, "internal/encoding.DecodeFieldValue", 1}} {
		info := p.fi.Pkg.TypesInfo
		k := 0
		for _, cs := range eng.Calls(info, p.fi.Decl.Body) {
			if cs.Name != p.callee {
				continue
			}
			k++
			ok := len(cs.Call.Args) > p.argIdx && strings.HasSuffix(eng.ExprStr(cs.Call.Args[p.argIdx]), "Descending")
			if !ok && len(cs.Call.Args) > p.argIdx {
				// a local assigned from <field>.Descending
				if o := eng.ObjOf(info, cs.Call.Args[p.argIdx]); o != nil {
					ast.Inspect(p.fi.Decl.Body, func(x ast.Node) bool {
						if as, isAs := x.(*ast.AssignStmt); isAs && len(as.Lhs) == 1 && len(as.Rhs) == 1 && eng.ObjOf(info, as.Lhs[0]) == o && strings.HasSuffix(eng.ExprStr(as.Rhs[0]), ".Descending") {
							ok = true
						}
						return true
					})
				}
			}
			c.Check(ok, rule, fmt.Sprintf("%s→%s#%d:field-direction", shortFn(p.fi), p.callee[strings.LastIndex(p.callee, ".")+1:], k), cs.Call.Pos(), "the field's Descending flag selects the codec direction",
				"the value codec is not given the field's own Descending flag ("+eng.ExprStr(cs.Call.Args[p.argIdx])+"): writer and reader of an index key can disagree on a field's direction")
		}
		if k == 0 {
			c.Unknown(rule, shortFn(p.fi)+":value-codec", p.fi.Decl.Pos(), "anchor-unresolved: no call to "+p.callee)
		}
	}
	// separators: the byte/char constants appended by the encoder are the ones the decoder tests
	seps := func(fi *eng.FuncInfo) []string {
		info := fi.Pkg.TypesInfo
		set := map[string]bool{}
		ast.Inspect(fi.Decl.Body, func(m ast.Node) bool {
			if bl, ok := m.(*ast.BasicLit); ok && (bl.Kind == token.CHAR) {
				set[bl.Value] = true
			}
			if bl, ok := m.(*ast.BasicLit); ok && bl.Kind == token.STRING && len(bl.Value) == 3 {
				set["'"+bl.Value[1:2]+"'"] = true
			}
			_ = info
			return true
		})
		return setKeys(set)
	}
	es, ds := seps(enc), seps(dec)
	c.Check(len(es) > 0 && strings.Join(es, "") == strings.Join(ds, ""), rule, "Encode≡Decode:separators", enc.Decl.Pos(), fmt.Sprintf("both use separators %v", es),
		fmt.Sprintf("encoder uses separators %v, decoder %v", es, ds))
}

// ruleScalarKindUniform: a GraphQL scalar hands the planner ONE Go representation of its values,
// whichever way the value arrived (variable, float literal, integer literal): the index key of a
// filter bound is encoded from that Go value, and the encoding is per Go kind (a float64 bound
// against float32 entries lies in another key region, so `{iq: {_lt: 2}}` finds nothing while
// `{iq: {_lt: 2.0}}` works). For every scalar built with graphql.NewScalar whose ParseValue is a named
// coercion function with a single concrete result type T, every concrete result of its ParseLiteral
// literal has type T as well.
func ruleScalarKindUniform(c *eng.Ctx) {
	const rule = "SCALAR-KIND-UNIFORM"
	n := 0
	concreteResults := func(info *types.Info, body *ast.BlockStmt) (map[string]token.Pos, bool) {
		out := map[string]token.Pos{}
		opaque := false
		ast.Inspect(body, func(m ast.Node) bool {
			if _, ok := m.(*ast.FuncLit); ok {
				return false
			}
			r, ok := m.(*ast.ReturnStmt)
			if !ok || len(r.Results) != 1 {
				return true
			}
			tv, ok := info.Types[r.Results[0]]
			if !ok || tv.IsNil() {
				return true
			}
			t := tv.Type
			if b, ok := t.(*types.Basic); ok && b.Info()&types.IsUntyped != 0 {
				t = types.Default(t)
			}
			if types.IsInterface(t) {
				// delegation (return coerceX(*value)): judged where the delegate is declared
				if call, ok := ast.Unparen(r.Results[0]).(*ast.CallExpr); !ok || eng.CalleeName(info, call) == "" {
					opaque = true
				}
				return true
			}
			if _, seen := out[t.String()]; !seen {
				out[t.String()] = r.Pos()
			}
			return true
		})
		return out, opaque
	}
	for _, pk := range c.P.Pkgs {
		if eng.ShortPkg(pk.PkgPath) != "internal/request/graphql/schema/types" {
			continue
		}
		info := pk.TypesInfo
		for _, f := range pk.Syntax {
			if strings.HasSuffix(c.P.Fset.Position(f.Pos()).Filename, "_test.go") {
				continue
			}
			ast.Inspect(f, func(m ast.Node) bool {
				call, ok := m.(*ast.CallExpr)
				if !ok || !strings.HasSuffix(eng.CalleeName(info, call), ".NewScalar") || len(call.Args) != 1 {
					return true
				}
				cfgLit, ok := ast.Unparen(call.Args[0]).(*ast.CompositeLit)
				if !ok {
					return true
				}
				var name string
				var parseValue ast.Expr
				var parseLiteral *ast.FuncLit
				for _, el := range cfgLit.Elts {
					kv, ok := el.(*ast.KeyValueExpr)
					if !ok {
						continue
					}
					switch k, _ := kv.Key.(*ast.Ident); {
					case k == nil:
					case k.Name == "Name":
						if tv, ok := info.Types[kv.Value]; ok && tv.Value != nil {
							name, _ = unq(tv.Value.ExactString())
						}
					case k.Name == "ParseValue":
						parseValue = kv.Value
					case k.Name == "ParseLiteral":
						parseLiteral, _ = ast.Unparen(kv.Value).(*ast.FuncLit)
					}
				}
				if parseLiteral == nil || parseValue == nil {
					return true
				}
				fo, _ := eng.ObjOf(info, parseValue).(*types.Func)
				fi := c.P.FuncOfObj(fo)
				if fi == nil || fi.Decl.Body == nil {
					return true
				}
				want, opaque := concreteResults(fi.Pkg.TypesInfo, fi.Decl.Body)
				if opaque || len(want) != 1 {
					return true // the scalar has no single Go representation (JSON, …): nothing to compare
				}
				var T string
				for t := range want {
					T = t
				}
				n++
				got, _ := concreteResults(info, parseLiteral.Body)
				var off []string
				pos := parseLiteral.Pos()
				for t, p := range got {
					if t != T {
						off = append(off, t)
						pos = p
					}
				}
				sort.Strings(off)
				c.Check(len(off) == 0, rule, "scalar("+name+"):ParseLiteral-results-are-"+T, pos, "literals and variables give the same Go kind",
					"the "+name+" scalar's ParseLiteral can return "+strings.Join(off, ", ")+" while its ParseValue returns "+T+": a filter bound written as such a literal is encoded under another kind tag than the stored values, so index range and equality scans miss rows that a scan without the index returns")
				return true
			})
		}
	}
	c.Floor(rule, n, 2)
}
