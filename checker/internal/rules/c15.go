package rules

import (
	"fmt"
	"go/ast"
	"go/token"
	"go/types"
	"golang.org/x/tools/go/cfg"
	"strings"

	"defracheck/internal/eng"
)

func init() {
	register(&Property{
		ID: "C15",
		Rules: []Rule{
			{"FAILURE-RECORDED", ruleFailureRecorded},
			{"KEY-KIND-PAIRING", ruleKeyKindPairing},
			{"TXN-AFTER-LOCK", ruleTxnAfterLock},
			{"RETRY-LOOP", ruleRetryLoop},
			{"USE-AFTER-ERR", func(c *eng.Ctx) { ruleUseAfterErrNet(c) }},
			{"PUSH-ON-UPDATE", rulePushOnUpdate},
			{"RECEIVE-MERGES", ruleReceiveMerges},
			{"SYNC-BEFORE-MERGE", ruleSyncBeforeMerge},
			{"EVENT-COLLECTION-ID", ruleEventCollectionID},
			{"REPLICATOR-TABLE-EXACT", ruleReplicatorTableExact},
			{"LOADERS", ruleLoaders},
			{"LOCK-ESCAPE", ruleLockEscape},
		},
		Meta: eng.PropMeta{
			Explanation: "'Eventually' over outage sequences is a liveness statement and is not decided. Decided are the structural conditions without which delivery cannot happen: (FAILURE-RECORDED) a failed first push passes handleReplicatorFailure on the error exit of pushLog (deferred, for non-retry events), and handleReplicatorFailure writes the inactive status, the retry record and the per-document marker in one committed transaction; (RETRY-LOOP) NewPeer starts the retry loop, the loop calls retryReplicators, a due replicator is marked retrying and handed to retryReplicator, and every exit of retryReplicator that follows the marking passes handleCompletedReplicatorRetry (so a retry record never stays 'retrying' while the node runs), and, because the state is persisted and the shutdown exit of retryReplicator (or a crash) leaves it set, handleReplicatorRetries clears stale 'retrying' records before its first tick; a retried document is pushed through the same pushLog with IsRetry set and deleted from the retry set only after a successful push; (USE-AFTER-ERR) no iterator or other co-result of a failed storage call is used in package net; (PUSH-ON-UPDATE) every update event received by the peer reaches pushLogToReplicators and the pubsub publication; (SYNC-BEFORE-MERGE) the receiver raises the merge event only after a successful DAG sync; (LOADERS) replicators and subscriptions are reloaded at start-up; (LOCK-ESCAPE) the replicator table is read consistently. (KEY-KIND-PAIRING) every peer-store key that is deleted with a single Delete is built by a constructor that some Set in the package also uses, and is not a prefix key; (EVENT-COLLECTION-ID) every update event built by the database or by the retry path is addressed with a collection id (a field named CollectionID), never with a schema version id — a retried push must be resolvable by a receiver at another schema version exactly like a first push; (REPLICATOR-TABLE-EXACT) updateReplicators updates the in-memory table on every path — also when the connection attempt to the peer fails — so a replicator configured or reloaded while its peer is down is pushed to once the peer returns; (TXN-AFTER-LOCK) in a function-scope critical section (Lock … defer Unlock) the transaction is created after the lock is taken.",
			NotDecided:  "eventual delivery over arbitrary outage/reconnect sequences (liveness), equality of A's and B's documents at quiescence, behaviour when the retry budget is exhausted; the derivation of the collection id of a retried push from the block's schema version (predicted in DESIGN section 5 item 11) could not be reproduced and is not claimed",
		},
	})
}

func ruleFailureRecorded(c *eng.Ctx) {
	const rule = "FAILURE-RECORDED"
	if fi := c.Anchor(rule, "net.(*server).pushLog"); fi != nil {
		info := fi.Pkg.TypesInfo
		// a deferred closure calls handleReplicatorFailure under `err != nil && !evt.IsRetry`, err being the named result
		var named []types.Object
		if fi.Decl.Type.Results != nil {
			for _, f := range fi.Decl.Type.Results.List {
				for _, nm := range f.Names {
					named = append(named, info.Defs[nm])
				}
			}
		}
		good := false
		var pos token.Pos = fi.Decl.Pos()
		for _, st := range fi.Decl.Body.List {
			d, ok := st.(*ast.DeferStmt)
			if !ok {
				continue
			}
			lit, ok := d.Call.Fun.(*ast.FuncLit)
			if !ok {
				continue
			}
			if call := eng.ContainsCallTo(info, lit.Body, true, "net.(*Peer).handleReplicatorFailure"); call != nil {
				pos = call.Pos()
				// guarded by the named error result being non-nil
				ast.Inspect(lit.Body, func(m ast.Node) bool {
					is, ok := m.(*ast.IfStmt)
					if ok && is.Body.Pos() <= call.Pos() && call.End() <= is.Body.End() {
						for _, r := range named {
							t := eng.EvalBool(info, is.Cond, func(e ast.Expr) eng.Tri {
								if isT, nonNil := eng.ErrNilTest(info, e, r); isT {
									if nonNil {
										return eng.False // assume err == nil
									}
									return eng.True
								}
								return eng.Unknown
							})
							if t == eng.False {
								good = true // the branch is taken only when err != nil
							}
						}
					}
					return true
				})
			}
			// the defer must be the first statement that can fail: registered before dial
			break
		}
		c.Check(good && len(named) > 0, rule, "pushLog:deferred-failure-handler-on-named-error", pos, "every error exit of a first push records the failure",
			"pushLog does not run handleReplicatorFailure from a deferred closure keyed on its named error result (registered before the first fallible step): a push that fails (dial or invoke) leaves no retry record, so the commit is never delivered")
	}
	if fi := c.Anchor(rule, "net.(*Peer).handleReplicatorFailure"); fi != nil {
		info := fi.Pkg.TypesInfo
		flow := eng.NewFlow(info, fi.Decl.Body)
		var commit *ast.CallExpr
		for _, cs := range eng.Calls(info, fi.Decl.Body) {
			if strings.HasSuffix(cs.Name, ".Commit") && cs.Lit == nil {
				commit = cs.Call
			}
		}
		if commit == nil {
			c.Bad(rule, "handleReplicatorFailure:commit", fi.Decl.Pos(), "the failure record is never committed")
		} else {
			for _, step := range []struct{ label, callee string }{
				{"status-inactive", "net.updateReplicatorStatus"},
				{"retry-record", "net.createIfNotExistsReplicatorRetry"},
				{"doc-marker", "github.com/sourcenetwork/corekv.(Writer).Set"},
			} {
				ok := mustPassBefore(fi, flow, commit, happyEdge(info), step.callee)
				c.Check(ok, rule, "handleReplicatorFailure:"+step.label+"-before-commit", commit.Pos(), "written in the committed transaction",
					"handleReplicatorFailure can commit without the "+step.label+" step ("+step.callee+"): the retry machinery does not know this document still owes a delivery")
			}
			for _, es := range eng.ErrFlow(info, fi.Decl.Body, nil) {
				if es.Finding != nil && !es.Finding.InDefer {
					c.Bad(rule, "handleReplicatorFailure:"+es.Callee+":error", es.Call.Pos(), "a store error while recording the failure is "+es.Finding.Kind)
				}
			}
		}
	}
}

func ruleRetryLoop(c *eng.Ctx) {
	const rule = "RETRY-LOOP"
	if fi := c.Anchor(rule, "net.(*Peer).handleReplicatorRetries"); fi != nil {
		info := fi.Pkg.TypesInfo
		inLoop := false
		ast.Inspect(fi.Decl.Body, func(m ast.Node) bool {
			if f, ok := m.(*ast.ForStmt); ok && eng.ContainsCallTo(info, f.Body, true, "net.(*Peer).retryReplicators") != nil {
				inLoop = true
			}
			return true
		})
		c.Check(inLoop, rule, "handleReplicatorRetries:loops-over-retryReplicators", fi.Decl.Pos(), "the retry loop periodically calls retryReplicators", "handleReplicatorRetries no longer calls retryReplicators in its loop")
		// The 'retrying' state is persisted and retryReplicator leaves it set when the node stops (its
		// shutdown exit, or a crash). Before the first tick the loop therefore has to clear it: a
		// top-level statement ahead of the loop calls a function of this module that assigns false to a
		// Retrying field and, after that assignment, stores the record.
		reset := false
		for _, st := range fi.Decl.Body.List {
			if _, isFor := st.(*ast.ForStmt); isFor {
				break
			}
			es, ok := st.(*ast.ExprStmt)
			if !ok {
				continue
			}
			call, ok := es.X.(*ast.CallExpr)
			if !ok {
				continue
			}
			callee := c.P.Func(eng.CalleeName(info, call))
			if callee == nil || callee.Decl.Body == nil {
				continue
			}
			cinfo := callee.Pkg.TypesInfo
			cflow := eng.NewFlow(cinfo, callee.Decl.Body)
			for _, cs := range eng.Calls(cinfo, callee.Decl.Body) {
				if cs.Name != "github.com/sourcenetwork/corekv.(Writer).Set" || cs.Lit != nil {
					continue
				}
				pt, ok := cflow.PointOf(cs.Call)
				if !ok {
					continue
				}
				un := cflow.ReachesWithout(pt, func(nd ast.Node) bool {
					as, ok := nd.(*ast.AssignStmt)
					if !ok || len(as.Lhs) != 1 || !isFieldNamed(cinfo, as.Lhs[0], "Retrying") {
						return false
					}
					tv, ok := cinfo.Types[as.Rhs[0]]
					return ok && tv.Value != nil && tv.Value.ExactString() == "false"
				}, nil)
				if !un {
					reset = true
				}
			}
		}
		c.Check(reset, rule, "handleReplicatorRetries:clears-stale-retrying-before-first-tick", fi.Decl.Pos(), "retry records left 'retrying' by an earlier run of the node are cleared before the loop starts",
			"handleReplicatorRetries starts ticking without clearing the persisted 'retrying' state: a record left by a node that stopped (or crashed) during a retry pass is skipped by retryReplicators forever, so after a restart that peer is never pushed to again")
	}
	if fi := c.Anchor(rule, "net.(*Peer).retryReplicators"); fi != nil {
		info := fi.Pkg.TypesInfo
		flow := eng.NewFlow(info, fi.Decl.Body)
		var spawn *ast.GoStmt
		ast.Inspect(fi.Decl.Body, func(m ast.Node) bool {
			if g, ok := m.(*ast.GoStmt); ok && eng.CalleeName(info, g.Call) == "net.(*Peer).retryReplicator" {
				spawn = g
			}
			return true
		})
		if spawn == nil {
			c.Bad(rule, "retryReplicators:spawns-retryReplicator", fi.Decl.Pos(), "a due replicator is never handed to retryReplicator")
		} else {
			ok := mustPassBefore(fi, flow, spawn, happyEdge(info), "net.(*Peer).setReplicatorAsRetrying")
			c.Check(ok, rule, "retryReplicators:mark-retrying-before-spawn", spawn.Pos(), "a replicator is marked retrying before its retry goroutine starts", "retryReplicator is spawned without marking the replicator as retrying first: every tick starts another concurrent retry")
		}
	}
	if fi := c.Anchor(rule, "net.(*Peer).retryReplicator"); fi != nil {
		info := fi.Pkg.TypesInfo
		flow := eng.NewFlow(info, fi.Decl.Body)
		// every normal exit (other than context cancellation) passes handleCompletedReplicatorRetry.
		// The shutdown exit is a return inside a `case <-….Done():` clause. (go/cfg evaluates every comm
		// clause of a select in the block before the branch, so the receive expression itself lies on
		// every path through the select and must not be taken for the shutdown exit.)
		type span struct{ lo, hi token.Pos }
		var shutdown []span
		ast.Inspect(fi.Decl.Body, func(m ast.Node) bool {
			cc, ok := m.(*ast.CommClause)
			if !ok || cc.Comm == nil {
				return true
			}
			isDone := false
			ast.Inspect(cc.Comm, func(x ast.Node) bool {
				if u, ok := x.(*ast.UnaryExpr); ok && u.Op == token.ARROW && strings.HasSuffix(eng.ExprStr(u.X), ".Done()") {
					isDone = true
				}
				return true
			})
			if isDone && len(cc.Body) > 0 {
				shutdown = append(shutdown, span{cc.Body[0].Pos(), cc.Body[len(cc.Body)-1].End()})
			}
			return true
		})
		where := token.NoPos
		leak := flow.Forward(flow.Entry(), true, eng.Walk{
			Visit: func(pt eng.Point, nd ast.Node) eng.Action {
				if eng.ContainsCallTo(info, nd, false, "net.(*Peer).handleCompletedReplicatorRetry") != nil {
					return eng.Cut
				}
				return eng.Continue
			},
			OnExit: func(ret *ast.ReturnStmt, b *cfg.Block) eng.Action {
				if ret != nil {
					for _, sp := range shutdown {
						if sp.lo <= ret.Pos() && ret.End() <= sp.hi {
							return eng.Continue
						}
					}
					where = ret.Pos()
				} else {
					where = fi.Decl.Body.End()
				}
				return eng.Hit
			},
		})
		c.Check(!leak, rule, "retryReplicator:every-exit-completes-the-retry", fi.Decl.Pos(), "every exit reports the retry's outcome",
			"retryReplicator returns at "+c.P.Rel(where)+" without handleCompletedReplicatorRetry: the retry record stays marked 'retrying' and the replicator is never retried again")
		// a retry doc marker is deleted only after its push succeeded
		var retry, del *ast.CallExpr
		for _, cs := range eng.Calls(info, fi.Decl.Body) {
			switch cs.Name {
			case "net.(*Peer).retryDoc":
				retry = cs.Call
			case "github.com/sourcenetwork/corekv.(Writer).Delete":
				del = cs.Call
			}
		}
		if retry != nil && del != nil {
			// Delete unreachable on the failure edge of retryDoc
			as := assignOf(fi.Decl.Body, retry)
			okDel := false
			if as != nil {
				ev := eng.ObjOf(info, as.Lhs[len(as.Lhs)-1])
				dpt, _ := flow.PointOf(as)
				tpt, _ := flow.PointOf(del)
				hit := flow.Forward(dpt, false, eng.Walk{
					Visit: func(p eng.Point, n ast.Node) eng.Action {
						if p == tpt {
							return eng.Hit
						}
						if a2, ok := n.(*ast.AssignStmt); ok && a2 != as {
							for _, l := range a2.Lhs {
								if eng.ObjOf(info, l) == ev {
									return eng.Cut
								}
							}
						}
						return eng.Continue
					},
					Edge: func(cond ast.Expr, taken bool) bool {
						t := eng.EvalBool(info, cond, func(e ast.Expr) eng.Tri {
							if is, nonNil := eng.ErrNilTest(info, e, ev); is {
								return eng.TriOf(nonNil)
							}
							return eng.Unknown
						})
						switch t {
						case eng.True:
							return taken
						case eng.False:
							return !taken
						}
						return true
					},
				})
				okDel = !hit
			}
			c.Check(okDel, rule, "retryReplicator:marker-deleted-only-after-success", del.Pos(), "the document marker is removed only after a successful push", "the retry marker of a document is deleted although its push failed: that document is never delivered")
		} else {
			c.Unknown(rule, "retryReplicator:retryDoc/Delete", fi.Decl.Pos(), "anchor-unresolved")
		}
	}
	if fi := c.Anchor(rule, "net.(*Peer).retryDoc"); fi != nil {
		info := fi.Pkg.TypesInfo
		push := eng.ContainsCallTo(info, fi.Decl.Body, false, "net.(*server).pushLog") != nil
		isRetry := false
		ast.Inspect(fi.Decl.Body, func(m ast.Node) bool {
			if kv, ok := m.(*ast.KeyValueExpr); ok {
				if k, ok := kv.Key.(*ast.Ident); ok && k.Name == "IsRetry" {
					if tv, ok := info.Types[kv.Value]; ok && tv.Value != nil && tv.Value.ExactString() == "true" {
						isRetry = true
					}
				}
			}
			return true
		})
		heads := eng.ContainsCallTo(info, fi.Decl.Body, false, "net.(*Peer).getHeads") != nil
		c.Check(push && isRetry && heads, rule, "retryDoc:pushes-current-heads-as-retry", fi.Decl.Pos(), "a retry pushes the document's current heads through pushLog with IsRetry",
			fmt.Sprintf("retryDoc shape changed (pushLog=%v IsRetry=%v getHeads=%v)", push, isRetry, heads))
	}
}

// ruleUseAfterErrNet applies USE-AFTER-ERR to package net (storage-derived calls).
func ruleUseAfterErrNet(c *eng.Ctx) {
	ruleUseAfterErr(c, "USE-AFTER-ERR", []string{"net"})
	// additionally: an iterator obtained from a failed Iterator() call must not be used — the failure
	// branch must leave the function (log-and-continue makes iter a nil interface)
	const rule = "USE-AFTER-ERR"
	for _, fi := range c.P.FuncsIn("net") {
		if fi.Decl.Body == nil {
			continue
		}
		info := fi.Pkg.TypesInfo
		k := 0
		ast.Inspect(fi.Decl.Body, func(m ast.Node) bool {
			as, ok := m.(*ast.AssignStmt)
			if !ok || len(as.Rhs) != 1 || len(as.Lhs) != 2 {
				return true
			}
			call, ok := as.Rhs[0].(*ast.CallExpr)
			if !ok || !strings.HasSuffix(eng.CalleeName(info, call), ".Iterator") {
				return true
			}
			if tup, ok := info.TypeOf(call).(*types.Tuple); !ok || tup.Len() != 2 || !isIteratorType(tup.At(0).Type()) {
				return true
			}
			k++
			it, ev := eng.ObjOf(info, as.Lhs[0]), eng.ObjOf(info, as.Lhs[1])
			if it == nil || ev == nil {
				return true
			}
			flow := eng.NewFlow(info, fi.Decl.Body)
			def, found := flow.PointOf(as)
			if !found {
				return true
			}
			var where token.Pos
			hit := flow.Forward(def, false, eng.Walk{
				Visit: func(p eng.Point, nd ast.Node) eng.Action {
					if _, isRet := nd.(*ast.ReturnStmt); isRet {
						return eng.Cut
					}
					if a2, ok := nd.(*ast.AssignStmt); ok && a2 != as {
						for _, l := range a2.Lhs {
							if o := eng.ObjOf(info, l); o == it || o == ev {
								return eng.Cut
							}
						}
					}
					if pos := derefOf(info, nd, it); pos.IsValid() {
						where = pos
						return eng.Hit
					}
					return eng.Continue
				},
				Edge: func(cond ast.Expr, taken bool) bool {
					t := eng.EvalBool(info, cond, func(e ast.Expr) eng.Tri {
						if is, nonNil := eng.ErrNilTest(info, e, ev); is {
							return eng.TriOf(nonNil)
						}
						return eng.Unknown
					})
					switch t {
					case eng.True:
						return taken
					case eng.False:
						return !taken
					}
					return true
				},
			})
			c.Check(!hit, rule, fmt.Sprintf("%s:iterator#%d-not-used-after-failed-acquisition", shortFn(fi), k), call.Pos(), "a failed Iterator() leaves the function before the iterator is touched",
				"the iterator is used at "+c.P.Rel(where)+" on the path where Iterator() returned an error (nil interface): a storage fault becomes a nil pointer dereference")
			return true
		})
	}
}

func rulePushOnUpdate(c *eng.Ctx) {
	const rule = "PUSH-ON-UPDATE"
	fi := c.Anchor(rule, "net.(*Peer).handleLog")
	if fi == nil {
		return
	}
	info := fi.Pkg.TypesInfo
	flow := eng.NewFlow(info, fi.Decl.Body)
	var push *ast.CallExpr
	for _, cs := range eng.Calls(info, fi.Decl.Body) {
		if cs.Name == "net.(*Peer).pushLogToReplicators" {
			push = cs.Call
		}
	}
	if push == nil {
		c.Bad(rule, "handleLog:pushLogToReplicators", fi.Decl.Pos(), "update events are no longer pushed to replicators")
		return
	}
	// every success return passes the push
	for i, r := range successReturnsP(c.P, info, fi.Decl) {
		ok := mustPassBefore(fi, flow, r, happyEdge(info), "net.(*Peer).pushLogToReplicators")
		c.Check(ok, rule, fmt.Sprintf("handleLog:success-return#%d:pushed", i+1), r.Pos(), "every handled update event is pushed to the replicators",
			"handleLog can report success for an update event without pushLogToReplicators: that commit is never replicated")
	}
	// the message loop hands update events to handleLog
	if ml := c.Anchor(rule, "net.(*Peer).handleMessageLoop"); ml != nil {
		ok := eng.ContainsCallTo(ml.Pkg.TypesInfo, ml.Decl.Body, true, "net.(*Peer).handleLog") != nil
		c.Check(ok, rule, "handleMessageLoop:calls-handleLog", ml.Decl.Pos(), "update events reach handleLog", "the peer's message loop no longer calls handleLog")
	}
}

// ruleReceiveMerges: a received push that is not rejected for access reasons always ends in a merge
// event; and the retry record leaves the 'retrying' state whenever its next retry is scheduled.
func ruleReceiveMerges(c *eng.Ctx) {
	const rule = "RECEIVE-MERGES"
	if fi := c.Anchor(rule, "net.(*server).processPushlog"); fi != nil {
		info := fi.Pkg.TypesInfo
		flow := eng.NewFlow(info, fi.Decl.Body)
		mergeName := lookupObj(c.P, "event", "MergeName")
		var publish ast.Node
		for _, cs := range eng.Calls(info, fi.Decl.Body) {
			if strings.HasSuffix(cs.Name, ".Publish") && publishesUpdate(info, fi.Decl, cs.Call, mergeName) {
				publish = cs.Call
			}
		}
		if publish == nil {
			c.Bad(rule, "processPushlog:publishes-merge", fi.Decl.Pos(), "a received push never raises a merge event")
		} else {
			var access types.Object
			ast.Inspect(fi.Decl.Body, func(m ast.Node) bool {
				if as, ok := m.(*ast.AssignStmt); ok && len(as.Rhs) == 1 && len(as.Lhs) == 2 {
					if call, ok := as.Rhs[0].(*ast.CallExpr); ok && eng.CalleeName(info, call) == "net.(*server).trySelfHasAccess" {
						access = eng.ObjOf(info, as.Lhs[0])
					}
				}
				return true
			})
			n := 0
			for _, r := range successReturnsP(c.P, info, fi.Decl) {
				n++
				ppt, _ := flow.PointOf(r)
				un := flow.ReachesWithout(ppt, func(nd ast.Node) bool { return nd.Pos() <= publish.Pos() && publish.End() <= nd.End() }, func(cond ast.Expr, taken bool) bool {
					// the access-denied edge is the one legitimate silent acknowledgement
					if access != nil {
						t := eng.EvalBool(info, cond, func(e ast.Expr) eng.Tri {
							if eng.ObjOf(info, e) == access {
								return eng.True
							}
							return eng.Unknown
						})
						switch t {
						case eng.True:
							return taken
						case eng.False:
							return !taken
						}
					}
					return true
				})
				c.Check(!un, rule, fmt.Sprintf("processPushlog:success-return#%d:merge-raised", n), r.Pos(), "an acknowledged push was synced and handed to the merge",
					"processPushlog acknowledges a push (nil error) on a path that raised no merge event although access was not denied: the sender clears its retry state while the commit is never merged here")
			}
		}
	}
	if fi := c.Anchor(rule, "net.setReplicatorNextRetry"); fi != nil {
		info := fi.Pkg.TypesInfo
		flow := eng.NewFlow(info, fi.Decl.Body)
		for _, cs := range eng.Calls(info, fi.Decl.Body) {
			if cs.Name != "github.com/sourcenetwork/corekv.(Writer).Set" {
				continue
			}
			pt, _ := flow.PointOf(cs.Call)
			un := flow.ReachesWithout(pt, func(nd ast.Node) bool {
				as, ok := nd.(*ast.AssignStmt)
				if !ok || len(as.Lhs) != 1 || !isFieldNamed(info, as.Lhs[0], "Retrying") {
					return false
				}
				tv, ok := info.Types[as.Rhs[0]]
				return ok && tv.Value != nil && tv.Value.ExactString() == "false"
			}, happyEdge(info))
			c.Check(!un, rule, "setReplicatorNextRetry:clears-retrying-on-every-path", cs.Call.Pos(), "scheduling the next retry always leaves the 'retrying' state",
				"setReplicatorNextRetry can persist the record with Retrying still true: retryReplicators skips such a record forever, so the peer is never pushed to again")
		}
	}
}
