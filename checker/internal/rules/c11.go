package rules

import (
	"fmt"
	"go/ast"
	"go/token"
	"go/types"
	"sort"
	"strings"

	"defracheck/internal/eng"
)

func init() {
	register(&Property{
		ID: "C11",
		Rules: []Rule{
			{"ENC-PUT", ruleEncPut},
			{"ENC-SEPARATION", ruleEncSeparation},
			{"ENC-INHERIT", ruleEncInherit},
			{"ENC-MEMBERSHIP", ruleEncMembership},
			{"ENC-SIBLING", ruleEncSibling},
			{"KEY-EGRESS", ruleKeyEgress},
			{"EVENT-PAYLOAD", ruleEventPayload},
		},
		Meta: eng.PropMeta{
			Explanation: "Decides the structural side of 'encrypted field values leave the node only as ciphertext': (ENC-PUT) in AddDelta, on every path where determineBlockEncryption returned an encryption block, the block written to the shared block store, the block that is signed and the block whose bytes are returned (and travel in the update event) is the result of encryptBlock, while the plaintext block flows only into ProcessBlock; (ENC-SEPARATION) *Encryption (key) blocks are stored only through Encstore(), *Block values only through Blockstore(), and the key store is touched only by the block layer, the merge path, the KMS and node start-up; (ENC-INHERIT) when no new encryption is requested, determineBlockEncryption reaches its 'not encrypted' result only after looking at every previous head, and a previous head with an encryption link makes it return that head's key; (ENC-SIBLING) encryptBlock and decryptBlock exempt the same delta variants; (KEY-EGRESS) key blocks leave the node only as crypto.EncryptECIES output and only for requesters that passed the document permission check; (EVENT-PAYLOAD) the update event carries the bytes AddDelta returned. ENC-INHERIT additionally requires that nothing leaves the heads loop on a head that is not encrypted (mixed heads); (ENC-MEMBERSHIP) the user-supplied EncryptedFields list is only ranged over, measured, passed to slices.Contains/Index or handed to a helper doing the same — never binary-searched or read by position.",
			NotDecided:  "absence of the plaintext from every stored byte (a value-level search), correctness of AES-GCM/ECIES, key management over time",
		},
	})
}

func ruleEncPut(c *eng.Ctx) {
	const rule = "ENC-PUT"
	fi := c.Anchor(rule, "internal/core/block.AddDelta")
	if fi == nil {
		return
	}
	info := fi.Pkg.TypesInfo
	// slots
	var encBlock, plain types.Object
	ast.Inspect(fi.Decl.Body, func(m ast.Node) bool {
		as, ok := m.(*ast.AssignStmt)
		if !ok || len(as.Rhs) != 1 {
			return true
		}
		if call, ok := as.Rhs[0].(*ast.CallExpr); ok {
			switch eng.CalleeName(info, call) {
			case "internal/core/block.determineBlockEncryption":
				encBlock = eng.ObjOf(info, as.Lhs[0])
			case "internal/core/block.New":
				plain = eng.ObjOf(info, as.Lhs[0])
			}
		}
		return true
	})
	if encBlock == nil || plain == nil {
		c.Unknown(rule, "AddDelta:slots", fi.Decl.Pos(), "anchor-unresolved: determineBlockEncryption result / block.New result")
		return
	}
	flow := eng.NewFlow(info, fi.Decl.Body)
	// which variable currently holds ciphertext: track assignments
	outs, trunc := flow.Paths(eng.PathSpec{
		Cond: func(br eng.Branch) eng.Tri {
			return eng.BranchTri(info, br, func(e ast.Expr) eng.Tri {
				if t := happyAtom(info, e); t != eng.Unknown {
					return t
				}
				if is, nonNil := eng.ErrNilTest(info, e, encBlock); is {
					return eng.TriOf(nonNil) // encryption requested/inherited
				}
				return eng.Unknown
			})
		},
		Effect: func(n ast.Node) string {
			var labels []string
			if as, ok := n.(*ast.AssignStmt); ok && len(as.Rhs) == 1 {
				src := "other"
				if call, ok := ast.Unparen(as.Rhs[0]).(*ast.CallExpr); ok && eng.CalleeName(info, call) == "internal/core/block.encryptBlock" {
					src = "cipher"
				} else if call, ok := ast.Unparen(as.Rhs[0]).(*ast.CallExpr); ok && eng.CalleeName(info, call) == "internal/core/block.New" {
					src = "plain"
				} else if o := eng.ObjOf(info, as.Rhs[0]); o == plain {
					src = "plain"
				}
				if o := eng.ObjOf(info, as.Lhs[0]); o != nil && strings.HasSuffix(eng.TypeName(o.Type()), "block.Block") {
					labels = append(labels, "set:"+o.Name()+"="+src)
				}
			}
			ast.Inspect(n, func(x ast.Node) bool {
				call, ok := x.(*ast.CallExpr)
				if !ok {
					return true
				}
				switch eng.CalleeName(info, call) {
				case "internal/core/block.putBlock":
					if o := eng.ObjOf(info, call.Args[2]); o != nil {
						labels = append(labels, "put:"+o.Name())
					}
				case "internal/core/block.signBlock":
					if o := eng.ObjOf(info, call.Args[2]); o != nil {
						labels = append(labels, "sign:"+o.Name())
					}
				case "internal/core/block.(*Block).Marshal":
					if se, ok := call.Fun.(*ast.SelectorExpr); ok {
						if o := eng.ObjOf(info, se.X); o != nil {
							labels = append(labels, "marshal:"+o.Name())
						}
					}
				case "internal/core/block.ProcessBlock":
					if o := eng.ObjOf(info, call.Args[2]); o != nil {
						labels = append(labels, "process:"+o.Name())
					}
				}
				return true
			})
			return strings.Join(labels, ";")
		},
	})
	if trunc {
		c.Unknown(rule, "AddDelta:paths", fi.Decl.Pos(), "path enumeration truncated")
		return
	}
	n := 0
	bad := map[string]bool{}
	for _, o := range outs {
		if o.Kind != "return" {
			continue
		}
		holds := map[string]string{plain.Name(): "plain"}
		for _, eff := range o.Effects {
			for _, l := range strings.Split(eff, ";") {
				switch {
				case strings.HasPrefix(l, "set:"):
					kv := strings.SplitN(strings.TrimPrefix(l, "set:"), "=", 2)
					src := kv[1]
					if src == "other" {
						src = "unknown"
					}
					holds[kv[0]] = src
				case strings.HasPrefix(l, "put:"), strings.HasPrefix(l, "sign:"), strings.HasPrefix(l, "marshal:"):
					n++
					parts := strings.SplitN(l, ":", 2)
					if holds[parts[1]] != "cipher" {
						bad[parts[0]+"("+parts[1]+" holds "+holds[parts[1]]+")"] = true
					}
				case strings.HasPrefix(l, "process:"):
					n++
					parts := strings.SplitN(l, ":", 2)
					if holds[parts[1]] != "plain" {
						bad["process("+parts[1]+" holds "+holds[parts[1]]+")"] = true
					}
				}
			}
		}
	}
	var bl []string
	for k := range bad {
		bl = append(bl, k)
	}
	sort.Strings(bl)
	c.Check(len(bl) == 0 && n > 0, rule, "AddDelta:encrypted-path:sinks", fi.Decl.Pos(),
		"with an encryption block, put/sign/marshal see the encryptBlock result and ProcessBlock sees the plaintext",
		fmt.Sprintf("with an encryption block present: %v — the plaintext of an encrypted field would be written to the shared block store / carried in the update event (or the ciphertext merged into local state)", bl))
	// the Encryption link is attached to the stored block
	linked := false
	ast.Inspect(fi.Decl.Body, func(m ast.Node) bool {
		if as, ok := m.(*ast.AssignStmt); ok && len(as.Lhs) == 1 && isFieldNamed(info, as.Lhs[0], "Encryption") {
			linked = true
		}
		return true
	})
	c.Check(linked, rule, "AddDelta:encryption-link-set", fi.Decl.Pos(), "the stored block links its encryption block", "the stored block no longer carries the Encryption link: receivers cannot tell it is ciphertext")
}

func ruleEncSeparation(c *eng.Ctx) {
	const rule = "ENC-SEPARATION"
	n := 0
	for _, fi := range c.P.Funcs() {
		sp := eng.ShortPkg(fi.Pkg.PkgPath)
		if fi.Decl.Body == nil || strings.HasPrefix(sp, "tests") || strings.Contains(sp, "mocks") {
			continue
		}
		info := fi.Pkg.TypesInfo
		k := 0
		for _, cs := range eng.Calls(info, fi.Decl.Body) {
			if cs.Name == "internal/core/block.putBlock" && len(cs.Call.Args) == 3 {
				n++
				k++
				store := eng.ExprStr(cs.Call.Args[1])
				isEnc := eng.TypeName(info.TypeOf(cs.Call.Args[2])) == "internal/core/block.Encryption"
				toEnc := strings.Contains(store, "Encstore()")
				toBlock := strings.Contains(store, "Blockstore()")
				_ = toBlock
				good := (isEnc && toEnc) || (!isEnc && !toEnc)
				c.Check(good, rule, fmt.Sprintf("%s→putBlock#%d", shortFn(fi), k), cs.Call.Pos(), "key blocks to the key store, data blocks to the block store",
					fmt.Sprintf("putBlock stores a %s into %s: key material in the store served to peers, or data blocks hidden in the key store", eng.TypeName(info.TypeOf(cs.Call.Args[2])), store))
			}
			// who touches the key store
			if se, ok := cs.Call.Fun.(*ast.SelectorExpr); ok && se.Sel.Name == "Encstore" || cs.Name == "internal/datastore.EncstoreFrom" {
				n++
				allowed := sp == "internal/core/block" || sp == "internal/db" || sp == "internal/kms" || sp == "node" || sp == "internal/datastore" || sp == "internal/db/fetcher"
				c.Check(allowed, rule, shortFn(fi)+"→Encstore", cs.Call.Pos(), "key store touched by the block layer / merge / KMS / node start-up only",
					"package "+sp+" reaches the encryption key store")
			}
		}
	}
	c.Floor(rule, n, 4)
	// the network block service is built over the block store, never the key store
	if fi := c.Anchor(rule, "net.NewPeer"); fi != nil {
		info := fi.Pkg.TypesInfo
		ok := eng.ContainsCallTo(info, fi.Decl.Body, false, "internal/datastore.BlockstoreFrom") != nil && eng.ContainsCallTo(info, fi.Decl.Body, false, "internal/datastore.EncstoreFrom") == nil
		c.Check(ok, rule, "NewPeer:bitswap-over-blockstore", fi.Decl.Pos(), "peers are served from the block store only", "the peer's block service is not built over BlockstoreFrom (or reaches the key store)")
	}
}

func ruleEncInherit(c *eng.Ctx) {
	const rule = "ENC-INHERIT"
	fi := c.Anchor(rule, "internal/core/block.determineBlockEncryption")
	if fi == nil {
		return
	}
	info := fi.Pkg.TypesInfo
	var headsParam types.Object
	for _, p := range paramObjs(info, fi.Decl) {
		if _, ok := p.Type().Underlying().(*types.Slice); ok {
			headsParam = p
		}
	}
	// the function that walks the heads: determineBlockEncryption itself or a package helper that
	// receives the heads (a refactor may move the loop)
	type walker struct {
		fi    *eng.FuncInfo
		loop  *ast.RangeStmt
		call  *ast.CallExpr // call in determineBlockEncryption passing its own heads (nil when the loop is inline)
		bools map[types.Object]bool
	}
	findLoop := func(f *eng.FuncInfo, over types.Object) *ast.RangeStmt {
		var l *ast.RangeStmt
		ast.Inspect(f.Decl.Body, func(m ast.Node) bool {
			if rs, ok := m.(*ast.RangeStmt); ok && eng.ObjOf(f.Pkg.TypesInfo, rs.X) == over {
				l = rs
			}
			return true
		})
		return l
	}
	var w *walker
	if l := findLoop(fi, headsParam); l != nil {
		w = &walker{fi: fi, loop: l, bools: map[types.Object]bool{}}
	} else {
		for _, cs := range eng.Calls(info, fi.Decl.Body) {
			g := c.P.FuncOfObj(cs.Callee)
			if g == nil || g.Pkg != fi.Pkg || g.Decl.Body == nil {
				continue
			}
			gps := paramObjs(g.Pkg.TypesInfo, g.Decl)
			for ai, a := range cs.Call.Args {
				if eng.ObjOf(info, a) == headsParam && ai < len(gps) {
					if l := findLoop(g, gps[ai]); l != nil {
						w = &walker{fi: g, loop: l, call: cs.Call, bools: map[types.Object]bool{}}
						for bi, b := range cs.Call.Args {
							if tv, ok := info.Types[b]; ok && tv.Value != nil && bi < len(gps) {
								if bt, ok := gps[bi].Type().Underlying().(*types.Basic); ok && bt.Kind() == types.Bool {
									w.bools[gps[bi]] = tv.Value.ExactString() == "true"
								}
							}
						}
					}
				}
			}
		}
	}
	if w == nil {
		c.Bad(rule, "determineBlockEncryption:heads-loop", fi.Decl.Pos(), "the previous heads are never inspected: an update of an encrypted field is written in clear")
		return
	}
	flow := eng.NewFlow(info, fi.Decl.Body)
	inspected := func(nd ast.Node) bool {
		if w.call != nil {
			return nd.Pos() <= w.call.Pos() && w.call.End() <= nd.End()
		}
		return nd == ast.Node(w.loop.X)
	}
	// every `return nil, _, nil` (not encrypted) of determineBlockEncryption is dominated by the inspection
	n := 0
	ast.Inspect(fi.Decl.Body, func(m ast.Node) bool {
		if _, ok := m.(*ast.FuncLit); ok {
			return false
		}
		r, ok := m.(*ast.ReturnStmt)
		if !ok || len(r.Results) != 3 {
			return true
		}
		t0, ok0 := info.Types[r.Results[0]]
		t2, ok2 := info.Types[r.Results[2]]
		if !(ok0 && t0.IsNil() && ok2 && t2.IsNil()) {
			return true
		}
		n++
		pt, _ := flow.PointOf(r)
		un := flow.ReachesWithout(pt, inspected, nil)
		inLoop := w.call == nil && w.loop.Body.Pos() <= r.Pos() && r.End() <= w.loop.Body.End()
		c.Check(!un && !inLoop, rule, fmt.Sprintf("determineBlockEncryption:not-encrypted-return#%d", n), r.Pos(), "'not encrypted' is concluded only after every previous head was inspected",
			"the function can conclude 'not encrypted' without (or before finishing) the inspection of the previous heads: a later update of an encrypted field is stored in clear")
		return true
	})
	c.Floor(rule, n, 1)
	// inside the loop: an encrypted previous head yields its key or an error
	winfo := w.fi.Pkg.TypesInfo
	// the loop visits every head: nothing leaves it early on a head that is not encrypted
	{
		early := token.NoPos
		var stack []ast.Node
		ast.Inspect(w.loop.Body, func(m ast.Node) bool {
			if m == nil {
				stack = stack[:len(stack)-1]
				return true
			}
			stack = append(stack, m)
			nested, inEncrypted := false, false
			for _, s := range stack[:len(stack)-1] {
				switch x := s.(type) {
				case *ast.ForStmt, *ast.RangeStmt, *ast.SwitchStmt, *ast.TypeSwitchStmt, *ast.SelectStmt:
					nested = true
				case *ast.IfStmt:
					if be, ok := ast.Unparen(x.Cond).(*ast.BinaryExpr); ok && be.Op == token.NEQ && isFieldNamed(winfo, be.X, "Encryption") {
						inEncrypted = true
					}
				}
			}
			switch x := m.(type) {
			case *ast.BranchStmt:
				if x.Tok == token.BREAK && !nested && !inEncrypted {
					early = x.Pos()
				}
			case *ast.ReturnStmt:
				if len(x.Results) == 3 && !inEncrypted {
					t0, ok0 := winfo.Types[x.Results[0]]
					t2, ok2 := winfo.Types[x.Results[2]]
					if ok0 && t0.IsNil() && ok2 && t2.IsNil() {
						early = x.Pos()
					}
				}
			}
			return true
		})
		pos := w.loop.Pos()
		if early != token.NoPos {
			pos = early
		}
		c.Check(early == token.NoPos, rule, "heads-loop:visits-every-head", pos, "a head that is not encrypted does not end the search",
			"the search for an encrypted previous head stops at a head that is not encrypted: with mixed heads (a clear block written by a peer without the key sorting first) the key holder's next update of the encrypted field is stored in clear")
	}
	ast.Inspect(w.loop.Body, func(m ast.Node) bool {
		is, ok := m.(*ast.IfStmt)
		if !ok {
			return true
		}
		be, ok := ast.Unparen(is.Cond).(*ast.BinaryExpr)
		if !ok || be.Op != token.NEQ || !isFieldNamed(winfo, be.X, "Encryption") {
			return true
		}
		bflow := eng.NewFlow(winfo, is.Body)
		outs, _ := bflow.Paths(eng.PathSpec{Cond: func(br eng.Branch) eng.Tri {
			return eng.BranchTri(winfo, br, func(e ast.Expr) eng.Tri {
				if o := eng.ObjOf(winfo, e); o != nil {
					if v, ok := w.bools[o]; ok {
						return eng.TriOf(v)
					}
				}
				return eng.Unknown
			})
		}})
		bad := ""
		for _, o := range outs {
			switch o.Kind {
			case "return":
				if o.Ret != nil && len(o.Ret.Results) == 3 {
					t0, ok0 := winfo.Types[o.Ret.Results[0]]
					t2, ok2 := winfo.Types[o.Ret.Results[2]]
					if ok0 && t0.IsNil() && ok2 && t2.IsNil() {
						bad = "returns (nil, _, nil) at " + c.P.Rel(o.Ret.Pos())
					}
				}
			default:
				bad = "leaves the branch without returning (continue / fall through)"
			}
		}
		c.Check(bad == "" && len(outs) > 0, rule, "determineBlockEncryption:encrypted-head⇒key-or-error", is.Pos(), "an encrypted previous head yields its key or an error",
			"on the branch where a previous head carries an encryption link the function "+bad+": the update is then treated as unencrypted and stored in clear")
		return true
	})
	keyOK := false
	ast.Inspect(w.loop.Body, func(m ast.Node) bool {
		cl, ok := m.(*ast.CompositeLit)
		if !ok || eng.TypeName(winfo.TypeOf(cl)) != "internal/core/block.Encryption" {
			return true
		}
		for _, e := range cl.Elts {
			if kv, ok := e.(*ast.KeyValueExpr); ok {
				if k, ok := kv.Key.(*ast.Ident); ok && k.Name == "Key" {
					if se, ok := ast.Unparen(kv.Value).(*ast.SelectorExpr); ok && se.Sel.Name == "Key" {
						keyOK = true
					}
				}
			}
		}
		return true
	})
	c.Check(keyOK, rule, "determineBlockEncryption:inherits-key", w.loop.Pos(), "the previous head's key is reused", "the inherited encryption block does not take its Key from the previous head's encryption block")
	// a field without a head of its own consults the document's composite heads
	docHeads := false
	ast.Inspect(fi.Decl.Body, func(m ast.Node) bool {
		cl, ok := m.(*ast.CompositeLit)
		if ok && eng.TypeName(info.TypeOf(cl)) == "internal/keys.HeadstoreDocKey" {
			for _, e := range cl.Elts {
				if kv, ok := e.(*ast.KeyValueExpr); ok {
					if o := selObj(info, kv.Value); o != nil && o.Name() == "COMPOSITE_NAMESPACE" {
						docHeads = true
					}
				}
			}
		}
		return true
	})
	c.Check(docHeads, rule, "determineBlockEncryption:new-field-consults-document-heads", fi.Decl.Pos(), "a field first written by an update inherits a document-level encryption from the document's heads",
		"determineBlockEncryption only looks at the field's own previous heads: a field first set by an update of a document encrypted as a whole has none, so its value is written to the shared block store in clear")
}

func ruleEncSibling(c *eng.Ctx) {
	const rule = "ENC-SIBLING"
	enc := c.Anchor(rule, "internal/core/block.encryptBlock")
	dec := c.Anchor(rule, "internal/db.decryptBlock")
	if enc == nil || dec == nil {
		return
	}
	exempt := func(fi *eng.FuncInfo) []string {
		info := fi.Pkg.TypesInfo
		set := map[string]bool{}
		// first if statement of the body that returns the block unchanged
		for _, st := range fi.Decl.Body.List {
			is, ok := st.(*ast.IfStmt)
			if !ok {
				continue
			}
			ast.Inspect(is.Cond, func(x ast.Node) bool {
				if call, ok := x.(*ast.CallExpr); ok {
					nm := eng.CalleeName(info, call)
					if strings.HasPrefix(nm, "internal/core/crdt.(CRDT).Is") {
						set[strings.TrimPrefix(nm, "internal/core/crdt.(CRDT).")] = true
					}
				}
				return true
			})
			break
		}
		return setKeys(set)
	}
	e, d := exempt(enc), exempt(dec)
	c.Check(len(e) > 0 && strings.Join(e, ",") == strings.Join(d, ","), rule, "encryptBlock≡decryptBlock:exempt-variants", enc.Decl.Pos(),
		fmt.Sprintf("both exempt %v", e), fmt.Sprintf("encryptBlock exempts %v but decryptBlock exempts %v: a variant is encrypted but never decrypted (or the reverse)", e, d))
	// both go through the context's encryptor with the block's key
	for _, p := range []struct {
		fi *eng.FuncInfo
		m  string
	}{{enc, "Encrypt"}, {dec, "Decrypt"}} {
		info := p.fi.Pkg.TypesInfo
		ok := false
		for _, cs := range eng.Calls(info, p.fi.Decl.Body) {
			if strings.HasSuffix(cs.Name, "."+p.m) && len(cs.Call.Args) == 2 {
				if se, ok2 := ast.Unparen(cs.Call.Args[1]).(*ast.SelectorExpr); ok2 && se.Sel.Name == "Key" {
					ok = true
				}
			}
		}
		c.Check(ok, rule, shortFn(p.fi)+":uses-block-key", p.fi.Decl.Pos(), p.m+" with the encryption block's key", shortFn(p.fi)+" does not "+p.m+" with the encryption block's Key")
	}
}

func ruleKeyEgress(c *eng.Ctx) {
	const rule = "KEY-EGRESS"
	if fi := c.Anchor(rule, "internal/kms.(*pubSubService).tryGenEncryptionKeyLocally"); fi != nil {
		info := fi.Pkg.TypesInfo
		n := 0
		ast.Inspect(fi.Decl.Body, func(m ast.Node) bool {
			as, ok := m.(*ast.AssignStmt)
			if !ok || len(as.Lhs) != 1 || !isFieldNamed(info, as.Lhs[0], "Blocks") || len(as.Rhs) != 1 {
				return true
			}
			call, ok := ast.Unparen(as.Rhs[0]).(*ast.CallExpr)
			if !ok {
				return true
			}
			if id, ok := call.Fun.(*ast.Ident); !ok || id.Name != "append" {
				return true
			}
			n++
			good := true
			for _, a := range call.Args[1:] {
				o := eng.ObjOf(info, a)
				fromECIES := false
				if o != nil {
					ast.Inspect(fi.Decl.Body, func(x ast.Node) bool {
						if a2, ok := x.(*ast.AssignStmt); ok && len(a2.Rhs) == 1 && eng.ObjOf(info, a2.Lhs[0]) == o {
							if c2, ok := a2.Rhs[0].(*ast.CallExpr); ok && eng.CalleeName(info, c2) == "crypto.EncryptECIES" {
								fromECIES = true
							}
						}
						return true
					})
				}
				if !fromECIES {
					good = false
				}
			}
			c.Check(good, rule, fmt.Sprintf("tryGenEncryptionKeyLocally:reply-block#%d", n), as.Pos(), "reply carries ECIES ciphertext of the key block", "a key block is appended to the reply without crypto.EncryptECIES: document keys travel in clear over pubsub")
			return true
		})
		c.Floor(rule, n, 1)
	}
	if fi := c.Anchor(rule, "internal/kms.(*pubSubService).getEncryptionKeysLocally"); fi != nil {
		info := fi.Pkg.TypesInfo
		var hasPerm types.Object
		var permCall *ast.CallExpr
		ast.Inspect(fi.Decl.Body, func(m ast.Node) bool {
			if as, ok := m.(*ast.AssignStmt); ok && len(as.Rhs) == 1 && len(as.Lhs) == 2 {
				if call, ok := as.Rhs[0].(*ast.CallExpr); ok && strings.HasSuffix(eng.CalleeName(info, call), "doesIdentityHaveDocPermission") {
					hasPerm = eng.ObjOf(info, as.Lhs[0])
					permCall = call
				}
			}
			return true
		})
		if hasPerm == nil {
			c.Bad(rule, "getEncryptionKeysLocally:permission-check", fi.Decl.Pos(), "key blocks are collected without a document permission check of the requester")
			return
		}
		ast.Inspect(fi.Decl.Body, func(m ast.Node) bool {
			rs, ok := m.(*ast.RangeStmt)
			if !ok {
				return true
			}
			flow := eng.NewFlow(info, rs.Body)
			ast.Inspect(rs.Body, func(x ast.Node) bool {
				as, ok := x.(*ast.AssignStmt)
				if !ok || len(as.Rhs) != 1 {
					return true
				}
				call, ok := ast.Unparen(as.Rhs[0]).(*ast.CallExpr)
				if !ok {
					return true
				}
				if id, ok := call.Fun.(*ast.Ident); !ok || id.Name != "append" {
					return true
				}
				pt, okp := flow.PointOf(as)
				// every path of the iteration to the append passes the permission call, and with its
				// answer false the append is unreachable (see gatedAt)
				gated := okp && deniedUnreachable(info, flow, rs.Body, permCall, hasPerm, pt, nil)
				c.Check(gated, rule, "getEncryptionKeysLocally:append-after-permission", as.Pos(), "a key block is released only after the permission check answered true", "a key block is added to the result on a path where the requester has not passed the document permission check (the check is skipped, its result preset, or a denied requester falls through)")
				return true
			})
			return true
		})
	}
	_ = token.NoPos
}

// ruleEncMembership: whether a field is individually encrypted is decided by looking at every
// element of the user-supplied EncryptedFields list (which is in request order, not sorted): the
// list is only ever ranged over, passed to slices.Contains/Index, measured, or handed to a helper
// that does the same. A binary search or a positional read misses listed fields, which are then
// stored in clear.
func ruleEncMembership(c *eng.Ctx) {
	const rule = "ENC-MEMBERSHIP"
	n := 0
	var checkUse func(fi *eng.FuncInfo, isList func(e ast.Expr) bool, label string, depth int)
	checkUse = func(fi *eng.FuncInfo, isList func(e ast.Expr) bool, label string, depth int) {
		info := fi.Pkg.TypesInfo
		var stack []ast.Node
		ord := 0
		ast.Inspect(fi.Decl.Body, func(m ast.Node) bool {
			if m == nil {
				stack = stack[:len(stack)-1]
				return true
			}
			stack = append(stack, m)
			e, ok := m.(ast.Expr)
			if !ok || !isList(e) || len(stack) < 2 {
				return true
			}
			parent := stack[len(stack)-2]
			if p, ok := parent.(*ast.ParenExpr); ok && len(stack) >= 3 {
				_ = p
				parent = stack[len(stack)-3]
			}
			ord++
			n++
			construct := fmt.Sprintf("%s:%s-use#%d", shortFn(fi), label, ord)
			switch p := parent.(type) {
			case *ast.RangeStmt:
				if p.X == e {
					c.OK(rule, construct, e.Pos(), "ranged over")
					return true
				}
			case *ast.KeyValueExpr, *ast.AssignStmt, *ast.ValueSpec, *ast.ReturnStmt:
				c.OK(rule, construct, e.Pos(), "stored/forwarded unchanged")
				return true
			case *ast.CallExpr:
				if id, ok := p.Fun.(*ast.Ident); ok && (id.Name == "len" || id.Name == "cap") {
					c.OK(rule, construct, e.Pos(), "measured")
					return true
				}
				nm := eng.CalleeName(info, p)
				switch nm {
				case "slices.Contains", "slices.Index", "slices.ContainsFunc", "slices.IndexFunc", "slices.Clone":
					c.OK(rule, construct, e.Pos(), "exhaustive library scan "+nm)
					return true
				}
				if strings.HasPrefix(nm, "slices.BinarySearch") || strings.HasPrefix(nm, "sort.Search") {
					c.Bad(rule, construct, p.Pos(), "the list of individually encrypted fields is binary-searched ("+nm+") although it is in request order, not sorted: listed fields are reported as not encrypted and written to the block store in clear")
					return true
				}
				if g := c.P.FuncOfObj(eng.Callee(info, p)); g != nil && g.Decl.Body != nil && depth > 0 {
					gps := paramObjs(g.Pkg.TypesInfo, g.Decl)
					for ai, a := range p.Args {
						if a == e && ai < len(gps) {
							gp := gps[ai]
							ginfo := g.Pkg.TypesInfo
							checkUse(g, func(x ast.Expr) bool { return eng.ObjOf(ginfo, x) == gp }, label, depth-1)
						}
					}
					c.OK(rule, construct, e.Pos(), "handed to "+shortFn(g)+" (checked there)")
					return true
				}
				c.OK(rule, construct, e.Pos(), "handed to "+nm)
				return true
			case *ast.IndexExpr, *ast.SliceExpr:
				c.Bad(rule, construct, e.Pos(), "the list of individually encrypted fields is read by position/sub-slice: the other listed fields are not considered and are written in clear")
				return true
			}
			c.OK(rule, construct, e.Pos(), "other use")
			return true
		})
	}
	for _, fi := range c.P.Funcs() {
		if fi.Decl.Body == nil || isTestFile(c.P, fi) || !pkgMatch(eng.ShortPkg(fi.Pkg.PkgPath), []string{"internal/encryption", "internal/core/block", "internal/db"}) {
			continue
		}
		info := fi.Pkg.TypesInfo
		checkUse(fi, func(e ast.Expr) bool {
			se, ok := e.(*ast.SelectorExpr)
			return ok && se.Sel.Name == "EncryptedFields" && isFieldNamed(info, se, "EncryptedFields")
		}, "EncryptedFields", 2)
	}
	c.Floor(rule, n, 4)
}
