package rules

import (
	"fmt"
	"go/ast"
	"go/token"
	"go/types"
	"strings"

	"golang.org/x/tools/go/ssa"

	"defracheck/internal/eng"
)

func init() {
	register(&Property{
		ID: "C10",
		Rules: []Rule{
			{"ACP-WRAP", ruleACPWrap},
			{"ACP-NEXTDOC", ruleACPNextDoc},
			{"MULTI-ADVANCE", ruleMultiAdvance},
			{"ACP-GATE", ruleACPGate},
			{"ACP-READ-GATE", ruleACPReadGate},
			{"ACP-PLUMB", ruleACPPlumb},
			{"ACP-SOURCES", ruleACPSources},
			{"COMMITS-ACP-GATE", ruleCommitsACPGate},
			{"EVENT-PUBLIC", ruleEventPublic},
		},
		Meta: eng.PropMeta{
			Explanation: "Decides the structural side of 'every read and write path passes the document ACP': (ACP-WRAP) in wrappingFetcher.Start, whenever an ACP is configured the permissioned fetcher wraps the complete stack built so far (index or prefix fetcher and the deleted-documents fetcher); (ACP-NEXTDOC) permissionedFetcher.NextDoc hands out a docID only on the true edge of a Read-permission check of that docID; (ACP-GATE) every function of internal/db that writes a document commit (coreblock.AddDelta) is reached only through the true edge of checkAccessOfDocWithACP with the Update resp. Delete permission — in the function itself or in every caller (create is the tabled exemption: it registers ownership); (ACP-READ-GATE) exists, GetAllDocIDs and VerifySignature consult the Read permission before revealing a document; (ACP-PLUMB) inside the engine the ACP handle and the requester identity are passed on unchanged (never replaced by None) at every call that accepts them; (ACP-SOURCES) every plan leaf that reads a store reaches the permission check through the type-flow call graph; (EVENT-PUBLIC) update events carry only ids, cid and the block bytes. (COMMITS-ACP-GATE) dagScanNode.Next yields a commit only after a call reaching internal/db/permission.Check* and never on the branch where it answered false. All gate rules decide 'with the check's answer assumed false the sink is unreachable' and 'every path to the sink passes the check', rather than pruning the edges that agree with a granted permission.",
			NotDecided:  "non-interference over aggregates, joins, ordering and limits (information flow through counts and positions); grant/revoke timing; the ACP engine itself (third party)",
		},
	})
}

// ---------------------------------------------------------------------------------------------

func ruleACPWrap(c *eng.Ctx) {
	const rule = "ACP-WRAP"
	seqs, pos, ok := fetcherStack(c, rule, eng.Unknown, eng.True)
	if !ok {
		return
	}
	for _, seq := range seqs {
		perm := -1
		lastBase := -1
		for i, e := range seq {
			if e == "newPermissionedFetcher(top)" {
				perm = i
			} else if !strings.HasSuffix(e, "(top)") || e == "newMultiFetcher(top)" {
				lastBase = i
			}
		}
		good := perm >= 0 && perm > lastBase
		c.Check(good, rule, "Start:acp-present:stack("+strings.Join(seq, " > ")+")", pos,
			"the permissioned fetcher wraps every document source of the stack",
			"with document ACP configured the fetcher stack is ["+strings.Join(seq, " > ")+"]: a document source (index/prefix/deleted-docs fetcher) is not below the permissioned fetcher — private documents are returned to requesters without read permission")
	}
	c.Floor(rule, len(seqs), 2)
}

func ruleACPNextDoc(c *eng.Ctx) {
	const rule = "ACP-NEXTDOC"
	fi := c.Anchor(rule, "internal/db/fetcher.(*permissionedFetcher).NextDoc")
	if fi == nil {
		return
	}
	info := fi.Pkg.TypesInfo
	var def *ast.AssignStmt
	var okObj types.Object
	var check *ast.CallExpr
	ast.Inspect(fi.Decl.Body, func(m ast.Node) bool {
		as, isAs := m.(*ast.AssignStmt)
		if isAs && len(as.Rhs) == 1 && len(as.Lhs) == 2 {
			if call, isCall := as.Rhs[0].(*ast.CallExpr); isCall && strings.HasPrefix(eng.CalleeName(info, call), "internal/db/permission.Check") {
				def, okObj, check = as, eng.ObjOf(info, as.Lhs[0]), call
			}
		}
		return true
	})
	if def == nil {
		c.Bad(rule, "permissionedFetcher.NextDoc:check", fi.Decl.Pos(), "NextDoc no longer calls the permission check")
		return
	}
	// Read permission and the docID of the document about to be returned
	readPerm := false
	for _, a := range check.Args {
		if o := selObj(info, a); o != nil && o.Name() == "DocumentReadPerm" {
			readPerm = true
		}
	}
	c.Check(readPerm, rule, "permissionedFetcher.NextDoc:read-permission", check.Pos(), "checks DocumentReadPerm", "the fetcher's check does not use the Read permission")
	flow := eng.NewFlow(info, fi.Decl.Body)
	start, _ := flow.PointOf(def)
	outs, _ := flow.Paths(eng.PathSpec{Start: &start, Cond: func(br eng.Branch) eng.Tri {
		return eng.BranchTri(info, br, func(e ast.Expr) eng.Tri {
			if t := happyAtom(info, e); t != eng.Unknown {
				return t
			}
			if eng.ObjOf(info, e) == okObj {
				return eng.False
			}
			return eng.Unknown
		})
	}})
	good := len(outs) > 0
	var got []string
	for _, o := range outs {
		got = append(got, o.Sig(info))
		if o.Kind == "return" && o.Ret != nil && len(o.Ret.Results) == 2 {
			v := eng.RetVal(info, o.Ret.Results[0])
			if !strings.HasPrefix(v, "call:") { // only a recursive NextDoc() or a None constructor may be returned
				good = false
			}
		}
	}
	c.Check(good, rule, "permissionedFetcher.NextDoc:denied⇒skipped", def.Pos(), "a denied document is skipped",
		fmt.Sprintf("with the permission denied NextDoc yields %v: the docID of an unreadable document is handed to the caller", got))
}

// ---------------------------------------------------------------------------------------------
// ACP-GATE

type acpGate struct {
	ok   types.Object
	perm string
	call *ast.CallExpr
}

func gatesOf(fi *eng.FuncInfo) []acpGate {
	info := fi.Pkg.TypesInfo
	var out []acpGate
	ast.Inspect(fi.Decl.Body, func(m ast.Node) bool {
		as, isAs := m.(*ast.AssignStmt)
		if !isAs || len(as.Rhs) != 1 || len(as.Lhs) != 2 {
			return true
		}
		call, isCall := as.Rhs[0].(*ast.CallExpr)
		if !isCall {
			return true
		}
		nm := eng.CalleeName(info, call)
		if nm != "internal/db.(*collection).checkAccessOfDocWithACP" && !strings.HasPrefix(nm, "internal/db/permission.Check") {
			return true
		}
		g := acpGate{ok: eng.ObjOf(info, as.Lhs[0]), call: call}
		for _, a := range call.Args {
			if o := selObj(info, a); o != nil && strings.HasPrefix(o.Name(), "Document") && strings.HasSuffix(o.Name(), "Perm") {
				g.perm = o.Name()
			}
		}
		out = append(out, g)
		return true
	})
	return out
}

// gatedAt: the target is reached only after a permission check of the required kind answered true:
// (a) every path from the entry of fi to the target passes the assignment that binds the check's
// result (so no other definition of that variable — a preset `ok := true`, a skipped call — can
// reach the target), and (b) from that assignment on, with the result assumed FALSE and every branch
// condition evaluated three-valued under that assumption, the target is unreachable. (Evaluating
// under "false" rather than pruning the edges that agree with "true" matters for compound
// conditions: in `if !ok && other { return }` the not-taken edge is also passable with ok == false.)
func gatedAt(fi *eng.FuncInfo, flow *eng.FlowGraph, target ast.Node, perm string) bool {
	info := fi.Pkg.TypesInfo
	var gates []acpGate
	for _, g := range gatesOf(fi) {
		if g.perm == perm && g.ok != nil {
			gates = append(gates, g)
		}
	}
	if len(gates) == 0 {
		return false
	}
	pt, found := flow.PointOf(target)
	if !found {
		return true
	}
	noACP := func(cond ast.Expr, taken bool) bool {
		// with document ACP not configured there is nothing to check: that edge is not an ungated route
		return strings.HasSuffix(eng.ExprStr(ast.Unparen(cond)), ".documentACP.HasValue()") && !taken
	}
	for _, g := range gates {
		if deniedUnreachable(info, flow, fi.Decl.Body, g.call, g.ok, pt, noACP) {
			return true
		}
	}
	return false
}

// deniedUnreachable implements (a) and (b) of gatedAt for one check call binding okVar.
func deniedUnreachable(info *types.Info, flow *eng.FlowGraph, body *ast.BlockStmt, check *ast.CallExpr, okVar types.Object, target eng.Point, prune func(ast.Expr, bool) bool) bool {
	as := assignOf(body, check)
	if as == nil {
		return false
	}
	isGate := func(nd ast.Node) bool { return nd == ast.Node(as) }
	// (a) no path to the target avoids the check
	if flow.ReachesWithout(target, isGate, func(cond ast.Expr, taken bool) bool {
		return prune == nil || !prune(cond, taken)
	}) {
		return false
	}
	// (b) with the check's answer false the target is unreachable from the check
	gp, ok := flow.PointOf(as)
	if !ok {
		return false
	}
	reached := flow.Forward(gp, false, eng.Walk{
		Visit: func(p eng.Point, nd ast.Node) eng.Action {
			if p == target {
				return eng.Hit
			}
			// the variable is bound anew: the knowledge ends here
			if a2, ok := nd.(*ast.AssignStmt); ok && a2 != as {
				for _, l := range a2.Lhs {
					if eng.ObjOf(info, l) == okVar {
						return eng.Cut
					}
				}
			}
			return eng.Continue
		},
		Edge: func(cond ast.Expr, taken bool) bool {
			if prune != nil && prune(cond, taken) {
				return false
			}
			t := eng.EvalBool(info, cond, func(e ast.Expr) eng.Tri {
				if eng.ObjOf(info, e) == okVar {
					return eng.False
				}
				return eng.Unknown
			})
			switch t {
			case eng.True:
				return taken
			case eng.False:
				return !taken
			}
			return true
		},
	})
	return !reached
}

// acpGateExempt: writers that need no prior permission check.
var acpGateExempt = map[string]string{
	"internal/db.(*collection).create": "creating a document needs no permission on it; create registers the creator as owner (registerDocWithACP) in the same transaction",
}

func ruleACPGate(c *eng.Ctx) {
	const rule = "ACP-GATE"
	n := 0
	for _, fi := range c.P.FuncsIn("internal/db") {
		if fi.Decl.Body == nil {
			continue
		}
		info := fi.Pkg.TypesInfo
		var flow *eng.FlowGraph
		ord := 0
		for _, cs := range eng.Calls(info, fi.Decl.Body) {
			if cs.Name != "internal/core/block.AddDelta" || cs.Lit != nil {
				continue
			}
			// only document-level writers (composite CRDT delta); field and collection deltas ride on them
			kind := ""
			if len(cs.Call.Args) >= 3 {
				if dc, ok := ast.Unparen(cs.Call.Args[2]).(*ast.CallExpr); ok {
					switch eng.CalleeName(info, dc) {
					case "internal/core/crdt.(*DocComposite).DeleteDelta":
						kind = "DocumentDeletePerm"
					case "internal/core/crdt.(*DocComposite).Delta":
						kind = "DocumentUpdatePerm"
					}
				}
			}
			if kind == "" {
				continue
			}
			n++
			ord++
			if flow == nil {
				flow = eng.NewFlow(info, fi.Decl.Body)
			}
			construct := fmt.Sprintf("%s→AddDelta(composite)#%d:%s", shortFn(fi), ord, kind)
			if gatedAt(fi, flow, cs.Call, kind) {
				c.OK(rule, construct, cs.Call.Pos(), "dominated by the true edge of the "+kind+" check in the same function")
				continue
			}
			bad := ungatedCaller(c.P, fi, kind, 3, map[*eng.FuncInfo]bool{})
			c.Check(bad == "", rule, construct, cs.Call.Pos(), "every caller passes the true edge of the "+kind+" check first",
				"the document commit is written without the "+kind+" check on the route through "+bad+": a requester lacking that permission changes the document")
		}
	}
	c.Floor(rule, n, 2)
}

// ungatedCaller returns "" if every route into fi (static callers inside internal/db, up to depth)
// is gated or exempt; otherwise a description of the ungated route.
func ungatedCaller(p *eng.Program, fi *eng.FuncInfo, perm string, depth int, seen map[*eng.FuncInfo]bool) string {
	if _, ok := acpGateExempt[fi.Name]; ok {
		return ""
	}
	if depth == 0 || seen[fi] {
		return shortFn(fi) + " (call depth exhausted)"
	}
	seen[fi] = true
	callers := 0
	for _, cf := range p.FuncsIn("internal/db") {
		if cf.Decl.Body == nil {
			continue
		}
		info := cf.Pkg.TypesInfo
		var flow *eng.FlowGraph
		for _, cs := range eng.Calls(info, cf.Decl.Body) {
			if cs.Callee != fi.Obj {
				continue
			}
			callers++
			if _, ok := acpGateExempt[cf.Name]; ok {
				continue
			}
			if cs.Lit != nil {
				return shortFn(cf) + " (closure)"
			}
			if flow == nil {
				flow = eng.NewFlow(info, cf.Decl.Body)
			}
			if gatedAt(cf, flow, cs.Call, perm) {
				continue
			}
			if r := ungatedCaller(p, cf, perm, depth-1, seen); r != "" {
				return shortFn(cf) + " ← " + r
			}
		}
	}
	if callers == 0 {
		if fi.Obj.Exported() {
			return shortFn(fi) + " (exported entry point)"
		}
		return "" // dead code
	}
	return ""
}

// ---------------------------------------------------------------------------------------------
// ACP-READ-GATE

func ruleACPReadGate(c *eng.Ctx) {
	const rule = "ACP-READ-GATE"
	// exists(): the datastore Get is dominated by the Read gate's true edge
	if fi := c.Anchor(rule, "internal/db.(*collection).exists"); fi != nil {
		info := fi.Pkg.TypesInfo
		flow := eng.NewFlow(info, fi.Decl.Body)
		k := 0
		for _, cs := range eng.Calls(info, fi.Decl.Body) {
			if cs.Name != "github.com/sourcenetwork/corekv.(Reader).Get" && cs.Name != "github.com/sourcenetwork/corekv.(Reader).Has" {
				continue
			}
			k++
			c.Check(gatedAt(fi, flow, cs.Call, "DocumentReadPerm"), rule, fmt.Sprintf("collection.exists:store-read#%d", k), cs.Call.Pos(),
				"existence is read only after the Read check passed", "exists() reads the document marker without (or before) the Read permission check: existence of a private document is revealed")
		}
		if k == 0 {
			c.Unknown(rule, "collection.exists:store-read", fi.Decl.Pos(), "anchor-unresolved")
		}
	}
	// getAllDocIDsChan: a docID is sent on the channel only after the Read gate's true edge
	if fi := c.Anchor(rule, "internal/db.(*collection).getAllDocIDsChan"); fi != nil {
		info := fi.Pkg.TypesInfo
		k := 0
		ast.Inspect(fi.Decl.Body, func(m ast.Node) bool {
			lit, ok := m.(*ast.FuncLit)
			if !ok {
				return true
			}
			flow := eng.NewFlow(info, lit.Body)
			lfi := &eng.FuncInfo{Pkg: fi.Pkg, Decl: &ast.FuncDecl{Body: lit.Body, Type: lit.Type, Name: fi.Decl.Name}, Obj: fi.Obj, Name: fi.Name, File: fi.File}
			ast.Inspect(lit.Body, func(x ast.Node) bool {
				send, ok := x.(*ast.SendStmt)
				if !ok {
					return true
				}
				// sends that carry a docID (composite literal with an ID field), not error results
				carries := false
				ast.Inspect(send.Value, func(y ast.Node) bool {
					if kv, ok := y.(*ast.KeyValueExpr); ok {
						if id, ok := kv.Key.(*ast.Ident); ok && id.Name == "ID" {
							carries = true
						}
					}
					return true
				})
				if !carries {
					return true
				}
				k++
				c.Check(gatedAt(lfi, flow, send, "DocumentReadPerm"), rule, fmt.Sprintf("getAllDocIDsChan:send-docID#%d", k), send.Pos(),
					"a docID is emitted only after the Read check passed", "GetAllDocIDs emits a docID without the Read permission check's true edge")
				return true
			})
			return true
		})
		if k == 0 {
			c.Unknown(rule, "getAllDocIDsChan:send", fi.Decl.Pos(), "anchor-unresolved: no channel send carrying an ID")
		}
	}
	// VerifySignature: permission check present and its false edge returns before verification
	if fi := c.Anchor(rule, "internal/db.(*DB).VerifySignature"); fi != nil {
		info := fi.Pkg.TypesInfo
		flow := eng.NewFlow(info, fi.Decl.Body)
		k := 0
		for _, cs := range eng.Calls(info, fi.Decl.Body) {
			if cs.Name != "internal/core/block.VerifyBlockSignatureWithKey" && cs.Name != "internal/core/block.VerifyBlockSignature" {
				continue
			}
			k++
			c.Check(gatedAt(fi, flow, cs.Call, "DocumentReadPerm"), rule, fmt.Sprintf("VerifySignature:verify#%d", k), cs.Call.Pos(),
				"signature verification of a document's commit happens only after the Read check passed", "VerifySignature verifies (and thereby confirms the existence of) a commit of a document the requester may not read")
		}
		if k == 0 {
			c.Unknown(rule, "VerifySignature:verify", fi.Decl.Pos(), "anchor-unresolved")
		}
	}
}

// ---------------------------------------------------------------------------------------------
// ACP-PLUMB

func isOptionOf(t types.Type, elem string) bool {
	n, ok := t.(*types.Named)
	if !ok || n.Obj().Name() != "Option" || n.Obj().Pkg() == nil || !strings.HasSuffix(n.Obj().Pkg().Path(), "sourcenetwork/immutable") {
		return false
	}
	ta := n.TypeArgs()
	return ta != nil && ta.Len() == 1 && eng.TypeName(ta.At(0)) == elem
}

func ruleACPPlumb(c *eng.Ctx) {
	const rule = "ACP-PLUMB"
	n := 0
	for _, fi := range c.P.Funcs() {
		sp := eng.ShortPkg(fi.Pkg.PkgPath)
		if fi.Decl.Body == nil || !(strings.HasPrefix(sp, "internal/") || sp == "net") || strings.Contains(sp, "mocks") {
			continue
		}
		info := fi.Pkg.TypesInfo
		ord := map[string]int{}
		for _, cs := range eng.Calls(info, fi.Decl.Body) {
			if cs.Callee == nil {
				continue
			}
			sig, ok := cs.Callee.Type().(*types.Signature)
			if !ok {
				continue
			}
			for i, a := range cs.Call.Args {
				if i >= sig.Params().Len() {
					break
				}
				pt := sig.Params().At(i).Type()
				what := ""
				switch {
				case isOptionOf(pt, "acp/dac.DocumentACP"):
					what = "documentACP"
				case isOptionOf(pt, "acp/identity.Identity"):
					what = "identity"
				default:
					continue
				}
				n++
				k := shortFn(fi) + "→" + cs.Name + ":" + what
				ord[k]++
				construct := fmt.Sprintf("%s#%d", k, ord[k])
				// accepted origins: a parameter, a field, a local assigned from one, identity.FromContext(ctx)
				bad := ""
				if call, isCall := ast.Unparen(a).(*ast.CallExpr); isCall {
					cn := eng.CalleeName(info, call)
					switch {
					case strings.HasSuffix(cn, "immutable.None"):
						bad = "immutable.None"
					case what == "identity" && (cn == "acp/identity.FromContext" || strings.HasSuffix(cn, "identity.FromContext")):
					case what == "identity":
						// Some(identity) constructions are how a node acts under its own identity
					default:
						bad = cn
					}
				} else if o := selObj(info, a); o != nil && o.Name() == "NoDocumentACP" {
					bad = "dac.NoDocumentACP"
				}
				c.Check(bad == "", rule, construct, a.Pos(), what+" passed on unchanged",
					fmt.Sprintf("the %s argument is %s instead of the caller's own %s: everything below this call runs without access control", what, bad, what))
			}
		}
	}
	c.Floor(rule, n, 8)
}

// ---------------------------------------------------------------------------------------------
// ACP-SOURCES

// acpSourceExceptions: plan leaves that legitimately read without a per-document check.
var acpSourceExceptions = map[string]string{
	"planner.cachedViewFetcher:reads-store": "reads the materialized view cache, which holds derived rows without document ids; materialized views over ACP-protected sources are rejected when the view is defined (ErrMaterializedViewAndACPNotSupported — the rule checks that this rejection is still wired in)",
}

func ruleACPSources(c *eng.Ctx) {
	const rule = "ACP-SOURCES"
	c.P.BuildCG()
	pk := c.P.Pkg("internal/planner")
	if pk == nil {
		c.Unknown(rule, "anchor:internal/planner", token.NoPos, "anchor-unresolved")
		return
	}
	pnObj := pk.Types.Scope().Lookup("planNode")
	if pnObj == nil {
		c.Unknown(rule, "anchor:planNode", token.NoPos, "anchor-unresolved")
		return
	}
	pnIface, _ := pnObj.Type().Underlying().(*types.Interface)
	isPlanNodeInvoke := func(site ssa.CallInstruction) bool {
		if site == nil {
			return false
		}
		cm := site.Common()
		if !cm.IsInvoke() {
			return false
		}
		return types.Identical(cm.Value.Type().Underlying(), pnIface) || types.Implements(cm.Value.Type(), pnIface) && types.IsInterface(cm.Value.Type())
	}
	isCheck := func(fn *ssa.Function) bool {
		if fn.Pkg == nil {
			return false
		}
		return eng.ShortPkg(fn.Pkg.Pkg.Path()) == "internal/db/permission" && strings.HasPrefix(fn.Name(), "Check")
	}
	isStoreAccessor := func(fn *ssa.Function) bool {
		o, ok := fn.Object().(*types.Func)
		if !ok {
			return false
		}
		sig := o.Type().(*types.Signature)
		if sig.Recv() == nil {
			return false
		}
		if eng.TypeName(sig.Recv().Type()) != "internal/datastore.Multistore" {
			return false
		}
		switch o.Name() {
		case "Datastore", "Headstore", "Blockstore":
			return true
		}
		return false
	}
	// own cone of a node type: methods Init/Start/Next/Value..., not crossing planNode interface calls
	n := 0
	scope := pk.Types.Scope()
	for _, name := range scope.Names() {
		tn, ok := scope.Lookup(name).(*types.TypeName)
		if !ok {
			continue
		}
		named, ok := tn.Type().(*types.Named)
		if !ok {
			continue
		}
		ptr := types.NewPointer(named)
		if !types.Implements(ptr, pnIface) && !types.Implements(named, pnIface) {
			continue
		}
		var roots []*ssa.Function
		ms := c.P.SSA.MethodSets.MethodSet(ptr)
		for i := 0; i < ms.Len(); i++ {
			if fn := c.P.SSA.MethodValue(ms.At(i)); fn != nil {
				switch fn.Name() {
				case "Init", "Start", "Next", "Prefixes":
					roots = append(roots, fn)
				}
			}
		}
		cone := coneFiltered(c.P, roots, isPlanNodeInvoke)
		readsStore, checks := false, false
		for fn := range cone {
			if isStoreAccessor(fn) {
				readsStore = true
			}
			if isCheck(fn) {
				checks = true
			}
			// interface calls txn.Datastore()/Headstore()/Blockstore(): the transaction comes out of the
			// context (opaque to type flow), so the accessor is recognised at the call site
			for _, b := range fn.Blocks {
				for _, in := range b.Instrs {
					ci, ok := in.(ssa.CallInstruction)
					if !ok {
						continue
					}
					cm := ci.Common()
					if cm.IsInvoke() && cm.Method != nil && cm.Method.Pkg() != nil && strings.HasPrefix(cm.Method.Pkg().Path(), eng.Module) {
						switch cm.Method.Name() {
						case "Datastore", "Headstore", "Blockstore":
							readsStore = true
						}
					}
				}
			}
		}
		// store accessors are outside ModFns? they are module functions (internal/datastore): in cone.
		c.Notes = append(c.Notes, fmt.Sprintf("ACP-SOURCES: %s cone=%d readsStore=%v reachesCheck=%v", name, len(cone), readsStore, checks))
		if !readsStore {
			continue
		}
		n++
		construct := "planner." + name + ":reads-store"
		if why, ok := acpSourceExceptions[construct]; ok {
			// side condition of the exception: the definition-time rejection is still called
			wired := false
			for _, vf := range c.P.FuncsIn("internal/db") {
				if vf.Decl.Body != nil && eng.ContainsCallTo(vf.Pkg.TypesInfo, vf.Decl.Body, true, "internal/db.NewErrMaterializedViewAndACPNotSupported") != nil {
					wired = true
				}
			}
			c.Check(wired, rule, construct, tn.Pos(), "tabled exception: "+why,
				"the exception for the view cache rests on materialized views being rejected for ACP-protected sources, but NewErrMaterializedViewAndACPNotSupported is no longer raised anywhere in internal/db")
			continue
		}
		c.Check(checks, rule, construct, tn.Pos(), "reaches the document permission check through the type-flow call graph",
			"this plan node reads a store (Datastore/Headstore/Blockstore) in its own Init/Start/Next cone but never reaches internal/db/permission.Check*: the documents (or commits) it yields are not filtered by read permission")
	}
	c.Floor(rule, n, 2)
}

// coneFiltered is Cone with an additional predicate for edges not to follow.
func coneFiltered(p *eng.Program, roots []*ssa.Function, skip func(ssa.CallInstruction) bool) map[*ssa.Function]bool {
	seen := map[*ssa.Function]bool{}
	var stack []*ssa.Function
	for _, r := range roots {
		if !seen[r] {
			seen[r] = true
			stack = append(stack, r)
		}
	}
	for len(stack) > 0 {
		fn := stack[len(stack)-1]
		stack = stack[:len(stack)-1]
		if nd := p.CG.Nodes[fn]; nd != nil {
			for _, e := range nd.Out {
				if skip(e.Site) || eng.IsFuncValueCall(e.Site) || eng.ShellFunc(e.Callee.Func) {
					continue
				}
				cf := e.Callee.Func
				if !seen[cf] && p.ModFns[cf] {
					seen[cf] = true
					stack = append(stack, cf)
				}
			}
		}
		for _, a := range fn.AnonFuncs {
			if !seen[a] {
				seen[a] = true
				stack = append(stack, a)
			}
		}
	}
	return seen
}

// ---------------------------------------------------------------------------------------------
// EVENT-PUBLIC

func ruleEventPublic(c *eng.Ctx) {
	const rule = "EVENT-PUBLIC"
	allowed := map[string]bool{"DocID": true, "Cid": true, "CollectionID": true, "Block": true, "IsRetry": true, "IsCreate": true}
	pk := c.P.Pkg("event")
	if pk == nil {
		c.Unknown(rule, "anchor:event", token.NoPos, "anchor-unresolved")
		return
	}
	upd, _ := pk.Types.Scope().Lookup("Update").(*types.TypeName)
	if upd == nil {
		c.Unknown(rule, "anchor:event.Update", token.NoPos, "anchor-unresolved")
		return
	}
	st, _ := upd.Type().Underlying().(*types.Struct)
	for i := 0; i < st.NumFields(); i++ {
		f := st.Field(i)
		c.Check(allowed[f.Name()], rule, "event.Update."+f.Name(), f.Pos(), "public field (ids, cid, block bytes)",
			"event.Update gained field "+f.Name()+": update events are handed to every subscriber and to the network layer without a permission check")
	}
}

// ruleMultiAdvance: the permissioned fetcher skips a denied document by calling NextDoc again
// without GetFields; every fetcher that can sit below it must then advance. multiFetcher caches the
// docID of each child until GetFields — so its NextDoc has to drop a pending, unconsumed selection.
func ruleMultiAdvance(c *eng.Ctx) {
	const rule = "MULTI-ADVANCE"
	perm := c.Anchor(rule, "internal/db/fetcher.(*permissionedFetcher).NextDoc")
	multi := c.Anchor(rule, "internal/db/fetcher.(*multiFetcher).NextDoc")
	if perm == nil || multi == nil {
		return
	}
	pinfo := perm.Pkg.TypesInfo
	// does the denied path re-enter NextDoc without GetFields? (if it fetched the fields first the cache would be cleared)
	skipsWithoutFields := eng.FindCall(perm.Decl.Body, false, func(cc *ast.CallExpr) bool { return eng.Callee(pinfo, cc) == perm.Obj }) != nil &&
		eng.FindCall(perm.Decl.Body, false, func(cc *ast.CallExpr) bool { return strings.HasSuffix(eng.CalleeName(pinfo, cc), ".GetFields") }) == nil
	if !skipsWithoutFields {
		c.OK(rule, "permissionedFetcher:skip-protocol", perm.Decl.Pos(), "the permissioned fetcher does not skip by bare NextDoc re-entry (nothing to require of the fetchers below)")
		return
	}
	minfo := multi.Pkg.TypesInfo
	// the cache field: children[..].docID ; cleared somewhere in NextDoc before the selection loop
	var loop ast.Node
	ast.Inspect(multi.Decl.Body, func(m ast.Node) bool {
		if f, ok := m.(*ast.ForStmt); ok && loop == nil {
			loop = f
		}
		return true
	})
	cleared := false
	ast.Inspect(multi.Decl.Body, func(m ast.Node) bool {
		as, ok := m.(*ast.AssignStmt)
		if !ok || len(as.Lhs) != 1 || !isFieldNamed(minfo, as.Lhs[0], "docID") {
			return true
		}
		if call, ok := ast.Unparen(as.Rhs[0]).(*ast.CallExpr); ok && strings.HasSuffix(eng.CalleeName(minfo, call), "immutable.None") {
			if loop == nil || as.Pos() < loop.Pos() {
				cleared = true
			}
		}
		return true
	})
	c.Check(cleared, rule, "multiFetcher.NextDoc:drops-unconsumed-selection", multi.Decl.Pos(), "a document skipped by the wrapper is not yielded again",
		"multiFetcher.NextDoc keeps the docID last returned by a child until GetFields, and never drops it when NextDoc is called again: the permissioned fetcher's skip of a denied document (NextDoc without GetFields) gets the same docID forever — a showDeleted query by a requester lacking read permission on any document never returns")
}

// ruleCommitsACPGate: the commits / latestCommits / _version leaf yields a commit only after the
// requester's read permission on the commit's document was checked, and never on the branch where
// the check answered false: in dagScanNode.Next every `return true, …` is preceded on every path by
// a call whose cone reaches internal/db/permission.Check*, and with that call's boolean result
// assumed false no `return true` is reachable from it.
func ruleCommitsACPGate(c *eng.Ctx) {
	const rule = "COMMITS-ACP-GATE"
	fi := c.Anchor(rule, "internal/planner.(*dagScanNode).Next")
	if fi == nil {
		return
	}
	c.P.BuildCG()
	info := fi.Pkg.TypesInfo
	flow := eng.NewFlow(info, fi.Decl.Body)
	reachesCheck := func(call *ast.CallExpr) bool {
		callee := eng.Callee(info, call)
		if callee == nil {
			return false
		}
		if callee.Pkg() != nil && eng.ShortPkg(callee.Pkg().Path()) == "internal/db/permission" && strings.HasPrefix(callee.Name(), "Check") {
			return true
		}
		g := c.P.FuncOfObj(callee)
		if g == nil || g == fi {
			return false
		}
		fn := c.P.SSAFunc(g)
		if fn == nil {
			return false
		}
		for f := range c.P.Cone(fn) {
			if f.Pkg != nil && eng.ShortPkg(f.Pkg.Pkg.Path()) == "internal/db/permission" && strings.HasPrefix(f.Name(), "Check") {
				return true
			}
		}
		return false
	}
	// the gate: v, err := <call reaching a permission check>
	var gate *ast.AssignStmt
	var gateVar types.Object
	ast.Inspect(fi.Decl.Body, func(m ast.Node) bool {
		as, ok := m.(*ast.AssignStmt)
		if !ok || len(as.Rhs) != 1 || len(as.Lhs) < 1 {
			return true
		}
		call, ok := ast.Unparen(as.Rhs[0]).(*ast.CallExpr)
		if !ok || !reachesCheck(call) {
			return true
		}
		if o := eng.ObjOf(info, as.Lhs[0]); o != nil {
			if b, ok := o.Type().Underlying().(*types.Basic); ok && b.Kind() == types.Bool {
				gate, gateVar = as, o
			}
		}
		return true
	})
	if gate == nil {
		c.Bad(rule, "dagScanNode.Next:permission-check", fi.Decl.Pos(), "dagScanNode.Next performs no document permission check: commits queries return the deltas (field values) of documents the requester may not read")
		return
	}
	c.OK(rule, "dagScanNode.Next:permission-check", gate.Pos(), "a call reaching internal/db/permission.Check* binds "+gateVar.Name())
	isGate := func(nd ast.Node) bool { return nd == ast.Node(gate) }
	n := 0
	ast.Inspect(fi.Decl.Body, func(m ast.Node) bool {
		if _, ok := m.(*ast.FuncLit); ok {
			return false
		}
		r, ok := m.(*ast.ReturnStmt)
		if !ok || len(r.Results) != 2 {
			return true
		}
		if tv, ok := info.Types[r.Results[0]]; !ok || tv.Value == nil || tv.Value.ExactString() != "true" {
			return true
		}
		n++
		pt, ok := flow.PointOf(r)
		if !ok {
			return true
		}
		un := flow.ReachesWithout(pt, isGate, nil)
		c.Check(!un, rule, fmt.Sprintf("dagScanNode.Next:yield#%d:after-permission-check", n), r.Pos(), "a commit is yielded only after the permission check", "a commit is yielded on a path that never checked the requester's read permission on its document")
		// with the check's result false, the yield is unreachable from the gate
		gp, _ := flow.PointOf(gate)
		leak := flow.Forward(gp, false, eng.Walk{
			Visit: func(p eng.Point, nd ast.Node) eng.Action {
				if p == pt {
					return eng.Hit
				}
				// a recursive n.Next() starts a new decision
				return eng.Continue
			},
			Edge: func(cond ast.Expr, taken bool) bool {
				t := eng.EvalBool(info, cond, func(e ast.Expr) eng.Tri {
					if eng.ObjOf(info, e) == gateVar {
						return eng.False
					}
					return eng.Unknown
				})
				switch t {
				case eng.True:
					return taken
				case eng.False:
					return !taken
				}
				return true
			},
		})
		c.Check(!leak, rule, fmt.Sprintf("dagScanNode.Next:yield#%d:not-on-denied-branch", n), r.Pos(), "a denied commit is never yielded", "the yield is reachable on the branch where the permission check answered false")
		return true
	})
	c.Floor(rule, n, 1)
}
