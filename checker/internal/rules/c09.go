package rules

import (
	"fmt"
	"go/ast"
	"go/types"
	"strings"

	"defracheck/internal/eng"
)

func init() {
	register(&Property{
		ID: "C09",
		Rules: []Rule{
			{"ONE-TO-ONE-GUARD", ruleOneToOneGuard},
			{"ONE-TO-ONE-SCAN", ruleOneToOneScan},
			{"ORDER-DIRECTION-CARRIED", func(c *eng.Ctx) { ruleOrderDirectionCarried(c, "ORDER-DIRECTION-CARRIED") }},
			{"INDEX-PAIRING", ruleIndexPairing},
			{"FILTER-REAPPLY", ruleFilterReapply},
			{"JOIN-END", ruleJoinEnd},
			{"JOIN-INVERT-GUARDS", ruleJoinInvertGuards},
			{"SEEN-SET", func(c *eng.Ctx) { ruleSeenSet(c, "SEEN-SET", []string{"internal/planner/..."}, 1) }},
			{"RECURSION-ARGS", func(c *eng.Ctx) {
				ruleRecursionArgs(c, "RECURSION-ARGS", []string{"internal/planner/..."}, 3)
			}},
		},
		Meta: eng.PropMeta{
			Explanation: "Decides only the third clause of the property ('local writes never leave a one-to-one link held by two documents'): (ONE-TO-ONE-GUARD) in collection.save every field-level AddDelta is preceded, in the same loop iteration, by validateOneToOneLinkDoesntAlreadyExist whose error edge returns; (ONE-TO-ONE-SCAN) inside that guard the only ways to skip the 'already linked' scan are decisions over the value being nil and the kinds of the two relation fields (schema shape) — no other input (indexes, options, caches) can exempt a write — and a positive scan result yields an error. Also decided, as necessary conditions of join symmetry: (JOIN-END) invertibleTypeJoin reports end of iteration only on an error or when its first-side source is exhausted — a first-side document with nothing to yield is skipped; (SEEN-SET) a slice field used as a seen-set is tested exhaustively before a value is appended; (ORDER-DIRECTION-CARRIED) an order condition rebuilt for the inverted side keeps its direction; (RECURSION-ARGS) as in C07. (JOIN-INVERT-GUARDS) the planner inverts a join on a relation filter only after evaluating that filter on a parent without related document (a positive result keeps the direction), and the inversion clears the parent scan's secondary index because the parent is then fetched by docID. Shared with C07 because relations are read through them: (INDEX-PAIRING) every mutation route maintains the secondary indexes before it proceeds — the one-to-one link check reads the foreign-key index; (FILTER-REAPPLY) the filtered fetcher wraps every document source, including the deleted-documents source — a join fetches a parent's children with a filter on the foreign key.",
			NotDecided:  "equality of the two directions of a relation over all data, join inversion through an index beyond the necessary conditions above, batching of primary lookups, filters/ordering/aggregates through relations: these are relations between two query results over all data and plans and are not decidable by a structural rule here",
		},
	})
}

func ruleOneToOneGuard(c *eng.Ctx) {
	const rule = "ONE-TO-ONE-GUARD"
	fi := c.Anchor(rule, "internal/db.(*collection).save")
	if fi == nil {
		return
	}
	info := fi.Pkg.TypesInfo
	n := 0
	ast.Inspect(fi.Decl.Body, func(m ast.Node) bool {
		rs, ok := m.(*ast.RangeStmt)
		if !ok {
			return true
		}
		// field loop: contains a field-level AddDelta (bytes result discarded)
		for _, cs := range eng.Calls(info, rs.Body) {
			if cs.Name != "internal/core/block.AddDelta" || cs.Lit != nil {
				continue
			}
			as := assignOf(fi.Decl.Body, cs.Call)
			if as == nil || len(as.Lhs) != 3 {
				continue
			}
			if id, ok := as.Lhs[1].(*ast.Ident); !ok || id.Name != "_" {
				continue
			}
			n++
			// within the loop body: every path from the body's start to the AddDelta passes the guard
			flow := eng.NewFlow(info, rs.Body)
			pt, found := flow.PointOf(cs.Call)
			if !found {
				continue
			}
			un := flow.ReachesWithout(pt, func(nd ast.Node) bool {
				return eng.ContainsCallTo(info, nd, false, "internal/db.(*collection).validateOneToOneLinkDoesntAlreadyExist") != nil
			}, nil)
			c.Check(!un, rule, fmt.Sprintf("save:field-AddDelta#%d:guard-first", n), cs.Call.Pos(), "the one-to-one check precedes the field write in the same iteration",
				"a field value is written without first checking that the one-to-one link is not already held by another document")
			for _, es := range eng.ErrFlow(info, fi.Decl.Body, nil) {
				if es.Callee == "internal/db.(*collection).validateOneToOneLinkDoesntAlreadyExist" {
					c.Check(es.Finding == nil, rule, "save:guard-error-returned", es.Call.Pos(), "a positive check aborts the save", "the result of the one-to-one check is dropped")
				}
			}
		}
		return true
	})
	c.Floor(rule, n, 1)
}

func ruleOneToOneScan(c *eng.Ctx) {
	const rule = "ONE-TO-ONE-SCAN"
	fi := c.Anchor(rule, "internal/db.(*collection).validateOneToOneLinkDoesntAlreadyExist")
	if fi == nil {
		return
	}
	info := fi.Pkg.TypesInfo
	var scan *ast.CallExpr
	for _, cs := range eng.Calls(info, fi.Decl.Body) {
		if cs.Name == "internal/db.(*collection).makeSelectionPlan" {
			scan = cs.Call
		}
	}
	if scan == nil {
		c.Bad(rule, "guard:scan", fi.Decl.Pos(), "the guard no longer scans for an existing holder of the link")
		return
	}
	ps := paramObjs(info, fi.Decl)
	var value types.Object
	for _, p := range ps {
		if types.IsInterface(p.Type()) && p.Name() != "ctx" && !strings.Contains(p.Type().String(), "context") {
			value = p
		}
	}
	// allowed inputs of an exemption: the value parameter, nil, constants, and Kind chains
	allowedCond := func(e ast.Expr) (bool, string) {
		okAll, offender := true, ""
		var walk func(x ast.Expr, inKind bool)
		walk = func(x ast.Expr, inKind bool) {
			x = ast.Unparen(x)
			switch y := x.(type) {
			case *ast.BinaryExpr:
				walk(y.X, false)
				walk(y.Y, false)
			case *ast.UnaryExpr:
				walk(y.X, false)
			case *ast.CallExpr:
				// method chains on a Kind: X.Kind.IsObject(), X.Kind.Value().IsArray()
				if se, ok := y.Fun.(*ast.SelectorExpr); ok {
					walk(se.X, true)
					return
				}
				okAll, offender = false, eng.ExprStr(y)
			case *ast.SelectorExpr:
				if y.Sel.Name == "Kind" {
					return
				}
				if o, ok := info.Uses[y.Sel].(*types.Const); ok && o != nil {
					return
				}
				if inKind {
					walk(y.X, true)
					return
				}
				okAll, offender = false, eng.ExprStr(y)
			case *ast.Ident:
				o := info.Uses[y]
				if o == value {
					return
				}
				if _, isNil := o.(*types.Nil); isNil {
					return
				}
				if _, isConst := o.(*types.Const); isConst {
					return
				}
				if b, isB := o.(*types.Var); isB && y.Name == "ok" && b != nil {
					okAll, offender = false, y.Name
					return
				}
				okAll, offender = false, y.Name
			case *ast.BasicLit:
			default:
				okAll, offender = false, eng.ExprStr(x)
			}
		}
		walk(e, false)
		return okAll, offender
	}
	n := 0
	ast.Inspect(fi.Decl.Body, func(m ast.Node) bool {
		is, ok := m.(*ast.IfStmt)
		if !ok || is.Pos() > scan.Pos() {
			return true
		}
		// an exemption: the if body returns nil
		exempt := false
		for _, st := range is.Body.List {
			if r, ok := st.(*ast.ReturnStmt); ok && len(r.Results) == 1 {
				if tv, ok := info.Types[r.Results[0]]; ok && tv.IsNil() {
					exempt = true
				}
			}
		}
		if !exempt {
			return true
		}
		n++
		good, off := allowedCond(is.Cond)
		c.Check(good, rule, fmt.Sprintf("guard:exemption#%d(%s)", n, eng.ExprStr(is.Cond)), is.Pos(), "exemption decided by the value and the relation fields' kinds only",
			"the 'already linked' scan is skipped depending on "+off+", which is not a property of the relation's shape: a write that should be rejected can pass (two documents end up holding the same one-to-one link)")
		return true
	})
	c.Floor(rule, n, 3)
	// positive scan result ⇒ error
	var def *ast.AssignStmt
	var linked types.Object
	ast.Inspect(fi.Decl.Body, func(m ast.Node) bool {
		as, ok := m.(*ast.AssignStmt)
		if ok && len(as.Lhs) == 2 && len(as.Rhs) == 1 {
			if call, ok := as.Rhs[0].(*ast.CallExpr); ok && eng.CalleeName(info, call) == "internal/planner.(planNode).Next" {
				def, linked = as, eng.ObjOf(info, as.Lhs[0])
			}
		}
		return true
	})
	if def == nil {
		c.Unknown(rule, "guard:scan-result", fi.Decl.Pos(), "anchor-unresolved: `alreadyLinked, err := plan.Next()`")
		return
	}
	flow := eng.NewFlow(info, fi.Decl.Body)
	start, _ := flow.PointOf(def)
	outs, _ := flow.Paths(eng.PathSpec{Start: &start, Cond: func(br eng.Branch) eng.Tri {
		return eng.BranchTri(info, br, func(e ast.Expr) eng.Tri {
			if t := happyAtom(info, e); t != eng.Unknown {
				return t
			}
			if eng.ObjOf(info, e) == linked {
				return eng.True
			}
			return eng.Unknown
		})
	}})
	good := len(outs) > 0
	var got []string
	for _, o := range outs {
		got = append(got, o.Sig(info))
		if o.Kind != "return" || o.Ret == nil || len(o.Ret.Results) != 1 || eng.RetVal(info, o.Ret.Results[0]) == "nil" {
			good = false
		}
	}
	c.Check(good, rule, "guard:linked⇒error", def.Pos(), "an existing holder yields ErrOneOneAlreadyLinked", fmt.Sprintf("with an existing holder the guard yields %v", got))
}
