package rules

import (
	"fmt"
	"go/ast"
	"go/types"
	"strings"

	"defracheck/internal/eng"
)

// sharedStateExceptions: writes to receiver state inside a transactional function, outside a
// success callback, that are not shared database state.
var sharedStateExceptions = map[string]string{}

// longLivedTypes: objects that are created once per database and serve every transaction (per-request
// objects — plan nodes, fetchers, collections, sequences — die with their request and are not shared).
var longLivedTypes = map[string]string{
	"internal/db.DB":                                "the database handle",
	"internal/request/graphql.parser":               "the GraphQL parser/schema manager shared by all requests",
	"internal/lens.LensRegistry":                    "the lens registry",
	"internal/db.mergeQueue":                        "merge serialisation queue",
	"internal/request/graphql/schema.SchemaManager": "the generated GraphQL type system",
}

// ruleSharedStateOnSuccess: an object that outlives transactions (the GraphQL parser, the DB, the
// lens registry, …) changes its in-memory state on behalf of a transaction only when that
// transaction has committed: inside a function that works under the context's transaction
// (CtxMustGetTxn / CtxTryGetTxn / ensureContextTxn), every assignment to a field of the method's
// pointer receiver sits in a function literal registered with txn.OnSuccess/OnSuccessAsync.
func ruleSharedStateOnSuccess(c *eng.Ctx) {
	const rule = "SHARED-STATE-ON-SUCCESS"
	n := 0
	pk := []string{"internal/db", "internal/db/...", "internal/request/...", "internal/lens", "internal/lens/...", "internal/planner/..."}
	for _, fi := range c.P.Funcs() {
		if fi.Decl.Body == nil || fi.Decl.Recv == nil || isTestFile(c.P, fi) || !pkgMatch(eng.ShortPkg(fi.Pkg.PkgPath), pk) {
			continue
		}
		info := fi.Pkg.TypesInfo
		if len(fi.Decl.Recv.List) != 1 || len(fi.Decl.Recv.List[0].Names) != 1 {
			continue
		}
		recv := info.Defs[fi.Decl.Recv.List[0].Names[0]]
		if recv == nil {
			continue
		}
		if _, isPtr := recv.Type().(*types.Pointer); !isPtr {
			continue
		}
		if _, ok := longLivedTypes[eng.TypeName(recv.Type())]; !ok {
			continue
		}
		usesTxn := false
		for _, cs := range eng.Calls(info, fi.Decl.Body) {
			switch cs.Name {
			case "internal/datastore.CtxMustGetTxn", "internal/datastore.CtxTryGetTxn", "internal/db.ensureContextTxn":
				usesTxn = true
			}
		}
		if !usesTxn {
			continue
		}
		// literals registered as success callbacks
		onSuccess := map[*ast.FuncLit]bool{}
		ast.Inspect(fi.Decl.Body, func(m ast.Node) bool {
			call, ok := m.(*ast.CallExpr)
			if !ok {
				return true
			}
			if se, ok := call.Fun.(*ast.SelectorExpr); ok && (se.Sel.Name == "OnSuccess" || se.Sel.Name == "OnSuccessAsync") {
				for _, a := range call.Args {
					if l, ok := ast.Unparen(a).(*ast.FuncLit); ok {
						onSuccess[l] = true
					}
					// f := func() {…}; txn.OnSuccess(f)
					if o := eng.ObjOf(info, a); o != nil {
						ast.Inspect(fi.Decl.Body, func(x ast.Node) bool {
							if as, ok := x.(*ast.AssignStmt); ok && len(as.Lhs) == 1 && len(as.Rhs) == 1 && eng.ObjOf(info, as.Lhs[0]) == o {
								if l, ok := ast.Unparen(as.Rhs[0]).(*ast.FuncLit); ok {
									onSuccess[l] = true
								}
							}
							return true
						})
					}
				}
			}
			return true
		})
		var stack []ast.Node
		ord := 0
		ast.Inspect(fi.Decl.Body, func(m ast.Node) bool {
			if m == nil {
				stack = stack[:len(stack)-1]
				return true
			}
			stack = append(stack, m)
			// a write of a receiver field: an assignment, or an atomic store (recv.f.Store(v) / Swap /
			// CompareAndSwap on a sync/atomic value)
			var targets []ast.Expr
			var as ast.Node
			switch x := m.(type) {
			case *ast.AssignStmt:
				targets, as = x.Lhs, x
			case *ast.CallExpr:
				if fn, ok := x.Fun.(*ast.SelectorExpr); ok && (fn.Sel.Name == "Store" || fn.Sel.Name == "Swap" || fn.Sel.Name == "CompareAndSwap") {
					if strings.HasPrefix(eng.TypeName(info.TypeOf(fn.X)), "sync/atomic.") {
						targets, as = []ast.Expr{fn.X}, x
					}
				}
			}
			if as == nil {
				return true
			}
			for _, l := range targets {
				se, ok := ast.Unparen(l).(*ast.SelectorExpr)
				if !ok || eng.ObjOf(info, se.X) != recv {
					continue
				}
				ord++
				n++
				construct := fmt.Sprintf("%s:write(%s)#%d", shortFn(fi), se.Sel.Name, ord)
				inSuccess, inOtherLit := false, false
				for _, s := range stack {
					if lit, ok := s.(*ast.FuncLit); ok {
						if onSuccess[lit] {
							inSuccess = true
						} else {
							inOtherLit = true
						}
					}
				}
				if why, ok := sharedStateExceptions[construct]; ok {
					c.OK(rule, construct, as.Pos(), "tabled exception: "+why)
					continue
				}
				if inSuccess {
					c.OK(rule, construct, as.Pos(), "inside a txn.OnSuccess callback")
					continue
				}
				kind := "directly in the function body"
				if inOtherLit {
					kind = "in a callback that is not a success callback"
				}
				c.Bad(rule, construct, as.Pos(), "the receiver's field "+se.Sel.Name+" is assigned "+kind+" while the function works under the context's transaction: other transactions and non-transactional requests see the change before the commit, and it survives a discard")
			}
			return true
		})
	}
	c.Floor(rule, n, 1)
	_ = strings.HasPrefix
}
