package rules

import (
	"fmt"
	"go/ast"
	"go/token"
	"go/types"
	"strings"

	"defracheck/internal/eng"

	"golang.org/x/tools/go/cfg"
)

// sharedStateExceptions: writes to receiver state inside a transactional function, outside a
// success callback, that are not shared database state.
var sharedStateExceptions = map[string]string{}

// longLivedTypes: objects that are created once per database and serve every transaction (per-request
// objects — plan nodes, fetchers, collections, sequences — die with their request and are not shared).
var longLivedTypes = map[string]string{
	"internal/db.DB":                                "the database handle",
	"internal/request/graphql.parser":               "the GraphQL parser/schema manager shared by all requests",
	"internal/lens.LensRegistry":                    "the lens registry",
	"internal/db.mergeQueue":                        "merge serialisation queue",
	"internal/request/graphql/schema.SchemaManager": "the generated GraphQL type system",
}

// ruleSharedStateOnSuccess: an object that outlives transactions (the GraphQL parser, the DB, the
// lens registry, …) changes its in-memory state on behalf of a transaction only when that
// transaction has committed: inside a function that works under the context's transaction
// (CtxMustGetTxn / CtxTryGetTxn / ensureContextTxn), every assignment to a field of the method's
// pointer receiver sits in a function literal registered with txn.OnSuccess/OnSuccessAsync.
func ruleSharedStateOnSuccess(c *eng.Ctx) {
	const rule = "SHARED-STATE-ON-SUCCESS"
	n := 0
	pk := []string{"internal/db", "internal/db/...", "internal/request/...", "internal/lens", "internal/lens/...", "internal/planner/..."}
	for _, fi := range c.P.Funcs() {
		if fi.Decl.Body == nil || fi.Decl.Recv == nil || isTestFile(c.P, fi) || !pkgMatch(eng.ShortPkg(fi.Pkg.PkgPath), pk) {
			continue
		}
		info := fi.Pkg.TypesInfo
		if len(fi.Decl.Recv.List) != 1 || len(fi.Decl.Recv.List[0].Names) != 1 {
			continue
		}
		recv := info.Defs[fi.Decl.Recv.List[0].Names[0]]
		if recv == nil {
			continue
		}
		if _, isPtr := recv.Type().(*types.Pointer); !isPtr {
			continue
		}
		if _, ok := longLivedTypes[eng.TypeName(recv.Type())]; !ok {
			continue
		}
		usesTxn := false
		for _, cs := range eng.Calls(info, fi.Decl.Body) {
			switch cs.Name {
			case "internal/datastore.CtxMustGetTxn", "internal/datastore.CtxTryGetTxn", "internal/db.ensureContextTxn":
				usesTxn = true
			}
		}
		if !usesTxn {
			continue
		}
		// literals registered as success callbacks
		onSuccess := map[*ast.FuncLit]bool{}
		ast.Inspect(fi.Decl.Body, func(m ast.Node) bool {
			call, ok := m.(*ast.CallExpr)
			if !ok {
				return true
			}
			if se, ok := call.Fun.(*ast.SelectorExpr); ok && (se.Sel.Name == "OnSuccess" || se.Sel.Name == "OnSuccessAsync") {
				for _, a := range call.Args {
					if l, ok := ast.Unparen(a).(*ast.FuncLit); ok {
						onSuccess[l] = true
					}
					// f := func() {…}; txn.OnSuccess(f)
					if o := eng.ObjOf(info, a); o != nil {
						ast.Inspect(fi.Decl.Body, func(x ast.Node) bool {
							if as, ok := x.(*ast.AssignStmt); ok && len(as.Lhs) == 1 && len(as.Rhs) == 1 && eng.ObjOf(info, as.Lhs[0]) == o {
								if l, ok := ast.Unparen(as.Rhs[0]).(*ast.FuncLit); ok {
									onSuccess[l] = true
								}
							}
							return true
						})
					}
				}
			}
			return true
		})
		var stack []ast.Node
		ord := 0
		ast.Inspect(fi.Decl.Body, func(m ast.Node) bool {
			if m == nil {
				stack = stack[:len(stack)-1]
				return true
			}
			stack = append(stack, m)
			// a write of a receiver field: an assignment, or an atomic store (recv.f.Store(v) / Swap /
			// CompareAndSwap on a sync/atomic value)
			var targets []ast.Expr
			var as ast.Node
			switch x := m.(type) {
			case *ast.AssignStmt:
				targets, as = x.Lhs, x
			case *ast.CallExpr:
				if fn, ok := x.Fun.(*ast.SelectorExpr); ok && (fn.Sel.Name == "Store" || fn.Sel.Name == "Swap" || fn.Sel.Name == "CompareAndSwap") {
					if strings.HasPrefix(eng.TypeName(info.TypeOf(fn.X)), "sync/atomic.") {
						targets, as = []ast.Expr{fn.X}, x
					}
				}
			}
			if as == nil {
				return true
			}
			for _, l := range targets {
				se, ok := ast.Unparen(l).(*ast.SelectorExpr)
				if !ok || eng.ObjOf(info, se.X) != recv {
					continue
				}
				ord++
				n++
				construct := fmt.Sprintf("%s:write(%s)#%d", shortFn(fi), se.Sel.Name, ord)
				inSuccess, inOtherLit := false, false
				for _, s := range stack {
					if lit, ok := s.(*ast.FuncLit); ok {
						if onSuccess[lit] {
							inSuccess = true
						} else {
							inOtherLit = true
						}
					}
				}
				if why, ok := sharedStateExceptions[construct]; ok {
					c.OK(rule, construct, as.Pos(), "tabled exception: "+why)
					continue
				}
				if inSuccess {
					c.OK(rule, construct, as.Pos(), "inside a txn.OnSuccess callback")
					continue
				}
				kind := "directly in the function body"
				if inOtherLit {
					kind = "in a callback that is not a success callback"
				}
				c.Bad(rule, construct, as.Pos(), "the receiver's field "+se.Sel.Name+" is assigned "+kind+" while the function works under the context's transaction: other transactions and non-transactional requests see the change before the commit, and it survives a discard")
			}
			return true
		})
	}
	c.Floor(rule, n, 1)
	_ = strings.HasPrefix
}

// ruleHandleIndexUndo: a *collection value is handed to the caller and outlives the transaction in
// which CreateIndex / DropIndex ran. Both change the handle's own list of indexes (c.indexes and the
// descriptions in c.def.Version.Indexes) at once, so that the rest of the transaction works with the
// new set. If that transaction is discarded (or its commit fails) the database does not have the
// change — so the handle must not keep it: every success path of createIndex and dropIndex registers an
// undo with the transaction (OnDiscard / OnError, directly or through a helper of the collection that
// does). Otherwise a discarded CreateIndex(unique) keeps being enforced — and written — through that
// handle, and a discarded DropIndex leaves documents created through it unindexed.
func ruleHandleIndexUndo(c *eng.Ctx) {
	const rule = "HANDLE-INDEX-UNDO"
	// helpers of *collection that register an undo with the transaction
	registers := func(info *types.Info, call *ast.CallExpr) bool {
		name := eng.CalleeName(info, call)
		if strings.HasSuffix(name, ".OnDiscard") || strings.HasSuffix(name, ".OnError") || strings.HasSuffix(name, ".OnDiscardAsync") || strings.HasSuffix(name, ".OnErrorAsync") {
			return true
		}
		if g := c.P.Func(name); g != nil && g.Decl.Body != nil && strings.HasPrefix(name, "internal/db.") {
			for _, cs := range eng.Calls(g.Pkg.TypesInfo, g.Decl.Body) {
				if strings.HasSuffix(cs.Name, ".OnDiscard") || strings.HasSuffix(cs.Name, ".OnError") {
					return true
				}
			}
		}
		return false
	}
	for _, fname := range []string{"internal/db.(*collection).createIndex", "internal/db.(*collection).dropIndex"} {
		fi := c.Anchor(rule, fname)
		if fi == nil {
			continue
		}
		info := fi.Pkg.TypesInfo
		flow := eng.NewFlow(info, fi.Decl.Body)
		isUndo := func(nd ast.Node) bool {
			return eng.FindCall(nd, false, func(call *ast.CallExpr) bool { return registers(info, call) }) != nil
		}
		// "found" flags: bool locals that start false and are set to true only after an undo has been
		// registered are still false on every path that has not passed one (`if !didFind { return err }`)
		stillFalse := map[types.Object]bool{}
		ast.Inspect(fi.Decl.Body, func(m ast.Node) bool {
			if vs, ok := m.(*ast.ValueSpec); ok && len(vs.Values) == 0 {
				for _, nm := range vs.Names {
					if o := info.Defs[nm]; o != nil {
						if b, ok := o.Type().Underlying().(*types.Basic); ok && b.Kind() == types.Bool {
							stillFalse[o] = true
						}
					}
				}
			}
			return true
		})
		ast.Inspect(fi.Decl.Body, func(m ast.Node) bool {
			as, ok := m.(*ast.AssignStmt)
			if !ok {
				return true
			}
			for i, l := range as.Lhs {
				o := eng.ObjOf(info, l)
				if o == nil || !stillFalse[o] {
					continue
				}
				setTrue := false
				if len(as.Lhs) == len(as.Rhs) {
					if tv, ok := info.Types[as.Rhs[i]]; ok && tv.Value != nil && tv.Value.String() == "true" {
						setTrue = true
					}
				}
				pt, okp := flow.PointOf(as)
				if !setTrue || !okp || flow.ReachesWithout(pt, isUndo, nil) {
					delete(stillFalse, o)
				}
			}
			return true
		})
		// success exits: return …, nil
		where := token.NoPos
		leak := flow.Forward(flow.Entry(), true, eng.Walk{
			Visit: func(_ eng.Point, nd ast.Node) eng.Action {
				if isUndo(nd) {
					return eng.Cut
				}
				return eng.Continue
			},
			Edge: func(cond ast.Expr, taken bool) bool {
				switch eng.EvalBool(info, cond, func(e ast.Expr) eng.Tri {
					if o := eng.ObjOf(info, e); o != nil && stillFalse[o] {
						return eng.False
					}
					return eng.Unknown
				}) {
				case eng.True:
					return taken
				case eng.False:
					return !taken
				}
				return true
			},
			OnExit: func(ret *ast.ReturnStmt, _ *cfg.Block) eng.Action {
				if ret == nil || len(ret.Results) == 0 {
					return eng.Continue
				}
				last := ret.Results[len(ret.Results)-1]
				if tv, ok := info.Types[last]; ok && tv.IsNil() {
					where = ret.Pos()
					return eng.Hit
				}
				return eng.Continue
			},
		})
		c.Check(!leak, rule, shortFn(fi)+":success-path-registers-undo", fi.Decl.Pos(), "the handle's index list is restored if the transaction does not commit",
			shortFn(fi)+" returns success at "+c.P.Rel(where)+" without having registered an undo of the handle's index list with the transaction: after a discarded (or failed) transaction the caller's collection handle still has the changed index set, which the database does not — a discarded unique index keeps being enforced and written through that handle, a discarded drop leaves new documents unindexed")
	}
}
