package rules

import (
	"fmt"
	"go/ast"
	"go/token"
	"go/types"
	"strings"

	"defracheck/internal/eng"
)

func init() {
	register(&Property{
		ID: "C12",
		Rules: []Rule{
			{"SIGN-BYTES", ruleSignBytes},
			{"MERGE-CID-BOUND", ruleMergeCidBound},
			{"VERIFY-BEFORE-FOLLOW", ruleVerifyBeforeFollow},
			{"VERIFY-KEYMATCH", ruleVerifyKeyMatch},
			{"SIGN-CONTEXT", ruleSignContext},
			{"SIGTYPE-TABLES", ruleSigTypeTables},
			{"SYNC-BEFORE-MERGE", ruleSyncBeforeMerge},
		},
		Meta: eng.PropMeta{
			Explanation: "Decides the structural conditions of 'signatures cover the commit and forged commits are not merged' (cryptographic soundness is not decided): (SIGN-BYTES) signer and verifier hash the same thing — signBlock marshals the block before the only store to block.Signature and signs exactly those bytes; getBlockBytesToSign clears Signature on a copy and marshals with the block schema; in AddDelta signing happens after encryption and before putBlock on the block that is stored; (VERIFY-BEFORE-FOLLOW) in loadBlockLinks, on the Signature != nil edge VerifyBlockSignature precedes every link load and its error edge returns; (VERIFY-KEYMATCH) VerifyBlockSignatureWithKey compares the signature header's identity with the supplied key before verifying, both verifiers pass (key, signed bytes, signature value) to verifySignature, and verifySignature maps valid == false to an error; (SIGN-CONTEXT) save and applyDelete enable signing unless signing is disabled; (SIGTYPE-TABLES) the key-type tables of signer and verifier agree; (SYNC-BEFORE-MERGE) the merge event is unreachable after a failed verification/sync. SIGN-BYTES is field-complete: the bytes that are signed/verified encode every field of Block except Signature (a value copy with Signature cleared, or a literal naming every other field), and signBlock may take them from that shared helper. (MERGE-CID-BOUND) as in C04: the commit whose merge is requested on receipt is the commit that was verified and synced.",
			NotDecided:  "cryptographic soundness of the signature schemes; that verification fails for every single-field tampering (a for-all over values); field blocks of height > 1 are unsigned by design",
		},
	})
}

func ruleSignBytes(c *eng.Ctx) {
	const rule = "SIGN-BYTES"
	if fi := c.Anchor(rule, "internal/core/block.signBlock"); fi != nil {
		info := fi.Pkg.TypesInfo
		flow := eng.NewFlow(info, fi.Decl.Body)
		var bytesObj types.Object
		var marshal *ast.CallExpr
		ast.Inspect(fi.Decl.Body, func(m ast.Node) bool {
			as, ok := m.(*ast.AssignStmt)
			if ok && len(as.Rhs) == 1 && len(as.Lhs) == 2 {
				if call, ok := as.Rhs[0].(*ast.CallExpr); ok {
					if eng.CalleeName(info, call) == "internal/core/block.(*Block).Marshal" {
						bytesObj, marshal = eng.ObjOf(info, as.Lhs[0]), call
					} else if h := c.P.FuncOfObj(eng.Callee(info, call)); h != nil && h.Pkg == fi.Pkg {
						// a helper that encodes everything but the signature link (shared with the verifier)
						if ok, _ := coversAllButSignature(h); ok {
							bytesObj, marshal = eng.ObjOf(info, as.Lhs[0]), call
						}
					}
				}
			}
			return true
		})
		if marshal == nil {
			c.Bad(rule, "signBlock:marshal", fi.Decl.Pos(), "signBlock does not marshal the block it signs")
		} else {
			// the signed bytes are the marshalled block
			signed := false
			for _, cs := range eng.Calls(info, fi.Decl.Body) {
				if strings.HasSuffix(cs.Name, ".Sign") && len(cs.Call.Args) == 1 {
					signed = eng.ObjOf(info, cs.Call.Args[0]) == bytesObj
					c.Check(signed, rule, "signBlock:Sign(marshalled-block)", cs.Call.Pos(), "the private key signs the marshalled block", "Sign receives "+eng.ExprStr(cs.Call.Args[0])+" instead of the marshalled block bytes")
				}
			}
			// every store to block.Signature comes after the Marshal
			n := 0
			ast.Inspect(fi.Decl.Body, func(m ast.Node) bool {
				as, ok := m.(*ast.AssignStmt)
				if !ok || len(as.Lhs) != 1 || !isFieldNamed(info, as.Lhs[0], "Signature") {
					return true
				}
				n++
				pt, _ := flow.PointOf(as)
				early := flow.ReachesWithout(pt, func(nd ast.Node) bool { return nd.Pos() <= marshal.Pos() && marshal.End() <= nd.End() }, nil)
				c.Check(!early, rule, fmt.Sprintf("signBlock:Signature-set-after-marshal#%d", n), as.Pos(), "the signature link is attached after the signed bytes were taken",
					"block.Signature is set before the block is marshalled for signing: the signed bytes include a signature link the verifier strips, so no signature verifies")
				return true
			})
			c.Check(n == 1, rule, "signBlock:single-Signature-store", fi.Decl.Pos(), "one store to block.Signature", fmt.Sprintf("%d stores to block.Signature", n))
		}
	}
	if fi := c.Anchor(rule, "internal/core/block.getBlockBytesToSign"); fi != nil {
		info := fi.Pkg.TypesInfo
		ok, why := coversAllButSignature(fi)
		c.Check(ok, rule, "getBlockBytesToSign:copy-without-signature", fi.Decl.Pos(), "verifier hashes every field of the block except the signature link, encoded with the block schema",
			"getBlockBytesToSign does not encode every field of the block except Signature under BlockSchema ("+why+"): verifier and signer hash different bytes, or a field is left outside the signature and can be replaced on a signed block")
		_ = info
		// Block.Marshal uses the same marshalNode/BlockSchema
		if bm := c.P.Func("internal/core/block.(*Block).Marshal"); bm != nil {
			bi := bm.Pkg.TypesInfo
			same := false
			for _, cs := range eng.Calls(bi, bm.Decl.Body) {
				if cs.Name == "internal/core/block.marshalNode" && len(cs.Call.Args) == 2 {
					if o := selObj(bi, cs.Call.Args[1]); o != nil && o.Name() == "BlockSchema" {
						same = true
					}
				}
			}
			c.Check(same, rule, "Block.Marshal≡getBlockBytesToSign:encoder", bm.Decl.Pos(), "signer and verifier use the same encoder and schema", "Block.Marshal no longer encodes with marshalNode(·, BlockSchema): signed and verified bytes differ")
		}
	}
	// AddDelta: encrypt → sign → put, all on the same block variable
	if fi := c.Anchor(rule, "internal/core/block.AddDelta"); fi != nil {
		info := fi.Pkg.TypesInfo
		flow := eng.NewFlow(info, fi.Decl.Body)
		var sign, put *ast.CallExpr
		for _, cs := range eng.Calls(info, fi.Decl.Body) {
			switch cs.Name {
			case "internal/core/block.signBlock":
				sign = cs.Call
			case "internal/core/block.putBlock":
				put = cs.Call
			}
		}
		if sign == nil || put == nil {
			c.Unknown(rule, "AddDelta:sign/put", fi.Decl.Pos(), "anchor-unresolved")
		} else {
			same := eng.ObjOf(info, sign.Args[2]) != nil && eng.ObjOf(info, sign.Args[2]) == eng.ObjOf(info, put.Args[2])
			c.Check(same, rule, "AddDelta:sign-and-put-same-block", sign.Pos(), "the block that is signed is the block that is stored", "signBlock and putBlock operate on different block values: the stored commit's signature does not cover its content")
			spt, _ := flow.PointOf(sign)
			ppt, _ := flow.PointOf(put)
			c.Check(flow.Reaches(spt, ppt, nil) && !flow.Reaches(ppt, spt, nil), rule, "AddDelta:sign-before-put", sign.Pos(), "signing precedes storing", "the block is stored before it is signed: the stored bytes carry no signature link")
			// signing only when enabled; when enabled, always before put
			unsig := flow.ReachesWithout(ppt, func(nd ast.Node) bool { return nd.Pos() <= sign.Pos() && sign.End() <= nd.End() }, func(cond ast.Expr, taken bool) bool {
				if call, ok := ast.Unparen(cond).(*ast.CallExpr); ok && eng.CalleeName(info, call) == "internal/core/block.EnabledSigningFromContext" {
					return taken // signing enabled
				}
				return true
			})
			c.Check(!unsig, rule, "AddDelta:enabled⇒signed", put.Pos(), "with signing enabled every stored block passed signBlock", "with signing enabled putBlock is reachable without signBlock")
			// encryption precedes signing
			for _, cs := range eng.Calls(info, fi.Decl.Body) {
				if cs.Name == "internal/core/block.encryptBlock" {
					ept, _ := flow.PointOf(cs.Call)
					c.Check(!flow.Reaches(spt, ept, nil), rule, "AddDelta:encrypt-before-sign", cs.Call.Pos(), "the ciphertext block is what gets signed", "encryptBlock runs after signBlock: the signature covers the plaintext block, not the stored one")
				}
			}
		}
	}
}

func ruleVerifyBeforeFollow(c *eng.Ctx) {
	const rule = "VERIFY-BEFORE-FOLLOW"
	fi := c.Anchor(rule, "net.loadBlockLinks")
	if fi == nil {
		return
	}
	info := fi.Pkg.TypesInfo
	flow := eng.NewFlow(info, fi.Decl.Body)
	var verify *ast.CallExpr
	for _, cs := range eng.Calls(info, fi.Decl.Body) {
		if cs.Name == "internal/core/block.VerifyBlockSignature" && cs.Lit == nil {
			verify = cs.Call
		}
	}
	if verify == nil {
		c.Bad(rule, "loadBlockLinks:verify", fi.Decl.Pos(), "a received block's signature is never verified before its links are followed")
		return
	}
	// error returned
	for _, es := range eng.ErrFlow(info, fi.Decl.Body, nil) {
		if es.Call == verify {
			c.Check(es.Finding == nil, rule, "loadBlockLinks:verify-error-returned", verify.Pos(), "a failed verification aborts the sync", "the result of VerifyBlockSignature is dropped: a forged commit is synced and merged")
		}
	}
	// the loop over links (which spawns the loads) is not reachable on the Signature != nil edge without the verify
	var loopX ast.Expr
	ast.Inspect(fi.Decl.Body, func(m ast.Node) bool {
		if rs, ok := m.(*ast.RangeStmt); ok {
			if eng.FindCall(rs.Body, true, func(cc *ast.CallExpr) bool {
				return strings.HasSuffix(eng.CalleeName(info, cc), "linking.(*LinkSystem).Load")
			}) != nil {
				loopX = rs.X
			}
		}
		return true
	})
	if loopX == nil {
		c.Unknown(rule, "loadBlockLinks:link-loop", fi.Decl.Pos(), "anchor-unresolved: loop loading the links")
		return
	}
	lpt, _ := flow.PointOf(loopX)
	un := flow.ReachesWithout(lpt, func(nd ast.Node) bool { return nd.Pos() <= verify.Pos() && verify.End() <= nd.End() }, func(cond ast.Expr, taken bool) bool {
		// assume the block carries a signature
		be, ok := ast.Unparen(cond).(*ast.BinaryExpr)
		if ok && isFieldNamed(info, be.X, "Signature") {
			if yv, ok := info.Types[be.Y]; ok && yv.IsNil() {
				return taken == (be.Op == token.NEQ)
			}
		}
		return true
	})
	c.Check(!un, rule, "loadBlockLinks:verify-dominates-link-loads", verify.Pos(), "for a signed block verification precedes every link load",
		"for a block that carries a signature the link loads are reachable without VerifyBlockSignature: a forged commit's ancestry is fetched and the commit merged")
}

func ruleVerifyKeyMatch(c *eng.Ctx) {
	const rule = "VERIFY-KEYMATCH"
	if fi := c.Anchor(rule, "internal/core/block.VerifyBlockSignatureWithKey"); fi != nil {
		info := fi.Pkg.TypesInfo
		flow := eng.NewFlow(info, fi.Decl.Body)
		ps := paramObjs(info, fi.Decl)
		pub := ps[len(ps)-1]
		var cmp ast.Expr
		ast.Inspect(fi.Decl.Body, func(m ast.Node) bool {
			is, ok := m.(*ast.IfStmt)
			if !ok {
				return true
			}
			be, ok := ast.Unparen(is.Cond).(*ast.BinaryExpr)
			if ok && (be.Op == token.NEQ || be.Op == token.EQL) && mentionsObj(info, be, pub) && strings.Contains(eng.ExprStr(be), "Identity") {
				cmp = is.Cond
			}
			return true
		})
		var vcall *ast.CallExpr
		for _, cs := range eng.Calls(info, fi.Decl.Body) {
			if cs.Name == "internal/core/block.verifySignature" {
				vcall = cs.Call
			}
		}
		if vcall == nil {
			c.Bad(rule, "VerifyBlockSignatureWithKey:verify", fi.Decl.Pos(), "no cryptographic verification")
		} else {
			ok := cmp != nil
			if ok {
				pt, _ := flow.PointOf(vcall)
				ok = !flow.ReachesWithout(pt, func(nd ast.Node) bool { return nd == cmp }, nil)
			}
			c.Check(ok, rule, "VerifyBlockSignatureWithKey:identity-compared-first", vcall.Pos(), "the header identity is compared with the supplied key before verifying",
				"the signature header's identity is not compared with the supplied public key before verification: a commit signed by someone else verifies 'with' the caller's key")
			argsOK := len(vcall.Args) == 3 && eng.ObjOf(info, vcall.Args[0]) == pub && strings.HasSuffix(eng.ExprStr(vcall.Args[2]), ".Value")
			c.Check(argsOK, rule, "VerifyBlockSignatureWithKey:verify-args", vcall.Pos(), "verifySignature(key, signed bytes, signature value)", "verifySignature is not called with (supplied key, signed bytes, sigBlock.Value)")
		}
	}
	if fi := c.Anchor(rule, "internal/core/block.verifySignature"); fi != nil {
		info := fi.Pkg.TypesInfo
		var def *ast.AssignStmt
		var valid types.Object
		ast.Inspect(fi.Decl.Body, func(m ast.Node) bool {
			as, ok := m.(*ast.AssignStmt)
			if ok && len(as.Lhs) == 2 && len(as.Rhs) == 1 {
				if call, ok := as.Rhs[0].(*ast.CallExpr); ok && strings.HasSuffix(eng.CalleeName(info, call), ".Verify") {
					def, valid = as, eng.ObjOf(info, as.Lhs[0])
				}
			}
			return true
		})
		if def == nil {
			c.Bad(rule, "verifySignature:Verify", fi.Decl.Pos(), "verifySignature does not call the key's Verify")
			return
		}
		flow := eng.NewFlow(info, fi.Decl.Body)
		start, _ := flow.PointOf(def)
		outs, _ := flow.Paths(eng.PathSpec{Start: &start, Cond: func(br eng.Branch) eng.Tri {
			return eng.BranchTri(info, br, func(e ast.Expr) eng.Tri {
				if t := happyAtom(info, e); t != eng.Unknown {
					return t
				}
				if eng.ObjOf(info, e) == valid {
					return eng.False
				}
				return eng.Unknown
			})
		}})
		good := len(outs) > 0
		for _, o := range outs {
			if o.Kind != "return" || o.Ret == nil || len(o.Ret.Results) != 1 || eng.RetVal(info, o.Ret.Results[0]) == "nil" {
				good = false
			}
		}
		c.Check(good, rule, "verifySignature:invalid⇒error", def.Pos(), "an invalid signature yields an error", "verifySignature returns nil although Verify reported the signature invalid")
	}
	// VerifyBlockSignature: key derived from the signature block, same verifySignature
	if fi := c.Anchor(rule, "internal/core/block.VerifyBlockSignature"); fi != nil {
		info := fi.Pkg.TypesInfo
		ok := eng.ContainsCallTo(info, fi.Decl.Body, false, "internal/core/block.verifySignature") != nil &&
			eng.ContainsCallTo(info, fi.Decl.Body, false, "internal/core/block.getBlockBytesToSign") != nil
		c.Check(ok, rule, "VerifyBlockSignature:verifies-signed-bytes", fi.Decl.Pos(), "verifies getBlockBytesToSign(block)", "VerifyBlockSignature no longer verifies the block's signed bytes")
		// no path returns (true|false, nil) after Signature != nil without verifySignature
		flow := eng.NewFlow(info, fi.Decl.Body)
		bad := false
		for _, r := range successReturnsP(c.P, info, fi.Decl) {
			// first return (Signature == nil) is exempt: it reports "not verified"
			if tv, ok := info.Types[r.Results[0]]; ok && tv.Value != nil && tv.Value.ExactString() == "false" {
				continue
			}
			if eng.ContainsCallTo(info, r, false, "internal/core/block.verifySignature") != nil {
				continue
			}
			pt, _ := flow.PointOf(r)
			if flow.ReachesWithout(pt, func(nd ast.Node) bool {
				return eng.ContainsCallTo(info, nd, false, "internal/core/block.verifySignature") != nil
			}, nil) {
				bad = true
			}
		}
		verifierExemptions(c, rule)
		c.Check(!bad, rule, "VerifyBlockSignature:no-success-without-verify", fi.Decl.Pos(), "success implies verifySignature ran", "VerifyBlockSignature can report (verified, nil) without calling verifySignature")
	}
}

// verifierExemptions: the only way a verifier may report "nothing to verify" is the absence of a
// signature link on the block.
func verifierExemptions(c *eng.Ctx, rule string) {
	for _, name := range []string{"internal/core/block.VerifyBlockSignature", "internal/core/block.VerifyBlockSignatureWithKey"} {
		fi := c.P.Func(name)
		if fi == nil {
			continue
		}
		info := fi.Pkg.TypesInfo
		n := 0
		ast.Inspect(fi.Decl.Body, func(m ast.Node) bool {
			is, ok := m.(*ast.IfStmt)
			if !ok {
				return true
			}
			for _, st := range is.Body.List {
				r, ok := st.(*ast.ReturnStmt)
				if !ok || len(r.Results) != 2 {
					continue
				}
				if tv, ok := info.Types[r.Results[1]]; !ok || !tv.IsNil() {
					continue
				}
				n++
				good := false
				if be, ok := ast.Unparen(is.Cond).(*ast.BinaryExpr); ok && be.Op == token.EQL && isFieldNamed(info, be.X, "Signature") {
					if yv, ok := info.Types[be.Y]; ok && yv.IsNil() {
						good = true
					}
				}
				c.Check(good, rule, fmt.Sprintf("%s:unverified-success#%d(%s)", shortFn(fi), n, eng.ExprStr(is.Cond)), r.Pos(),
					"'not verified, no error' only for a block without signature link",
					"the verifier returns (.., nil) without verifying under condition "+eng.ExprStr(is.Cond)+", which depends on content of the block being verified other than the presence of the signature link: an attacker can steer a signed block into the unverified path")
			}
			return true
		})
	}
}

func ruleSignContext(c *eng.Ctx) {
	const rule = "SIGN-CONTEXT"
	for _, name := range []string{"internal/db.(*collection).save", "internal/db.(*collection).applyDelete"} {
		fi := c.Anchor(rule, name)
		if fi == nil {
			continue
		}
		info := fi.Pkg.TypesInfo
		flow := eng.NewFlow(info, fi.Decl.Body)
		var enable ast.Node
		ast.Inspect(fi.Decl.Body, func(m ast.Node) bool {
			if as, ok := m.(*ast.AssignStmt); ok && eng.ContainsCallTo(info, as, false, "internal/core/block.ContextWithEnabledSigning") != nil {
				enable = as
			}
			return true
		})
		k := 0
		for _, cs := range eng.Calls(info, fi.Decl.Body) {
			if cs.Name != "internal/core/block.AddDelta" || cs.Lit != nil {
				continue
			}
			k++
			ok := enable != nil
			if ok {
				pt, _ := flow.PointOf(cs.Call)
				ok = !flow.ReachesWithout(pt, func(nd ast.Node) bool { return nd == enable }, func(cond ast.Expr, taken bool) bool {
					// signing not disabled
					t := eng.EvalBool(info, cond, func(e ast.Expr) eng.Tri {
						if isFieldNamed(info, e, "signingDisabled") {
							return eng.False
						}
						return eng.Unknown
					})
					switch t {
					case eng.True:
						return taken
					case eng.False:
						return !taken
					}
					return true
				})
			}
			c.Check(ok, rule, fmt.Sprintf("%s:AddDelta#%d:signing-enabled", shortFn(fi), k), cs.Call.Pos(), "commits are written with signing enabled unless disabled by configuration",
				"a commit is written without ContextWithEnabledSigning on the path where signing is not disabled: that commit is unsigned")
		}
	}
}

func ruleSigTypeTables(c *eng.Ctx) {
	const rule = "SIGTYPE-TABLES"
	sign := c.Anchor(rule, "internal/core/block.signBlock")
	ver := c.Anchor(rule, "internal/core/block.getPublicKeyFromSignature")
	if sign == nil || ver == nil {
		return
	}
	// signer: case KeyTypeX: sigType = SignatureTypeY ; verifier: case SignatureTypeY: keyType = KeyTypeX
	pairs := func(fi *eng.FuncInfo, caseIsKey bool) map[string]string {
		info := fi.Pkg.TypesInfo
		out := map[string]string{}
		ast.Inspect(fi.Decl.Body, func(m ast.Node) bool {
			cc, ok := m.(*ast.CaseClause)
			if !ok || len(cc.List) != 1 {
				return true
			}
			co := selObj(info, cc.List[0])
			if co == nil {
				return true
			}
			for _, st := range cc.Body {
				if as, ok := st.(*ast.AssignStmt); ok && len(as.Rhs) == 1 {
					if vo := selObj(info, as.Rhs[0]); vo != nil {
						if caseIsKey {
							out[co.Name()] = vo.Name()
						} else {
							out[vo.Name()] = co.Name()
						}
					}
				}
			}
			return true
		})
		return out
	}
	s, v := pairs(sign, true), pairs(ver, false)
	good := len(s) > 0 && len(s) == len(v)
	for k, x := range s {
		if v[k] != x {
			good = false
		}
	}
	c.Check(good, rule, "signBlock≡getPublicKeyFromSignature:key-type-table", sign.Decl.Pos(), fmt.Sprintf("tables agree: %v", s),
		fmt.Sprintf("signer maps key types to signature types %v but the verifier maps back %v: signatures of one key type are verified as another (and fail) or not at all", s, v))
}

// coversAllButSignature: the function encodes, with marshalNode(·, BlockSchema), a value holding
// every field of its *Block parameter except Signature: either a value copy of the block whose
// Signature is set to nil, or a Block literal naming every other field of the struct.
func coversAllButSignature(fi *eng.FuncInfo) (bool, string) {
	info := fi.Pkg.TypesInfo
	var param types.Object
	for _, p := range paramObjs(info, fi.Decl) {
		if strings.HasSuffix(eng.TypeName(p.Type()), "internal/core/block.Block") {
			param = p
		}
	}
	if param == nil {
		return false, "no *Block parameter"
	}
	var encoded types.Object // local handed to marshalNode under BlockSchema
	ast.Inspect(fi.Decl.Body, func(m ast.Node) bool {
		if x, ok := m.(*ast.CallExpr); ok && eng.CalleeName(info, x) == "internal/core/block.marshalNode" && len(x.Args) == 2 {
			if o := selObj(info, x.Args[1]); o != nil && o.Name() == "BlockSchema" {
				ast.Inspect(x.Args[0], func(y ast.Node) bool {
					if id, ok := y.(*ast.Ident); ok {
						if v, isVar := info.Uses[id].(*types.Var); isVar && !v.IsField() {
							encoded = v
						}
					}
					return true
				})
			}
		}
		return true
	})
	if encoded == nil {
		return false, "nothing is encoded with marshalNode(·, BlockSchema)"
	}
	if encoded == param {
		return false, "the caller's block is encoded as it is, signature link included"
	}
	copied, cleared := false, false
	var missing []string
	literal := false
	ast.Inspect(fi.Decl.Body, func(m ast.Node) bool {
		as, ok := m.(*ast.AssignStmt)
		if !ok || len(as.Lhs) != 1 || len(as.Rhs) != 1 {
			return true
		}
		if eng.ObjOf(info, as.Lhs[0]) == encoded {
			rhs := ast.Unparen(as.Rhs[0])
			if st, ok := rhs.(*ast.StarExpr); ok && eng.ObjOf(info, st.X) == param {
				copied = true
			}
			if u, ok := rhs.(*ast.UnaryExpr); ok {
				rhs = ast.Unparen(u.X)
			}
			if cl, ok := rhs.(*ast.CompositeLit); ok && strings.HasSuffix(eng.TypeName(info.TypeOf(cl)), "internal/core/block.Block") {
				literal = true
				st, _ := info.TypeOf(cl).Underlying().(*types.Struct)
				named := map[string]bool{}
				for _, el := range cl.Elts {
					if kv, ok := el.(*ast.KeyValueExpr); ok {
						if id, ok := kv.Key.(*ast.Ident); ok {
							// initialised from the same field of the parameter
							if se, ok := ast.Unparen(kv.Value).(*ast.SelectorExpr); ok && se.Sel.Name == id.Name && eng.ObjOf(info, se.X) == param {
								named[id.Name] = true
							}
						}
					}
				}
				for i := 0; st != nil && i < st.NumFields(); i++ {
					if f := st.Field(i).Name(); f != "Signature" && !named[f] {
						missing = append(missing, f)
					}
				}
				if named["Signature"] {
					missing = append(missing, "Signature is included")
				}
			}
		}
		if isFieldNamed(info, as.Lhs[0], "Signature") {
			if se := ast.Unparen(as.Lhs[0]).(*ast.SelectorExpr); eng.ObjOf(info, se.X) == encoded {
				if tv, ok := info.Types[as.Rhs[0]]; ok && tv.IsNil() {
					cleared = true
				}
			}
		}
		return true
	})
	switch {
	case copied && cleared:
		return true, ""
	case copied:
		return false, "the copy keeps its signature link"
	case literal && len(missing) == 0:
		return true, ""
	case literal:
		return false, "fields left out of the signed bytes: " + strings.Join(missing, ", ")
	}
	return false, "the encoded value is neither a copy of the block nor a literal naming its fields"
}

// ruleMergeCidBound: what is verified and synced on receipt must be the commit whose merge is then
// requested. For every publication of an event.Merge in package net, the Cid it carries is bound to
// the synced data: either the sync call fetches by that very cid (the link system checks the hash),
// or the sync call takes a decoded block and a guard comparing the block's own generated link with
// that cid dominates the publication, with the mismatch edge leaving the function.
func ruleMergeCidBound(c *eng.Ctx) {
	const rule = "MERGE-CID-BOUND"
	n := 0
	for _, fi := range c.P.FuncsIn("net") {
		if fi.Decl.Body == nil || isTestFile(c.P, fi) {
			continue
		}
		info := fi.Pkg.TypesInfo
		var flow *eng.FlowGraph
		ast.Inspect(fi.Decl.Body, func(m ast.Node) bool {
			cl, ok := m.(*ast.CompositeLit)
			if !ok || eng.TypeName(info.TypeOf(cl)) != "event.Merge" {
				return true
			}
			var cidExpr ast.Expr
			for _, el := range cl.Elts {
				if kv, ok := el.(*ast.KeyValueExpr); ok {
					if id, ok := kv.Key.(*ast.Ident); ok && id.Name == "Cid" {
						cidExpr = kv.Value
					}
				}
			}
			n++
			construct := shortFn(fi) + ":merge-event:cid-bound-to-synced-data"
			cidObj := eng.ObjOf(info, cidExpr)
			if cidObj == nil {
				c.Unknown(rule, construct, cl.Pos(), "the Cid of the merge event is not a plain variable")
				return true
			}
			// (a) a sync call that takes the cid itself
			byCid := false
			var blockObj types.Object
			for _, cs := range eng.Calls(info, fi.Decl.Body) {
				if !strings.Contains(strings.ToLower(cs.Name), "sync") || cs.Call.Pos() > cl.Pos() {
					continue
				}
				for _, a := range cs.Call.Args {
					o := eng.ObjOf(info, a)
					if o == cidObj {
						byCid = true
					}
					if o != nil && strings.HasSuffix(eng.TypeName(o.Type()), "internal/core/block.Block") {
						blockObj = o
					}
				}
			}
			if byCid {
				c.OK(rule, construct, cl.Pos(), "the DAG is fetched by the cid that is merged")
				return true
			}
			if blockObj == nil {
				c.Bad(rule, construct, cl.Pos(), "the merge event's cid is neither what the sync call fetched nor compared with a synced block")
				return true
			}
			// (b) guard: link := block.GenerateLink(); if !link.Cid.Equals(cid) { return …err }
			var linkObj types.Object
			ast.Inspect(fi.Decl.Body, func(x ast.Node) bool {
				if as, ok := x.(*ast.AssignStmt); ok && len(as.Rhs) == 1 {
					if call, ok := ast.Unparen(as.Rhs[0]).(*ast.CallExpr); ok {
						if se, ok := call.Fun.(*ast.SelectorExpr); ok && se.Sel.Name == "GenerateLink" && eng.ObjOf(info, se.X) == blockObj {
							linkObj = eng.ObjOf(info, as.Lhs[0])
						}
					}
				}
				return true
			})
			// cmpTri: the value of a comparison of the block's own link with the merged cid when the
			// two DIFFER (Equals/== are false, != is true); Unknown for anything else.
			cmpTri := func(e ast.Expr) eng.Tri {
				if linkObj == nil {
					return eng.Unknown
				}
				switch y := ast.Unparen(e).(type) {
				case *ast.CallExpr:
					if se, ok := y.Fun.(*ast.SelectorExpr); ok && se.Sel.Name == "Equals" && len(y.Args) == 1 {
						if mentionsObj(info, se.X, linkObj) && mentionsObj(info, y.Args[0], cidObj) || mentionsObj(info, y.Args[0], linkObj) && mentionsObj(info, se.X, cidObj) {
							return eng.False
						}
					}
				case *ast.BinaryExpr:
					if (y.Op == token.EQL || y.Op == token.NEQ) && (mentionsObj(info, y.X, linkObj) && mentionsObj(info, y.Y, cidObj) || mentionsObj(info, y.Y, linkObj) && mentionsObj(info, y.X, cidObj)) {
						return eng.TriOf(y.Op == token.NEQ)
					}
				}
				return eng.Unknown
			}
			hasCmp := func(nd ast.Node) bool {
				found := false
				ast.Inspect(nd, func(x ast.Node) bool {
					if e, ok := x.(ast.Expr); ok && cmpTri(e) != eng.Unknown {
						found = true
					}
					return !found
				})
				return found
			}
			// bool locals holding the comparison (single definition)
			held := map[types.Object]ast.Expr{}
			defs := map[types.Object]int{}
			ast.Inspect(fi.Decl.Body, func(x ast.Node) bool {
				if as, ok := x.(*ast.AssignStmt); ok && len(as.Lhs) == 1 && len(as.Rhs) == 1 {
					if o := eng.ObjOf(info, as.Lhs[0]); o != nil {
						defs[o]++
						if hasCmp(as.Rhs[0]) {
							held[o] = as.Rhs[0]
						}
					}
				}
				return true
			})
			var atom func(e ast.Expr) eng.Tri
			atom = func(e ast.Expr) eng.Tri {
				if t := cmpTri(e); t != eng.Unknown {
					return t
				}
				if o := eng.ObjOf(info, e); o != nil && held[o] != nil && defs[o] == 1 {
					return eng.EvalBool(info, held[o], atom)
				}
				return eng.Unknown
			}
			// the guard is the statement or condition in which the comparison is evaluated
			isGuard := func(nd ast.Node) bool { return hasCmp(nd) }
			if flow == nil {
				flow = eng.NewFlow(info, fi.Decl.Body)
			}
			pt, ok := flow.PointOf(cl)
			if !ok {
				c.Unknown(rule, construct, cl.Pos(), "publication not found in the flow graph")
				return true
			}
			// (i) every path to the publication evaluates the comparison, and (ii) from the comparison
			// on, with "the two differ" assumed, the publication is unreachable
			unguarded := flow.ReachesWithout(pt, isGuard, nil)
			leaves := linkObj != nil
			for _, b := range flow.G.Blocks {
				if !b.Live {
					continue
				}
				for i, nd := range b.Nodes {
					if !isGuard(nd) {
						continue
					}
					reached := flow.Forward(eng.Point{B: b, I: i}, false, eng.Walk{
						Visit: func(p eng.Point, _ ast.Node) eng.Action {
							if p == pt {
								return eng.Hit
							}
							return eng.Continue
						},
						Edge: func(cond ast.Expr, taken bool) bool {
							switch eng.EvalBool(info, cond, atom) {
							case eng.True:
								return taken
							case eng.False:
								return !taken
							}
							return true
						},
					})
					if reached {
						leaves = false
					}
				}
			}
			c.Check(!unguarded && leaves, rule, construct, cl.Pos(), "the merged cid is compared with the synced block's own link; a mismatch leaves the function",
				"the merge is requested for a cid that is not tied to the block that was verified and synced: a request carrying a valid block under another commit's cid gets that other commit — e.g. a forged one stored by an earlier rejected delivery — merged without verification")
			return true
		})
	}
	c.Floor(rule, n, 2)
}
