package rules

import (
	"fmt"
	"go/ast"
	"go/token"
	"go/types"
	"strings"

	"defracheck/internal/eng"
)

func init() {
	register(&Property{
		ID: "C06",
		Rules: []Rule{
			{"EXPLICIT-NOOP", ruleExplicitNoop},
			{"MULTISTORE-ROOT", ruleMultistoreRoot},
			{"ROOTSTORE-BYPASS", ruleRootstoreBypass},
			{"TXN-SOURCE", ruleTxnSource},
			{"SHARED-STATE-ON-SUCCESS", ruleSharedStateOnSuccess},
			{"EVENT-ONSUCCESS", ruleEventOnSuccess},
			{"HANDLE-INDEX-UNDO", ruleHandleIndexUndo},
			{"CTX-TXN", ruleCtxTxn},
		},
		Meta: eng.PropMeta{
			Explanation: "Snapshot reads and conflict detection are implemented by the key-value store (corekv: badger / memory), outside this repository, and are not decided. Decided are the conditions under which DefraDB inherits them: (EXPLICIT-NOOP) Txn.Commit/Discard reach the underlying transaction exactly when the transaction is not marked explicit, and ensureContextTxn marks every context-supplied transaction explicit on every non-error arm; (MULTISTORE-ROOT) every sub-store of a Multistore is a prefix view of the single rootstore argument, and NewTxnFrom/NewConcurrentTxnFrom build the store tree from the very KV transaction (or its mutex wrapper) they commit and discard; (ROOTSTORE-BYPASS) reads or writes that go around any transaction (datastore.*From(rootstore)) occur only at the tabled sites (p2p bookkeeping, bitswap block store, key store, committed-head re-announcement, signature verification, the versioned fetcher's private store); (TXN-SOURCE) inside internal/db only tabled functions create transactions — an API call can not run part of its work in a private transaction; (CTX-TXN) every API entry function obtains its transaction from the context through ensureContextTxn before touching a store. (SHARED-STATE-ON-SUCCESS) objects that outlive transactions (tabled: DB, the GraphQL parser, the lens registry, the merge queue, the schema manager) assign their own fields, inside a function working under the context's transaction, only within a callback registered with txn.OnSuccess/OnSuccessAsync. (EVENT-ONSUCCESS) as in C05/C20: an update event — the way a write becomes visible to subscribers, replicators and pubsub — is published only from a transaction success callback, so a write of an open, discarded or conflicting transaction is not announced outside it. (HANDLE-INDEX-UNDO) createIndex and dropIndex change the caller's collection handle at once and register, on every success path, an undo with the transaction, so that a discarded or failed transaction leaves no trace on the handle either.",
			NotDecided:  "snapshot isolation, conflict detection and atomic visibility themselves (third-party KV store); lost updates and visibility timing over interleavings",
		},
	})
}

func ruleExplicitNoop(c *eng.Ctx) {
	const rule = "EXPLICIT-NOOP"
	for _, m := range []string{"Commit", "Discard"} {
		fi := c.Anchor(rule, "internal/db.(*Txn)."+m)
		if fi == nil {
			continue
		}
		info := fi.Pkg.TypesInfo
		flow := eng.NewFlow(info, fi.Decl.Body)
		for _, explicit := range []bool{true, false} {
			outs, _ := flow.Paths(eng.PathSpec{
				Cond: func(br eng.Branch) eng.Tri {
					return eng.BranchTri(info, br, func(e ast.Expr) eng.Tri {
						if isFieldNamed(info, e, "explicit") {
							return eng.TriOf(explicit)
						}
						return eng.Unknown
					})
				},
				Effect: func(n ast.Node) string {
					if eng.ContainsCallTo(info, n, false, "internal/datastore.(*BasicTxn)."+m) != nil {
						return "underlying"
					}
					return ""
				},
			})
			reaches := false
			for _, o := range outs {
				for _, e := range o.Effects {
					if e == "underlying" {
						reaches = true
					}
				}
			}
			c.Check(reaches == !explicit, rule, fmt.Sprintf("Txn.%s:cell(explicit=%v)", m, explicit), fi.Decl.Pos(),
				fmt.Sprintf("underlying %s reached: %v", m, !explicit),
				fmt.Sprintf("with explicit=%v the underlying transaction's %s is reached=%v: an API call inside a caller-owned transaction would %s it (or an implicit one would never end)", explicit, m, reaches, strings.ToLower(m)))
		}
	}
	// ensureContextTxn: every success return on the context-supplied arm returns a Txn marked explicit
	fi := c.Anchor(rule, "internal/db.ensureContextTxn")
	if fi == nil {
		return
	}
	info := fi.Pkg.TypesInfo
	var okObj types.Object
	var def *ast.AssignStmt
	ast.Inspect(fi.Decl.Body, func(m ast.Node) bool {
		as, isAs := m.(*ast.AssignStmt)
		if isAs && len(as.Rhs) == 1 && len(as.Lhs) == 2 {
			if call, isCall := as.Rhs[0].(*ast.CallExpr); isCall && eng.CalleeName(info, call) == "internal/datastore.CtxTryGetTxn" {
				okObj, def = eng.ObjOf(info, as.Lhs[1]), as
			}
		}
		return true
	})
	if def == nil {
		c.Unknown(rule, "ensureContextTxn:CtxTryGetTxn", fi.Decl.Pos(), "anchor-unresolved")
		return
	}
	// inside the `if ok` body: every return with a nil error returns (.., X, nil) where X is known explicit
	var okIf *ast.IfStmt
	ast.Inspect(fi.Decl.Body, func(m ast.Node) bool {
		if is, isIf := m.(*ast.IfStmt); isIf && eng.ObjOf(info, is.Cond) == okObj {
			okIf = is
		}
		return true
	})
	if okIf == nil {
		c.Unknown(rule, "ensureContextTxn:ok-arm", fi.Decl.Pos(), "anchor-unresolved: `if ok {`")
		return
	}
	n := 0
	ast.Inspect(okIf.Body, func(m ast.Node) bool {
		r, isRet := m.(*ast.ReturnStmt)
		if !isRet || len(r.Results) != 3 {
			return true
		}
		if tv, ok := info.Types[r.Results[2]]; !ok || !tv.IsNil() {
			return true // error return
		}
		n++
		x := eng.ObjOf(info, r.Results[1])
		good := false
		why := ""
		if x != nil {
			// (a) x assigned from &Txn{..., true} ; (b) return inside `if x.explicit`
			ast.Inspect(okIf.Body, func(y ast.Node) bool {
				if as, ok := y.(*ast.AssignStmt); ok && len(as.Lhs) == 1 && eng.ObjOf(info, as.Lhs[0]) == x && len(as.Rhs) == 1 {
					if ue, ok := ast.Unparen(as.Rhs[0]).(*ast.UnaryExpr); ok {
						if cl, ok := ue.X.(*ast.CompositeLit); ok && eng.TypeName(info.TypeOf(cl)) == "internal/db.Txn" {
							// last positional element or explicit: true
							for i, e := range cl.Elts {
								if kv, ok := e.(*ast.KeyValueExpr); ok {
									if k, ok := kv.Key.(*ast.Ident); ok && k.Name == "explicit" {
										if tv, ok := info.Types[kv.Value]; ok && tv.Value != nil && tv.Value.ExactString() == "true" {
											good = true
										}
									}
								} else if i == len(cl.Elts)-1 {
									if tv, ok := info.Types[e]; ok && tv.Value != nil && tv.Value.ExactString() == "true" {
										good = true
									}
								}
							}
						}
					}
				}
				if is, ok := y.(*ast.IfStmt); ok && is.Body.Pos() <= r.Pos() && r.End() <= is.Body.End() {
					if se, ok := ast.Unparen(is.Cond).(*ast.SelectorExpr); ok && se.Sel.Name == "explicit" && eng.ObjOf(info, se.X) == x {
						good = true
					}
				}
				return true
			})
			why = x.Name()
		}
		c.Check(good, rule, fmt.Sprintf("ensureContextTxn:context-arm-return#%d(%s)", n, why), r.Pos(),
			"a context-supplied transaction is returned marked explicit", "ensureContextTxn hands back a context-supplied transaction that is not marked explicit: the API call's deferred Discard / Commit would end the caller's transaction")
		return true
	})
	c.Floor(rule, n, 2)
}

func ruleMultistoreRoot(c *eng.Ctx) {
	const rule = "MULTISTORE-ROOT"
	if fi := c.Anchor(rule, "internal/datastore.NewMultistore"); fi != nil {
		info := fi.Pkg.TypesInfo
		root := paramObjs(info, fi.Decl)[0]
		n := 0
		ast.Inspect(fi.Decl.Body, func(m ast.Node) bool {
			cl, ok := m.(*ast.CompositeLit)
			if !ok || eng.TypeName(info.TypeOf(cl)) != "internal/datastore.Multistore" {
				return true
			}
			for _, e := range cl.Elts {
				kv, ok := e.(*ast.KeyValueExpr)
				if !ok {
					continue
				}
				n++
				k := kv.Key.(*ast.Ident).Name
				c.Check(mentionsObj(info, kv.Value, root), rule, "NewMultistore:"+k, kv.Pos(), "sub-store is a view of the single root argument",
					"sub-store "+k+" is not derived from the rootstore argument: writes to it are outside the transaction that carries the other stores")
			}
			return true
		})
		c.Floor(rule, n, 6)
	}
	for _, name := range []string{"internal/datastore.NewTxnFrom", "internal/datastore.NewConcurrentTxnFrom"} {
		fi := c.Anchor(rule, name)
		if fi == nil {
			continue
		}
		info := fi.Pkg.TypesInfo
		// rootTxn := rootstore.NewTxn(..); the BasicTxn literal's txn field and the NewMultistore argument
		var kvTxn types.Object
		ast.Inspect(fi.Decl.Body, func(m ast.Node) bool {
			as, ok := m.(*ast.AssignStmt)
			if ok && len(as.Lhs) == 1 && len(as.Rhs) == 1 {
				if call, ok := as.Rhs[0].(*ast.CallExpr); ok && strings.HasSuffix(eng.CalleeName(info, call), ".NewTxn") {
					kvTxn = eng.ObjOf(info, as.Lhs[0])
				}
			}
			return true
		})
		if kvTxn == nil {
			c.Unknown(rule, shortFn(fi)+":kv-txn", fi.Decl.Pos(), "anchor-unresolved: rootstore.NewTxn")
			continue
		}
		// wrappers of kvTxn (composite literal embedding it)
		derived := map[types.Object]bool{kvTxn: true}
		ast.Inspect(fi.Decl.Body, func(m ast.Node) bool {
			as, ok := m.(*ast.AssignStmt)
			if ok && len(as.Lhs) == 1 && len(as.Rhs) == 1 && mentionsObj(info, as.Rhs[0], kvTxn) {
				if _, isCall := ast.Unparen(as.Rhs[0]).(*ast.CallExpr); !isCall {
					derived[eng.ObjOf(info, as.Lhs[0])] = true
				}
			}
			return true
		})
		for _, cs := range eng.Calls(info, fi.Decl.Body) {
			if cs.Name == "internal/datastore.NewMultistore" {
				o := eng.ObjOf(info, cs.Call.Args[0])
				c.Check(o != nil && derived[o], rule, shortFn(fi)+":multistore-from-kv-txn", cs.Call.Pos(), "the store tree is built from the KV transaction that is committed",
					"NewMultistore receives "+eng.ExprStr(cs.Call.Args[0])+", not the KV transaction created here: reads and writes bypass the transaction (no isolation, discard leaves the writes behind)")
			}
		}
		ast.Inspect(fi.Decl.Body, func(m ast.Node) bool {
			cl, ok := m.(*ast.CompositeLit)
			if !ok || eng.TypeName(info.TypeOf(cl)) != "internal/datastore.BasicTxn" {
				return true
			}
			for _, e := range cl.Elts {
				if kv, ok := e.(*ast.KeyValueExpr); ok && kv.Key.(*ast.Ident).Name == "txn" {
					o := eng.ObjOf(info, kv.Value)
					c.Check(o != nil && derived[o], rule, shortFn(fi)+":commit-target-is-kv-txn", kv.Pos(), "Commit/Discard act on the same KV transaction", "BasicTxn.txn is not the KV transaction the stores were built from")
				}
			}
			return true
		})
	}
}

// rootstoreBypassTable: functions allowed to address the root store outside a transaction.
var rootstoreBypassTable = map[string]string{
	"node.(*Node).startP2P":                        "the KMS key store is a service-level store, not part of API transactions",
	"net.NewPeer":                                  "bitswap serves committed blocks from the block store",
	"net.(*Peer).retryReplicators":                 "replicator retry bookkeeping in the peer store",
	"net.(*Peer).retryReplicator":                  "replicator retry bookkeeping in the peer store",
	"net.(*Peer).setReplicatorAsRetrying":          "replicator retry bookkeeping in the peer store",
	"net.(*Peer).resetRetryingReplicators":         "replicator retry bookkeeping in the peer store (start-up reset of the persisted retrying state)",
	"net.(*server).processDocSyncItem":             "doc-sync answers with the committed heads of a document",
	"internal/db/fetcher.(*VersionedFetcher).Init": "the versioned fetcher's private in-memory root",
	"internal/db.(*DB).publishDocUpdateEvent":      "re-announces committed heads after an ACP grant",
	"internal/db.(*DB).VerifySignature":            "reads committed blocks to verify a signature",
}

func ruleRootstoreBypass(c *eng.Ctx) {
	const rule = "ROOTSTORE-BYPASS"
	n := 0
	for _, fi := range c.P.Funcs() {
		sp := eng.ShortPkg(fi.Pkg.PkgPath)
		if fi.Decl.Body == nil || strings.HasPrefix(sp, "tests") || strings.HasPrefix(sp, "cli") || strings.Contains(sp, "mocks") || sp == "internal/datastore" {
			continue
		}
		info := fi.Pkg.TypesInfo
		ord := map[string]int{}
		for _, cs := range eng.Calls(info, fi.Decl.Body) {
			if !strings.HasPrefix(cs.Name, "internal/datastore.") || !strings.HasSuffix(cs.Name, "From") || cs.Name == "internal/datastore.NewTxnFrom" || cs.Name == "internal/datastore.NewConcurrentTxnFrom" {
				continue
			}
			n++
			k := shortFn(fi) + "→" + strings.TrimPrefix(cs.Name, "internal/datastore.")
			ord[k]++
			why, ok := rootstoreBypassTable[fi.Name]
			c.Check(ok, rule, fmt.Sprintf("%s#%d", k, ord[k]), cs.Call.Pos(), "tabled bypass: "+why,
				"a store view over the root store (outside any transaction) is opened by a function that is not a tabled bypass: its reads are not isolated and its writes are neither atomic with nor rolled back with the surrounding API call")
		}
	}
	c.Floor(rule, n, 8)
}

// ruleCtxTxn: exported methods of *collection and *DB that touch a store do so after ensureContextTxn.
func ruleCtxTxn(c *eng.Ctx) {
	const rule = "CTX-TXN"
	n := 0
	for _, fi := range c.P.FuncsIn("internal/db") {
		if fi.Decl.Body == nil || fi.Decl.Recv == nil || !fi.Obj.Exported() {
			continue
		}
		rt := eng.TypeName(fi.Obj.Type().(*types.Signature).Recv().Type())
		if rt != "internal/db.collection" && rt != "internal/db.DB" {
			continue
		}
		info := fi.Pkg.TypesInfo
		// direct uses of a context transaction
		var uses []*ast.CallExpr
		for _, cs := range eng.Calls(info, fi.Decl.Body) {
			if cs.Name == "internal/datastore.CtxMustGetTxn" && cs.Lit == nil {
				uses = append(uses, cs.Call)
			}
		}
		if len(uses) == 0 {
			continue
		}
		flow := eng.NewFlow(info, fi.Decl.Body)
		for i, u := range uses {
			n++
			pt, _ := flow.PointOf(u)
			un := flow.ReachesWithout(pt, func(nd ast.Node) bool {
				return eng.ContainsCallTo(info, nd, false, "internal/db.ensureContextTxn") != nil
			}, nil)
			c.Check(!un, rule, fmt.Sprintf("%s:CtxMustGetTxn#%d", shortFn(fi), i+1), u.Pos(), "the context transaction is ensured first",
				"an exported API method takes the transaction out of the context without ensureContextTxn: called without an explicit transaction it panics, and it never gets an implicit one")
		}
	}
	c.Notes = append(c.Notes, fmt.Sprintf("CTX-TXN: %d direct context-transaction uses in exported API methods", n))
	_ = token.NoPos
}
