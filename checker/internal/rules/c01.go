package rules

import (
	"fmt"
	"go/ast"
	"go/token"
	"go/types"
	"strings"

	"defracheck/internal/eng"
)

func init() {
	register(&Property{
		ID: "C01",
		Rules: []Rule{
			{"LWW-TABLE", ruleLWWTable},
			{"NOTFOUND", ruleNotFound},
			{"DELETED-REDIRECT", ruleDeletedRedirect},
			{"SORT-BEFORE-BUILD", ruleSortBeforeBuild},
			{"WALK-PARTITION", func(c *eng.Ctx) { ruleWalkPartitionMerge(c) }},
			{"WALK-STOP", ruleWalkStop},
			{"MERGE-SERIAL", ruleMergeSerial},
			{"SYNC-INDEX-TABLE", ruleSyncIndexTable},
			{"UNKNOWN-FIELD-SKIP", ruleUnknownFieldSkip},
			{"MERGE-FRESH-COLLECTION", ruleMergeFreshCollection},
			{"ERRFLOW", func(c *eng.Ctx) {
				ruleErrFlowCone(c, "ERRFLOW", []string{"internal/db.(*DB).executeMerge"}, mergeConePkgs, 40)
			}},
		},
		Meta: eng.PropMeta{
			Explanation: "Decides the structural mechanisms replica convergence rests on: (LWW-TABLE) the 9-cell decision table of LWW.setValue over (priority order x value order) is 'overwrite iff (priority,value) is lexicographically greater' — a max over a total order, hence commutative/associative/idempotent; (NOTFOUND) every store.Get in package crdt filters corekv.ErrNotFound before propagating (a null write deletes the key, so a well-formed merge must tolerate absence); (DELETED-REDIRECT) every CRDT that writes value keys probes the primary-key marker and redirects to the deleted key space before any value access; (SORT-BEFORE-BUILD) coreblock.New sorts heads and links before use and heads.List sorts before returning (block bytes independent of store iteration order); (WALK-PARTITION) the merge enqueue walk follows Heads only and the apply recursion Links only; (MERGE-SERIAL) executeMerge runs between mergeQueue.add/deferred done with the same key and is retried exactly on ErrTxnConflict; (UNKNOWN-FIELD-SKIP) an unknown field yields a skipped block, not an error; (ERRFLOW) no storage-derived error is dropped, only logged, or replaced by a nil variable inside the merge cone. (SYNC-INDEX-TABLE) after a merge the index is maintained according to the 4-cell table over (document absent before, absent after): index / un-index / update / nothing — a nil document never reaches the index code, so a merge cannot fail on one replica only.",
			NotDecided:  "that the walk's stop condition (headHeight, heads at different heights) visits exactly the unmerged ancestors for every DAG shape (the 3-replica re-application named in the property is a runtime-shape question); equality of query results across replicas; interaction with unique indexes",
		},
	})
}

var mergeConePkgs = []string{"internal/db", "internal/db/...", "internal/core/...", "internal/datastore", "internal/keys", "internal/encryption"}

// ---------------------------------------------------------------------------------------------
// LWW-TABLE

func ruleLWWTable(c *eng.Ctx) {
	const rule = "LWW-TABLE"
	// anchor: the function the LWW Merge method delegates to (resolved through the call, not by name)
	merge := c.Anchor(rule, "internal/core/crdt.(*LWW).Merge")
	if merge == nil {
		return
	}
	info := merge.Pkg.TypesInfo
	var fi *eng.FuncInfo
	var priArgIdx, valArgIdx = -1, -1
	for _, cs := range eng.Calls(info, merge.Decl.Body) {
		if cs.Callee == nil {
			continue
		}
		cand := c.P.FuncOfObj(cs.Callee)
		if cand == nil || cand.Pkg != merge.Pkg || cand == merge {
			continue
		}
		// the delegate receives d.GetPriority() and d.Data
		pi, vi := -1, -1
		for i, a := range cs.Call.Args {
			if call, ok := a.(*ast.CallExpr); ok && strings.HasSuffix(eng.CalleeName(info, call), ".GetPriority") {
				pi = i
			}
			if se, ok := a.(*ast.SelectorExpr); ok && se.Sel.Name == "Data" {
				vi = i
			}
		}
		if pi >= 0 && vi >= 0 {
			fi, priArgIdx, valArgIdx = cand, pi, vi
		}
	}
	if fi == nil {
		c.Unknown(rule, "LWW.Merge:delegate", merge.Decl.Pos(), "anchor-unresolved: LWW.Merge does not delegate (delta.Data, delta.GetPriority()) to a package function")
		return
	}
	ps := paramObjs(info, fi.Decl)
	if priArgIdx >= len(ps) || valArgIdx >= len(ps) {
		c.Unknown(rule, "setValue:params", fi.Decl.Pos(), "anchor-unresolved: parameter positions")
		return
	}
	prio, val := ps[priArgIdx], ps[valArgIdx]
	// slots: curPrio := getPriority(...); curValue := store.Get(valuekey)
	var curPrio, curVal types.Object
	var curValGet *ast.CallExpr
	ast.Inspect(fi.Decl.Body, func(n ast.Node) bool {
		as, ok := n.(*ast.AssignStmt)
		if !ok || len(as.Rhs) != 1 {
			return true
		}
		call, ok := as.Rhs[0].(*ast.CallExpr)
		if !ok {
			return true
		}
		switch cn := eng.CalleeName(info, call); {
		case cn == "internal/core/crdt.getPriority":
			curPrio = eng.ObjOf(info, as.Lhs[0])
		case cn == "github.com/sourcenetwork/corekv.(Reader).Get":
			if len(call.Args) == 2 && !strings.Contains(eng.ExprStr(call.Args[1]), "ToPrimaryDataStoreKey") {
				curVal = eng.ObjOf(info, as.Lhs[0])
				curValGet = call
			}
		}
		return true
	})
	if curPrio == nil || curVal == nil {
		c.Unknown(rule, "setValue:slots", fi.Decl.Pos(), "anchor-unresolved: current priority (getPriority) / current value (store.Get of the value key) not found")
		return
	}
	flow := eng.NewFlow(info, fi.Decl.Body)
	sgn := map[int]string{-1: "<", 0: "=", 1: ">"}
	for _, ps := range []int{-1, 0, 1} { // sign(priority ? curPrio)
		for _, vs := range []int{-1, 0, 1} { // sign(curValue ? val)
			absentIsNil := false
			atom := func(e ast.Expr) eng.Tri {
				e = ast.Unparen(e)
				switch x := e.(type) {
				case *ast.BinaryExpr:
					xo, yo := eng.ObjOf(info, x.X), eng.ObjOf(info, x.Y)
					if xo == prio && yo == curPrio {
						if r, ok := eng.CmpHolds(x.Op, ps); ok {
							return eng.TriOf(r)
						}
					}
					if xo == curPrio && yo == prio {
						if r, ok := eng.CmpHolds(x.Op, -ps); ok {
							return eng.TriOf(r)
						}
					}
					// bytes.Compare(a,b) OP k
					if call, ok := ast.Unparen(x.X).(*ast.CallExpr); ok && eng.CalleeName(info, call) == "bytes.Compare" && len(call.Args) == 2 {
						if k, ok := eng.IntConst(info, x.Y); ok {
							ao, bo := eng.ObjOf(info, call.Args[0]), eng.ObjOf(info, call.Args[1])
							s := 2
							if ao == curVal && bo == val {
								s = vs
							} else if ao == val && bo == curVal {
								s = -vs
							}
							if s != 2 {
								if r, ok := eng.CmpHolds(x.Op, cmpInt(int64(s), k)); ok {
									return eng.TriOf(r)
								}
							}
						}
					}
					// error nil tests: happy path
					if tv := info.TypeOf(x.X); tv != nil && eng.IsErrorType(tv) {
						if yv, ok := info.Types[x.Y]; ok && yv.IsNil() {
							return eng.TriOf(x.Op == token.EQL)
						}
					}
				case *ast.CallExpr:
					cn := eng.CalleeName(info, x)
					if strings.HasSuffix(cn, "errors.Is") {
						return eng.False
					}
					if cn == "bytes.Equal" && len(x.Args) == 2 {
						ao, bo := eng.ObjOf(info, x.Args[0]), eng.ObjOf(info, x.Args[1])
						if (ao == curVal && bo == val) || (ao == val && bo == curVal) {
							return eng.TriOf(vs == 0)
						}
					}
				}
				_ = absentIsNil
				return eng.Unknown
			}
			outs, trunc := flow.Paths(eng.PathSpec{
				Cond: func(br eng.Branch) eng.Tri { return eng.BranchTri(info, br, atom) },
				Effect: func(n ast.Node) string {
					lbl := ""
					ast.Inspect(n, func(m ast.Node) bool {
						if call, ok := m.(*ast.CallExpr); ok {
							switch eng.CalleeName(info, call) {
							case "github.com/sourcenetwork/corekv.(Writer).Set", "github.com/sourcenetwork/corekv.(Writer).Delete":
								lbl = "write"
							case "internal/core/crdt.setPriority":
								lbl = "prio"
							}
						}
						return true
					})
					return lbl
				},
			})
			got := map[string]bool{}
			for _, o := range outs {
				w, p := false, false
				for _, e := range o.Effects {
					if e == "write" {
						w = true
					}
					if e == "prio" {
						p = true
					}
				}
				switch {
				case o.Kind != "return":
					got["abnormal:"+o.Kind] = true
				case w && p:
					got["overwrite"] = true
				case !w && !p:
					// a return with a constructed (non-nil) error is an error exit
					if o.Ret != nil && len(o.Ret.Results) == 1 && eng.RetVal(info, o.Ret.Results[0]) == "nil" {
						got["keep"] = true
					} else {
						got["error-exit:"+eng.RetVal(info, o.Ret.Results[0])] = true
					}
				default:
					got[fmt.Sprintf("partial(write=%v,prio=%v)", w, p)] = true
				}
			}
			want := "keep"
			if ps > 0 || (ps == 0 && vs < 0) {
				want = "overwrite"
			}
			keys := setKeys(got)
			construct := fmt.Sprintf("setValue:cell(priority%scur,curValue%sval)", sgn[ps], sgn[vs])
			if trunc {
				c.Unknown(rule, construct, fi.Decl.Pos(), "path enumeration truncated")
				continue
			}
			c.Check(len(keys) == 1 && keys[0] == want, rule, construct, fi.Decl.Pos(),
				want, fmt.Sprintf("register does %v, a max over the total order (priority, value) requires %q — merges would not commute", keys, want))
		}
	}
	_ = curValGet
}

// ---------------------------------------------------------------------------------------------
// NOTFOUND

// ruleNotFound: every Get of the CRDT store in package crdt must tolerate an absent key.
func ruleNotFound(c *eng.Ctx) {
	const rule = "NOTFOUND"
	n := 0
	for _, fi := range c.P.FuncsIn("internal/core/crdt") {
		if fi.Decl.Body == nil {
			continue
		}
		info := fi.Pkg.TypesInfo
		ord := 0
		var flow *eng.FlowGraph
		ast.Inspect(fi.Decl.Body, func(m ast.Node) bool {
			as, ok := m.(*ast.AssignStmt)
			if !ok || len(as.Rhs) != 1 {
				return true
			}
			call, ok := as.Rhs[0].(*ast.CallExpr)
			if !ok || eng.CalleeName(info, call) != "github.com/sourcenetwork/corekv.(Reader).Get" || len(as.Lhs) != 2 {
				return true
			}
			n++
			ord++
			construct := fmt.Sprintf("%s:Get#%d(%s)", shortFn(fi), ord, keyClass(call))
			errObj := eng.ObjOf(info, as.Lhs[1])
			if errObj == nil {
				c.Bad(rule, construct, call.Pos(), "error of store.Get discarded")
				return true
			}
			if flow == nil {
				flow = eng.NewFlow(info, fi.Decl.Body)
			}
			if pos, bad := notFoundUnfiltered(info, flow, fi.Decl, as, errObj); bad {
				c.Bad(rule, construct, call.Pos(), "the error of this Get reaches the return at "+c.P.Rel(pos)+
					" without an errors.Is(err, corekv.ErrNotFound) test: a key legitimately absent (a null write deletes the value key) makes a well-formed merge fail on one replica only")
			} else {
				c.OK(rule, construct, call.Pos(), "ErrNotFound filtered before the error is propagated")
			}
			return true
		})
	}
	c.Floor(rule, n, 4)
}

func keyClass(call *ast.CallExpr) string {
	s := eng.ExprStr(call.Args[len(call.Args)-1])
	switch {
	case strings.Contains(s, "ToPrimaryDataStoreKey"):
		return "marker-key"
	case strings.Contains(s, "pKey") || strings.Contains(s, "Priority"):
		return "priority-key"
	}
	return "value-key"
}

// notFoundUnfiltered: is there a path from the Get on which err is non-nil to a return, without
// passing a condition that tests errors.Is(err, corekv.ErrNotFound) (directly or through a
// boolean variable defined from it)?
func notFoundUnfiltered(info *types.Info, flow *eng.FlowGraph, fd *ast.FuncDecl, def ast.Node, errObj types.Object) (token.Pos, bool) {
	isFilterCall := func(e ast.Expr) bool {
		found := false
		ast.Inspect(e, func(m ast.Node) bool {
			call, ok := m.(*ast.CallExpr)
			if !ok || len(call.Args) != 2 {
				return true
			}
			cn := eng.CalleeName(info, call)
			if !strings.HasSuffix(cn, "errors.Is") {
				return true
			}
			if eng.ObjOf(info, call.Args[0]) != errObj {
				return true
			}
			if o := selObj(info, call.Args[1]); o != nil && o.Name() == "ErrNotFound" && o.Pkg() != nil && strings.HasSuffix(o.Pkg().Path(), "corekv") {
				found = true
			}
			return true
		})
		return found
	}
	// boolean variables defined from a filter call
	filterVars := map[types.Object]bool{}
	ast.Inspect(fd.Body, func(m ast.Node) bool {
		if as, ok := m.(*ast.AssignStmt); ok && len(as.Lhs) == 1 && len(as.Rhs) == 1 && isFilterCall(as.Rhs[0]) {
			if o := eng.ObjOf(info, as.Lhs[0]); o != nil {
				filterVars[o] = true
			}
		}
		return true
	})
	mentionsFilter := func(e ast.Expr) bool {
		if isFilterCall(e) {
			return true
		}
		f := false
		ast.Inspect(e, func(m ast.Node) bool {
			if id, ok := m.(*ast.Ident); ok && filterVars[info.Uses[id]] {
				f = true
			}
			return true
		})
		return f
	}
	start, ok := flow.PointOf(def)
	if !ok {
		return token.NoPos, false
	}
	var where token.Pos
	hit := flow.Forward(start, false, eng.Walk{
		Visit: func(pt eng.Point, n ast.Node) eng.Action {
			switch s := n.(type) {
			case *ast.ReturnStmt:
				where = s.Pos()
				return eng.Hit
			case *ast.AssignStmt:
				for _, l := range s.Lhs {
					if eng.ObjOf(info, l) == errObj && n != def {
						return eng.Cut // err re-assigned: a new obligation
					}
				}
			case ast.Expr:
				if mentionsFilter(s) {
					return eng.Cut
				}
			}
			return eng.Continue
		},
		Edge: func(cond ast.Expr, taken bool) bool {
			if mentionsFilter(cond) {
				return false
			}
			t := eng.EvalBool(info, cond, func(e ast.Expr) eng.Tri {
				if is, nonNil := eng.ErrNilTest(info, e, errObj); is {
					return eng.TriOf(nonNil)
				}
				return eng.Unknown
			})
			switch t {
			case eng.True:
				return taken
			case eng.False:
				return !taken
			}
			// the nil-ness of err is not tested by this condition: both edges stay possible only
			// while err has not been tested at all
			return true
		},
	})
	// Without any nil test the search reaches the function's normal return: only count returns that
	// are reached while err is still known non-nil. To stay exact, require that the path began with
	// a nil test: handled by the Edge function pruning the nil edge of the first test.
	return where, hit && errTested(info, flow, start, errObj)
}

// errTested reports whether some condition after start tests err's nil-ness.
func errTested(info *types.Info, flow *eng.FlowGraph, start eng.Point, errObj types.Object) bool {
	tested := false
	flow.Forward(start, false, eng.Walk{
		Visit: func(pt eng.Point, n ast.Node) eng.Action {
			if e, ok := n.(ast.Expr); ok {
				ast.Inspect(e, func(m ast.Node) bool {
					if x, ok := m.(ast.Expr); ok {
						if is, _ := eng.ErrNilTest(info, x, errObj); is {
							tested = true
						}
					}
					return true
				})
			}
			return eng.Continue
		},
	})
	return tested
}

// ---------------------------------------------------------------------------------------------
// DELETED-REDIRECT

func ruleDeletedRedirect(c *eng.Ctx) {
	const rule = "DELETED-REDIRECT"
	n := 0
	deletedMarker := lookupObj(c.P, "internal/db/base", "DeletedObjectMarker")
	if deletedMarker == nil {
		c.Unknown(rule, "anchor:base.DeletedObjectMarker", token.NoPos, "anchor-unresolved")
		return
	}
	for _, fi := range c.P.FuncsIn("internal/core/crdt") {
		if fi.Decl.Body == nil {
			continue
		}
		info := fi.Pkg.TypesInfo
		// value-key variables: v := X.WithValueFlag()[.WithFieldID(..)]
		keyVars := map[types.Object]ast.Node{}
		ast.Inspect(fi.Decl.Body, func(m ast.Node) bool {
			as, ok := m.(*ast.AssignStmt)
			if !ok || len(as.Lhs) != 1 || len(as.Rhs) != 1 || as.Tok != token.DEFINE {
				return true
			}
			if eng.FindCall(as.Rhs[0], false, func(call *ast.CallExpr) bool {
				return eng.CalleeName(info, call) == "internal/keys.(DataStoreKey).WithValueFlag"
			}) != nil {
				if o := eng.ObjOf(info, as.Lhs[0]); o != nil {
					keyVars[o] = as
				}
			}
			return true
		})
		if len(keyVars) == 0 {
			continue
		}
		flow := eng.NewFlow(info, fi.Decl.Body)
		for kv := range keyVars {
			n++
			construct := shortFn(fi) + ":valuekey(" + kv.Name() + ")"
			// the redirect: if bytes.Equal(M, []byte{base.DeletedObjectMarker}) { kv = kv.WithDeletedFlag() }
			var redirectCond ast.Expr
			var markerObj types.Object
			ast.Inspect(fi.Decl.Body, func(m ast.Node) bool {
				is, ok := m.(*ast.IfStmt)
				if !ok {
					return true
				}
				call, ok := ast.Unparen(is.Cond).(*ast.CallExpr)
				if !ok || eng.CalleeName(info, call) != "bytes.Equal" || len(call.Args) != 2 {
					return true
				}
				usesMarker := false
				ast.Inspect(call, func(x ast.Node) bool {
					if se, ok := x.(*ast.SelectorExpr); ok && info.Uses[se.Sel] == deletedMarker {
						usesMarker = true
					}
					return true
				})
				if !usesMarker {
					return true
				}
				assigns := false
				for _, st := range is.Body.List {
					if as, ok := st.(*ast.AssignStmt); ok && len(as.Lhs) == 1 && eng.ObjOf(info, as.Lhs[0]) == kv && as.Tok == token.ASSIGN {
						if eng.FindCall(as.Rhs[0], false, func(cc *ast.CallExpr) bool {
							return eng.CalleeName(info, cc) == "internal/keys.(DataStoreKey).WithDeletedFlag" && mentionsObj(info, cc, kv)
						}) != nil {
							assigns = true
						}
					}
				}
				if assigns {
					redirectCond = is.Cond
					for _, a := range call.Args {
						if o := eng.ObjOf(info, a); o != nil {
							markerObj = o
						}
					}
				}
				return true
			})
			if redirectCond == nil {
				c.Bad(rule, construct, keyVars[kv].Pos(), "value key is never redirected to the deleted key space (no `if bytes.Equal(marker, DeletedObjectMarker) { key = key.WithDeletedFlag() }`): a merge after a concurrent delete resurrects the field on this replica only")
				continue
			}
			// marker originates from Get(primary key)
			markerOK := false
			ast.Inspect(fi.Decl.Body, func(m ast.Node) bool {
				if as, ok := m.(*ast.AssignStmt); ok && len(as.Rhs) == 1 && len(as.Lhs) >= 1 && eng.ObjOf(info, as.Lhs[0]) == markerObj {
					if call, ok := as.Rhs[0].(*ast.CallExpr); ok && eng.CalleeName(info, call) == "github.com/sourcenetwork/corekv.(Reader).Get" &&
						eng.FindCall(call, false, func(cc *ast.CallExpr) bool {
							return eng.CalleeName(info, cc) == "internal/keys.(DataStoreKey).ToPrimaryDataStoreKey"
						}) != nil {
						markerOK = true
					}
				}
				return true
			})
			if !markerOK {
				c.Bad(rule, construct, redirectCond.Pos(), "the marker compared with DeletedObjectMarker is not read from the primary key of the document")
				continue
			}
			// every store access with this key happens after the redirect decision
			bad := false
			for _, cs := range eng.Calls(info, fi.Decl.Body) {
				if !strings.HasPrefix(cs.Name, "github.com/sourcenetwork/corekv.") && cs.Name != "internal/core/crdt.validateAndIncrement" && cs.Name != "internal/core/crdt.getCurrentValue" {
					continue
				}
				uses := false
				for _, a := range cs.Call.Args {
					if mentionsObj(info, a, kv) {
						uses = true
					}
				}
				if !uses {
					continue
				}
				pt, ok := flow.PointOf(cs.Call)
				if !ok {
					continue
				}
				if flow.ReachesWithout(pt, func(nd ast.Node) bool { return nd == redirectCond }, nil) {
					c.Bad(rule, construct+"→"+cs.Name, cs.Call.Pos(), "value key used before the deleted-marker redirect was decided")
					bad = true
				}
			}
			if !bad {
				c.OK(rule, construct, redirectCond.Pos(), "marker probe + redirect dominate every value access")
			}
		}
	}
	c.Floor(rule, n, 3)
}

// ---------------------------------------------------------------------------------------------
// SORT-BEFORE-BUILD

var sortFuncs = map[string]bool{
	"sort.Slice": true, "sort.SliceStable": true, "sort.Sort": true, "sort.Stable": true,
	"slices.Sort": true, "slices.SortFunc": true, "slices.SortStableFunc": true, "sort.Strings": true,
}

func ruleSortBeforeBuild(c *eng.Ctx) {
	const rule = "SORT-BEFORE-BUILD"
	if fi := c.Anchor(rule, "internal/core/block.New"); fi != nil {
		info := fi.Pkg.TypesInfo
		flow := eng.NewFlow(info, fi.Decl.Body)
		for _, p := range paramObjs(info, fi.Decl) {
			if _, isSlice := p.Type().Underlying().(*types.Slice); !isSlice {
				continue
			}
			var sortCall *ast.CallExpr
			for _, cs := range eng.Calls(info, fi.Decl.Body) {
				if sortFuncs[cs.Name] && len(cs.Call.Args) > 0 && eng.ObjOf(info, cs.Call.Args[0]) == p && cs.Lit == nil {
					sortCall = cs.Call
				}
			}
			construct := "block.New:param(" + p.Name() + ")"
			if sortCall == nil {
				c.Bad(rule, construct, fi.Decl.Pos(), "slice parameter is never sorted: the block's bytes (hence its CID and every tie-break on it) depend on the caller's/store's iteration order")
				continue
			}
			// every read of the parameter outside len()/cap() and outside the sort call is dominated by the sort
			bad := token.NoPos
			var stack []ast.Node
			ast.Inspect(fi.Decl.Body, func(m ast.Node) bool {
				if m == nil {
					stack = stack[:len(stack)-1]
					return true
				}
				stack = append(stack, m)
				id, ok := m.(*ast.Ident)
				if !ok || info.Uses[id] != p {
					return true
				}
				if sortCall.Pos() <= id.Pos() && id.End() <= sortCall.End() {
					return true
				}
				if len(stack) >= 2 {
					if call, ok := stack[len(stack)-2].(*ast.CallExpr); ok {
						if f, ok := call.Fun.(*ast.Ident); ok && (f.Name == "len" || f.Name == "cap") {
							return true
						}
					}
				}
				pt, ok := flow.PointOf(id)
				if ok && flow.ReachesWithout(pt, func(nd ast.Node) bool {
					return nd.Pos() <= sortCall.Pos() && sortCall.End() <= nd.End()
				}, nil) {
					bad = id.Pos()
				}
				return true
			})
			c.Check(!bad.IsValid(), rule, construct, sortCall.Pos(), "sorted before every use", "parameter read at "+c.P.Rel(bad)+" on a path that has not passed the sort")
		}
	}
	if fi := c.Anchor(rule, "internal/core/block.(*heads).List"); fi != nil {
		info := fi.Pkg.TypesInfo
		flow := eng.NewFlow(info, fi.Decl.Body)
		n := 0
		ast.Inspect(fi.Decl.Body, func(m ast.Node) bool {
			r, ok := m.(*ast.ReturnStmt)
			if !ok || len(r.Results) == 0 {
				return true
			}
			o := eng.ObjOf(info, r.Results[0])
			if o == nil {
				return true // nil / literal
			}
			if _, isSlice := o.Type().Underlying().(*types.Slice); !isSlice {
				return true
			}
			n++
			pt, ok := flow.PointOf(r)
			unsorted := ok && flow.ReachesWithout(pt, func(nd ast.Node) bool {
				return eng.FindCall(nd, false, func(call *ast.CallExpr) bool {
					return sortFuncs[eng.CalleeName(info, call)] && len(call.Args) > 0 && eng.ObjOf(info, call.Args[0]) == o
				}) != nil
			}, nil)
			c.Check(!unsorted, rule, "heads.List:return("+o.Name()+")", r.Pos(), "sorted before returned", "head list returned in store iteration order on some path")
			return true
		})
		c.Floor(rule+"", c.CountRule(rule), 3)
		_ = n
	}
}

// ---------------------------------------------------------------------------------------------
// WALK-PARTITION

// edgeSetsRecursed returns which Block edge sets ("Heads", "Links", "AllLinks") are iterated by loops
// of fi whose body (or direct indexing expression) feeds a recursive call to fi.
// recursionGroup: fi plus the package functions it calls that call back into fi (a walk split into
// helpers is still one walk).
func recursionGroup(p *eng.Program, fi *eng.FuncInfo) []*eng.FuncInfo {
	group := []*eng.FuncInfo{fi}
	info := fi.Pkg.TypesInfo
	seen := map[*eng.FuncInfo]bool{fi: true}
	for _, cs := range eng.Calls(info, fi.Decl.Body) {
		g := p.FuncOfObj(cs.Callee)
		if g == nil || seen[g] || g.Pkg != fi.Pkg || g.Decl.Body == nil {
			continue
		}
		back := false
		for _, c2 := range eng.Calls(g.Pkg.TypesInfo, g.Decl.Body) {
			if c2.Callee == fi.Obj || c2.Callee == g.Obj {
				back = true
			}
		}
		if back {
			seen[g] = true
			group = append(group, g)
		}
	}
	return group
}

func edgeSetsRecursed(p *eng.Program, root *eng.FuncInfo) (map[string]token.Pos, map[string]token.Pos) {
	ranged := map[string]token.Pos{}  // via range loop: all elements
	indexed := map[string]token.Pos{} // via X[i]: one element only
	group := recursionGroup(p, root)
	inGroup := func(o *types.Func) bool {
		for _, g := range group {
			if g.Obj == o {
				return true
			}
		}
		return false
	}
	for _, fi := range group {
		edgeSetsOne(fi, inGroup, ranged, indexed)
	}
	return ranged, indexed
}

func edgeSetsOne(fi *eng.FuncInfo, inGroup func(*types.Func) bool, ranged, indexed map[string]token.Pos) {
	info := fi.Pkg.TypesInfo
	classify := func(e ast.Expr) string {
		e = ast.Unparen(e)
		// follow a local variable to its single assignment
		if id, ok := e.(*ast.Ident); ok {
			obj := info.ObjectOf(id)
			ast.Inspect(fi.Decl.Body, func(m ast.Node) bool {
				if as, ok := m.(*ast.AssignStmt); ok && len(as.Lhs) == 1 && len(as.Rhs) == 1 && eng.ObjOf(info, as.Lhs[0]) == obj {
					e = ast.Unparen(as.Rhs[0])
				}
				return true
			})
		}
		switch x := e.(type) {
		case *ast.SelectorExpr:
			if eng.TypeName(info.TypeOf(x.X)) == "internal/core/block.Block" && (x.Sel.Name == "Heads" || x.Sel.Name == "Links") {
				return x.Sel.Name
			}
		case *ast.CallExpr:
			if eng.CalleeName(info, x) == "internal/core/block.(*Block).AllLinks" {
				return "AllLinks"
			}
		}
		return ""
	}
	recursive := func(n ast.Node) bool {
		return eng.FindCall(n, true, func(call *ast.CallExpr) bool { return inGroup(eng.Callee(info, call)) }) != nil
	}
	ast.Inspect(fi.Decl.Body, func(m ast.Node) bool {
		switch s := m.(type) {
		case *ast.RangeStmt:
			if k := classify(s.X); k != "" && recursive(s.Body) {
				ranged[k] = s.Pos()
			}
		case *ast.CallExpr:
			if inGroup(eng.Callee(info, s)) {
				for _, a := range s.Args {
					ast.Inspect(a, func(x ast.Node) bool {
						if ix, ok := x.(*ast.IndexExpr); ok {
							if k := classify(ix.X); k != "" {
								indexed[k] = ix.Pos()
							}
						}
						return true
					})
				}
			}
		}
		return true
	})
}

// walkPartition checks enqueue ∈ {Heads} (all of them) and apply ∈ {Links}.
func walkPartition(c *eng.Ctx, rule string, enqueue, apply *eng.FuncInfo, tag string) {
	if enqueue != nil {
		r, ix := edgeSetsRecursed(c.P, enqueue)
		construct := tag + ":enqueue(" + shortFn(enqueue) + ")"
		_, heads := r["Heads"]
		_, all := r["AllLinks"]
		switch {
		case heads && !all:
			c.OK(rule, construct+":follows-all-heads", r["Heads"], "enqueue walk ranges over every parent (Heads)")
		case all:
			c.Bad(rule, construct+":follows-all-heads", r["AllLinks"], "enqueue walk ranges over AllLinks: field blocks would be queued as composites")
		default:
			pos := enqueue.Decl.Pos()
			d := "enqueue walk does not range over the block's Heads"
			if p, ok := ix["Heads"]; ok {
				pos = p
				d = "enqueue walk follows a single indexed parent (Heads[i]) instead of every parent: the other branches of a merged history are never queued"
			}
			c.Bad(rule, construct+":follows-all-heads", pos, d)
		}
	}
	if apply != nil {
		r, _ := edgeSetsRecursed(c.P, apply)
		construct := tag + ":apply(" + shortFn(apply) + ")"
		_, links := r["Links"]
		_, heads := r["Heads"]
		_, all := r["AllLinks"]
		switch {
		case links && !heads && !all:
			c.OK(rule, construct+":recurses-links-only", r["Links"], "apply recursion follows field links only; parents are applied from the queue exactly once")
		case heads || all:
			pos := r["AllLinks"]
			if !all {
				pos = r["Heads"]
			}
			c.Bad(rule, construct+":recurses-links-only", pos, "apply recursion also follows parent links (Heads/AllLinks) although parents are queued separately: every ancestor is re-applied (counters multiply)")
		default:
			c.Bad(rule, construct+":recurses-links-only", apply.Decl.Pos(), "apply recursion does not descend into the block's field links")
		}
	}
}

func ruleWalkPartitionMerge(c *eng.Ctx) {
	const rule = "WALK-PARTITION"
	enq := c.Anchor(rule, "internal/db.(*mergeProcessor).loadComposites")
	app := c.Anchor(rule, "internal/db.(*mergeProcessor).processBlock")
	walkPartition(c, rule, enq, app, "merge")
	// the stop test: loadComposites returns before loading when the cid is in the target's head set
	if enq != nil {
		info := enq.Pkg.TypesInfo
		flow := eng.NewFlow(info, enq.Decl.Body)
		var load *ast.CallExpr
		for _, cs := range eng.Calls(info, enq.Decl.Body) {
			if strings.HasSuffix(cs.Name, "linking.(*LinkSystem).Load") && load == nil {
				load = cs.Call
			}
		}
		if load == nil {
			c.Unknown(rule, "merge:stop-at-merged-head", enq.Decl.Pos(), "anchor-unresolved: block load")
		} else {
			pt, _ := flow.PointOf(load)
			unguarded := flow.ReachesWithout(pt, func(n ast.Node) bool {
				// `_, ok := mt.heads[cid]` membership test
				found := false
				ast.Inspect(n, func(m ast.Node) bool {
					if ix, ok := m.(*ast.IndexExpr); ok {
						if se, ok := ast.Unparen(ix.X).(*ast.SelectorExpr); ok && se.Sel.Name == "heads" {
							found = true
						}
					}
					return true
				})
				return found
			}, nil)
			c.Check(!unguarded, rule, "merge:stop-at-merged-head", load.Pos(), "head-membership test precedes the first block load", "block is loaded (and will be queued) without testing whether it is already a merged head")
		}
	}
}

// ---------------------------------------------------------------------------------------------
// MERGE-SERIAL

func ruleMergeSerial(c *eng.Ctx) {
	const rule = "MERGE-SERIAL"
	fi := c.Anchor(rule, "internal/db.(*DB).handleMessages")
	if fi == nil {
		return
	}
	info := fi.Pkg.TypesInfo
	n := 0
	ast.Inspect(fi.Decl.Body, func(m ast.Node) bool {
		lit, ok := m.(*ast.FuncLit)
		if !ok {
			return true
		}
		var merges []*ast.CallExpr
		for _, cs := range eng.Calls(info, lit.Body) {
			if cs.Name == "internal/db.(*DB).executeMerge" && cs.Lit == nil {
				merges = append(merges, cs.Call)
			}
		}
		if len(merges) == 0 {
			return true
		}
		flow := eng.NewFlow(info, lit.Body)
		isAdd := func(nd ast.Node) *ast.CallExpr {
			return eng.FindCall(nd, false, func(call *ast.CallExpr) bool {
				return eng.CalleeName(info, call) == "internal/db.(*mergeQueue).add"
			})
		}
		for i, mc := range merges {
			n++
			pt, _ := flow.PointOf(mc)
			unser := flow.ReachesWithout(pt, func(nd ast.Node) bool { return isAdd(nd) != nil }, nil)
			c.Check(!unser, rule, fmt.Sprintf("handleMessages:executeMerge#%d:after-add", i+1), mc.Pos(),
				"every path to executeMerge passes mergeQueue.add", "executeMerge reachable without entering the per-document merge queue: concurrent merges of one document race")
		}
		// every add is followed, before any executeMerge, by a deferred done with the same queue and key
		for _, cs := range eng.Calls(info, lit.Body) {
			if cs.Name != "internal/db.(*mergeQueue).add" || cs.Lit != nil {
				continue
			}
			n++
			recv := eng.ExprStr(cs.Call.Fun.(*ast.SelectorExpr).X)
			key := eng.ExprStr(cs.Call.Args[0])
			construct := fmt.Sprintf("handleMessages:add(%s,%s):deferred-done", recv, key)
			isDeferredDone := func(nd ast.Node) bool {
				d, ok := nd.(*ast.DeferStmt)
				if !ok {
					return false
				}
				if eng.CalleeName(info, d.Call) != "internal/db.(*mergeQueue).done" {
					return false
				}
				return eng.ExprStr(d.Call.Fun.(*ast.SelectorExpr).X) == recv && eng.ExprStr(d.Call.Args[0]) == key
			}
			pt, _ := flow.PointOf(cs.Call)
			// (a) no executeMerge between add and the deferred done; (b) no exit without it
			bad := ""
			for _, mc := range merges {
				mpt, _ := flow.PointOf(mc)
				if flow.Forward(pt, false, eng.Walk{Visit: func(p eng.Point, nd ast.Node) eng.Action {
					if isDeferredDone(nd) {
						return eng.Cut
					}
					if p == mpt {
						return eng.Hit
					}
					return eng.Continue
				}}) {
					bad = "executeMerge is reached after add without a deferred done(" + key + ") on the same queue: a panic or early return leaves the key queued and every later merge of that document blocks forever (or done runs before the merge)"
				}
			}
			if exit, where := flow.ExitsWithout(pt, false, isDeferredDone, nil); exit && bad == "" {
				bad = "exit at " + c.P.Rel(where) + " after add without done"
			}
			c.Check(bad == "", rule, construct, cs.Call.Pos(), "defer done with the same queue and key follows add", bad)
		}
		// retry exactly on ErrTxnConflict
		for i, mc := range merges {
			n++
			construct := fmt.Sprintf("handleMessages:executeMerge#%d:retry-on-conflict", i+1)
			loop := loopOf(lit.Body, mc)
			okRetry := false
			if loop != nil {
				ast.Inspect(loop, func(x ast.Node) bool {
					is, ok := x.(*ast.IfStmt)
					if !ok {
						return true
					}
					call, ok := ast.Unparen(is.Cond).(*ast.CallExpr)
					if !ok || !strings.HasSuffix(eng.CalleeName(info, call), "errors.Is") || len(call.Args) != 2 {
						return true
					}
					if o := selObj(info, call.Args[1]); o != nil && o.Name() == "ErrTxnConflict" {
						// true branch continues the loop
						for _, st := range is.Body.List {
							if b, ok := st.(*ast.BranchStmt); ok && b.Tok == token.CONTINUE {
								okRetry = true
							}
						}
					}
					return true
				})
			}
			c.Check(okRetry, rule, construct, mc.Pos(), "merge retried while the error is corekv.ErrTxnConflict", "executeMerge is not retried on corekv.ErrTxnConflict: a local write racing the merge drops the remote commit")
		}
		return true
	})
	c.Floor(rule, n, 3)
}

// ---------------------------------------------------------------------------------------------
// UNKNOWN-FIELD-SKIP

func ruleUnknownFieldSkip(c *eng.Ctx) {
	const rule = "UNKNOWN-FIELD-SKIP"
	fi := c.Anchor(rule, "internal/db.(*mergeProcessor).initCRDTForType")
	if fi == nil {
		return
	}
	info := fi.Pkg.TypesInfo
	var def *ast.AssignStmt
	var okObj types.Object
	ast.Inspect(fi.Decl.Body, func(m ast.Node) bool {
		as, ok := m.(*ast.AssignStmt)
		if !ok || len(as.Lhs) != 2 || len(as.Rhs) != 1 {
			return true
		}
		if call, ok := as.Rhs[0].(*ast.CallExpr); ok && strings.HasSuffix(eng.CalleeName(info, call), ".GetFieldByName") {
			def, okObj = as, eng.ObjOf(info, as.Lhs[1])
		}
		return true
	})
	if def == nil || okObj == nil {
		c.Unknown(rule, "initCRDTForType:field-lookup", fi.Decl.Pos(), "anchor-unresolved: `fd, ok := ...GetFieldByName(field)`")
		return
	}
	flow := eng.NewFlow(info, fi.Decl.Body)
	start, _ := flow.PointOf(def)
	outs, _ := flow.Paths(eng.PathSpec{Start: &start, Cond: func(br eng.Branch) eng.Tri {
		return eng.BranchTri(info, br, func(e ast.Expr) eng.Tri {
			if eng.ObjOf(info, e) == okObj {
				return eng.False
			}
			return eng.Unknown
		})
	}})
	good := len(outs) > 0
	var got []string
	for _, o := range outs {
		s := o.Sig(info)
		got = append(got, s)
		if s != "→return(nil,nil)" {
			good = false
		}
	}
	c.Check(good, rule, "initCRDTForType:unknown-field", def.Pos(), "unknown field ⇒ (nil CRDT, nil error)",
		fmt.Sprintf("a field absent from the local schema version yields %v instead of (nil, nil): a peer on a newer schema version becomes unmergeable", got))

	// processBlock: nil CRDT ⇒ skip without error and without ProcessBlock
	pb := c.Anchor(rule, "internal/db.(*mergeProcessor).processBlock")
	if pb == nil {
		return
	}
	pinfo := pb.Pkg.TypesInfo
	var cdef *ast.AssignStmt
	var crdtObj types.Object
	ast.Inspect(pb.Decl.Body, func(m ast.Node) bool {
		as, ok := m.(*ast.AssignStmt)
		if ok && len(as.Lhs) == 2 && len(as.Rhs) == 1 {
			if call, ok := as.Rhs[0].(*ast.CallExpr); ok && eng.Callee(pinfo, call) == fi.Obj {
				cdef, crdtObj = as, eng.ObjOf(pinfo, as.Lhs[0])
			}
		}
		return true
	})
	if cdef == nil {
		c.Unknown(rule, "processBlock:crdt-slot", pb.Decl.Pos(), "anchor-unresolved: call of initCRDTForType")
		return
	}
	pflow := eng.NewFlow(pinfo, pb.Decl.Body)
	pstart, _ := pflow.PointOf(cdef)
	pouts, _ := pflow.Paths(eng.PathSpec{Start: &pstart,
		Cond: func(br eng.Branch) eng.Tri {
			return eng.BranchTri(pinfo, br, func(e ast.Expr) eng.Tri {
				if is, nonNil := eng.ErrNilTest(pinfo, e, crdtObj); is {
					return eng.TriOf(!nonNil) // crdt is nil
				}
				if be, ok := ast.Unparen(e).(*ast.BinaryExpr); ok {
					if t := pinfo.TypeOf(be.X); t != nil && eng.IsErrorType(t) {
						if yv, ok := pinfo.Types[be.Y]; ok && yv.IsNil() {
							return eng.TriOf(be.Op == token.EQL)
						}
					}
				}
				return eng.Unknown
			})
		},
		Effect: func(n ast.Node) string {
			if eng.ContainsCallTo(pinfo, n, false, "internal/core/block.ProcessBlock") != nil {
				return "ProcessBlock"
			}
			return ""
		},
	})
	good = len(pouts) > 0
	got = nil
	for _, o := range pouts {
		for _, e := range o.Effects {
			if e == "ProcessBlock" {
				good = false
				got = append(got, "ProcessBlock(nil crdt)")
			}
		}
		if o.Kind == "return" && o.Ret != nil && len(o.Ret.Results) == 1 {
			if v := eng.RetVal(pinfo, o.Ret.Results[0]); v != "nil" && !strings.HasPrefix(v, "err") && v != "expr" {
				// returning a constructed error on the nil-CRDT path
				if strings.HasPrefix(v, "call:") {
					good = false
					got = append(got, v)
				}
			}
		}
	}
	c.Check(good, rule, "processBlock:nil-crdt-skips", cdef.Pos(), "nil CRDT ⇒ block skipped, no error", fmt.Sprintf("nil CRDT path does %v", got))
}
