package rules

import (
	"fmt"
	"go/ast"
	"go/token"
	"go/types"

	"defracheck/internal/eng"
)

// ruleMinMaxTable decides, for every selection site `if … X.Cmp(Y) op k …` of the _max/_min
// aggregate nodes (per-item reducers and the merge across aggregate sources), which operand is kept
// for each outcome of the comparison: _max keeps the greater, _min the lesser operand.
func ruleMinMaxTable(c *eng.Ctx) {
	const rule = "MINMAX-TABLE"
	for _, spec := range []struct {
		fn      string
		keepPos bool // X.Cmp(Y) > 0 keeps X
		label   string
	}{
		{"internal/planner.(*maxNode).Next", true, "max"},
		{"internal/planner.(*minNode).Next", false, "min"},
	} {
		fi := c.Anchor(rule, spec.fn)
		if fi == nil {
			continue
		}
		info := fi.Pkg.TypesInfo
		n := 0
		// every body: the method's and each nested literal's
		bodies := []*ast.BlockStmt{fi.Decl.Body}
		ast.Inspect(fi.Decl.Body, func(m ast.Node) bool {
			if l, ok := m.(*ast.FuncLit); ok {
				bodies = append(bodies, l.Body)
			}
			return true
		})
		for _, body := range bodies {
			flow := eng.NewFlow(info, body)
			inspectNoLits(body, func(m ast.Node) {
				is, ok := m.(*ast.IfStmt)
				if !ok {
					return
				}
				// the Cmp call inside the condition (not inside nested literals)
				var cmp *ast.CallExpr
				ast.Inspect(is.Cond, func(x ast.Node) bool {
					if call, ok := x.(*ast.CallExpr); ok {
						if se, ok := call.Fun.(*ast.SelectorExpr); ok && se.Sel.Name == "Cmp" && len(call.Args) == 1 &&
							eng.CalleeName(info, call) == "math/big.(*Float).Cmp" {
							cmp = call
						}
					}
					return true
				})
				if cmp == nil {
					return
				}
				X := eng.ObjOf(info, cmp.Fun.(*ast.SelectorExpr).X)
				Y := eng.ObjOf(info, cmp.Args[0])
				n++
				site := fmt.Sprintf("%s:select#%d(%s)", spec.label, n, eng.ExprStr(cmp))
				if X == nil || Y == nil {
					c.Unknown(rule, site, cmp.Pos(), "comparison operands are not plain variables")
					return
				}
				start, ok := flow.PointOf(is.Cond)
				if !ok {
					c.Unknown(rule, site, cmp.Pos(), "selection site not found in the flow graph")
					return
				}
				// does the body assign Y = X somewhere (accumulator shape)?
				accum, accumRev := false, false
				inspectNoLits(body, func(x ast.Node) {
					if as, ok := x.(*ast.AssignStmt); ok && len(as.Lhs) == 1 && len(as.Rhs) == 1 && as.Tok == token.ASSIGN &&
						eng.ObjOf(info, as.Lhs[0]) == Y && eng.ObjOf(info, as.Rhs[0]) == X {
						accum = true
					}
					if as, ok := x.(*ast.AssignStmt); ok && len(as.Lhs) == 1 && len(as.Rhs) == 1 && as.Tok == token.ASSIGN &&
						eng.ObjOf(info, as.Lhs[0]) == X && eng.ObjOf(info, as.Rhs[0]) == Y {
						accumRev = true
					}
				})
				for _, sign := range []int{-1, 1} {
					atom := func(e ast.Expr) eng.Tri {
						be, ok := ast.Unparen(e).(*ast.BinaryExpr)
						if !ok {
							return eng.Unknown
						}
						// nil tests of the operands: both present in this cell
						for _, o := range []types.Object{X, Y} {
							if is, nonNilWhenTrue := eng.ErrNilTest(info, be, o); is {
								return eng.TriOf(nonNilWhenTrue)
							}
						}
						if call, ok := ast.Unparen(be.X).(*ast.CallExpr); ok && call == cmp {
							if k, ok := eng.IntConst(info, be.Y); ok {
								if r, ok := eng.CmpHolds(be.Op, cmpInt(int64(sign), k)); ok {
									return eng.TriOf(r)
								}
							}
						}
						if call, ok := ast.Unparen(be.Y).(*ast.CallExpr); ok && call == cmp {
							if k, ok := eng.IntConst(info, be.X); ok {
								if r, ok := eng.CmpHolds(eng.FlipOp(be.Op), cmpInt(int64(sign), k)); ok {
									return eng.TriOf(r)
								}
							}
						}
						return eng.Unknown
					}
					kept := map[string]bool{}
					flow.Forward(start, true, eng.Walk{
						Visit: func(pt eng.Point, nd ast.Node) eng.Action {
							switch s := nd.(type) {
							case *ast.ReturnStmt:
								if len(s.Results) == 1 {
									switch eng.ObjOf(info, s.Results[0]) {
									case X:
										kept["X"] = true
									case Y:
										kept["Y"] = true
									default:
										kept["other:"+eng.ExprStr(s.Results[0])] = true
									}
								}
								return eng.Cut
							case *ast.AssignStmt:
								if len(s.Lhs) == 1 && len(s.Rhs) == 1 {
									l, r := eng.ObjOf(info, s.Lhs[0]), eng.ObjOf(info, s.Rhs[0])
									if l == Y && r == X {
										kept["X"] = true
										return eng.Cut
									}
									if l == X && r == Y {
										kept["Y"] = true
										return eng.Cut
									}
								}
							}
							return eng.Continue
						},
						Edge: func(cond ast.Expr, taken bool) bool {
							if cond != is.Cond {
								return true
							}
							switch eng.EvalBool(info, cond, atom) {
							case eng.True:
								return taken
							case eng.False:
								return !taken
							}
							return true
						},
					})
					if accum && len(kept) == 0 {
						kept["Y"] = true // accumulator left as it is
					} else if accumRev && len(kept) == 0 {
						kept["X"] = true
					}
					want := "Y"
					if (sign > 0) == spec.keepPos {
						want = "X"
					}
					keys := setKeys(kept)
					names := map[string]string{"X": eng.ExprStr(cmp.Fun.(*ast.SelectorExpr).X), "Y": eng.ExprStr(cmp.Args[0])}
					good := len(keys) == 1 && keys[0] == want
					c.Check(good, rule, fmt.Sprintf("%s:cell(sign=%+d)", site, sign), cmp.Pos(),
						fmt.Sprintf("keeps %s", names[want]),
						fmt.Sprintf("when %s.Cmp(%s) = %+d the _%s aggregate keeps %v (X=%s, Y=%s), it must keep %s: the aggregate returns a value that is not the %simum of its inputs",
							names["X"], names["Y"], sign, spec.label, keys, names["X"], names["Y"], names[want], spec.label))
				}
			})
		}
		c.Floor(rule+":"+spec.label, n, 6)
	}
}
