package rules

import (
	"fmt"
	"go/ast"
	"go/token"
	"go/types"
	"strings"

	"defracheck/internal/eng"
)

// ruleMinMaxTable decides, for every selection site `if … X.Cmp(Y) op k …` of the _max/_min
// aggregate nodes (per-item reducers and the merge across aggregate sources), which operand is kept
// for each outcome of the comparison: _max keeps the greater, _min the lesser operand.
func ruleMinMaxTable(c *eng.Ctx) {
	const rule = "MINMAX-TABLE"
	for _, spec := range []struct {
		fn      string
		keepPos bool // X.Cmp(Y) > 0 keeps X
		label   string
	}{
		{"internal/planner.(*maxNode).Next", true, "max"},
		{"internal/planner.(*minNode).Next", false, "min"},
	} {
		fi := c.Anchor(rule, spec.fn)
		if fi == nil {
			continue
		}
		info := fi.Pkg.TypesInfo
		n := 0
		// every body: the method's and each nested literal's
		bodies := []*ast.BlockStmt{fi.Decl.Body}
		ast.Inspect(fi.Decl.Body, func(m ast.Node) bool {
			if l, ok := m.(*ast.FuncLit); ok {
				bodies = append(bodies, l.Body)
			}
			return true
		})
		for _, body := range bodies {
			flow := eng.NewFlow(info, body)
			inspectNoLits(body, func(m ast.Node) {
				is, ok := m.(*ast.IfStmt)
				if !ok {
					return
				}
				// the Cmp call inside the condition (not inside nested literals)
				var cmp *ast.CallExpr
				ast.Inspect(is.Cond, func(x ast.Node) bool {
					if call, ok := x.(*ast.CallExpr); ok {
						if se, ok := call.Fun.(*ast.SelectorExpr); ok && se.Sel.Name == "Cmp" && len(call.Args) == 1 &&
							eng.CalleeName(info, call) == "math/big.(*Float).Cmp" {
							cmp = call
						}
					}
					return true
				})
				if cmp == nil {
					return
				}
				X := eng.ObjOf(info, cmp.Fun.(*ast.SelectorExpr).X)
				Y := eng.ObjOf(info, cmp.Args[0])
				n++
				site := fmt.Sprintf("%s:select#%d(%s)", spec.label, n, eng.ExprStr(cmp))
				if X == nil || Y == nil {
					c.Unknown(rule, site, cmp.Pos(), "comparison operands are not plain variables")
					return
				}
				start, ok := flow.PointOf(is.Cond)
				if !ok {
					c.Unknown(rule, site, cmp.Pos(), "selection site not found in the flow graph")
					return
				}
				// does the body assign Y = X somewhere (accumulator shape)?
				accum, accumRev := false, false
				inspectNoLits(body, func(x ast.Node) {
					if as, ok := x.(*ast.AssignStmt); ok && len(as.Lhs) == 1 && len(as.Rhs) == 1 && as.Tok == token.ASSIGN &&
						eng.ObjOf(info, as.Lhs[0]) == Y && eng.ObjOf(info, as.Rhs[0]) == X {
						accum = true
					}
					if as, ok := x.(*ast.AssignStmt); ok && len(as.Lhs) == 1 && len(as.Rhs) == 1 && as.Tok == token.ASSIGN &&
						eng.ObjOf(info, as.Lhs[0]) == X && eng.ObjOf(info, as.Rhs[0]) == Y {
						accumRev = true
					}
				})
				for _, sign := range []int{-1, 1} {
					atom := func(e ast.Expr) eng.Tri {
						be, ok := ast.Unparen(e).(*ast.BinaryExpr)
						if !ok {
							return eng.Unknown
						}
						// nil tests of the operands: both present in this cell
						for _, o := range []types.Object{X, Y} {
							if is, nonNilWhenTrue := eng.ErrNilTest(info, be, o); is {
								return eng.TriOf(nonNilWhenTrue)
							}
						}
						if call, ok := ast.Unparen(be.X).(*ast.CallExpr); ok && call == cmp {
							if k, ok := eng.IntConst(info, be.Y); ok {
								if r, ok := eng.CmpHolds(be.Op, cmpInt(int64(sign), k)); ok {
									return eng.TriOf(r)
								}
							}
						}
						if call, ok := ast.Unparen(be.Y).(*ast.CallExpr); ok && call == cmp {
							if k, ok := eng.IntConst(info, be.X); ok {
								if r, ok := eng.CmpHolds(eng.FlipOp(be.Op), cmpInt(int64(sign), k)); ok {
									return eng.TriOf(r)
								}
							}
						}
						return eng.Unknown
					}
					kept := map[string]bool{}
					flow.Forward(start, true, eng.Walk{
						Visit: func(pt eng.Point, nd ast.Node) eng.Action {
							switch s := nd.(type) {
							case *ast.ReturnStmt:
								if len(s.Results) == 1 {
									switch eng.ObjOf(info, s.Results[0]) {
									case X:
										kept["X"] = true
									case Y:
										kept["Y"] = true
									default:
										kept["other:"+eng.ExprStr(s.Results[0])] = true
									}
								}
								return eng.Cut
							case *ast.AssignStmt:
								if len(s.Lhs) == 1 && len(s.Rhs) == 1 {
									l, r := eng.ObjOf(info, s.Lhs[0]), eng.ObjOf(info, s.Rhs[0])
									if l == Y && r == X {
										kept["X"] = true
										return eng.Cut
									}
									if l == X && r == Y {
										kept["Y"] = true
										return eng.Cut
									}
								}
							}
							return eng.Continue
						},
						Edge: func(cond ast.Expr, taken bool) bool {
							if cond != is.Cond {
								return true
							}
							switch eng.EvalBool(info, cond, atom) {
							case eng.True:
								return taken
							case eng.False:
								return !taken
							}
							return true
						},
					})
					if accum && len(kept) == 0 {
						kept["Y"] = true // accumulator left as it is
					} else if accumRev && len(kept) == 0 {
						kept["X"] = true
					}
					want := "Y"
					if (sign > 0) == spec.keepPos {
						want = "X"
					}
					keys := setKeys(kept)
					names := map[string]string{"X": eng.ExprStr(cmp.Fun.(*ast.SelectorExpr).X), "Y": eng.ExprStr(cmp.Args[0])}
					good := len(keys) == 1 && keys[0] == want
					c.Check(good, rule, fmt.Sprintf("%s:cell(sign=%+d)", site, sign), cmp.Pos(),
						fmt.Sprintf("keeps %s", names[want]),
						fmt.Sprintf("when %s.Cmp(%s) = %+d the _%s aggregate keeps %v (X=%s, Y=%s), it must keep %s: the aggregate returns a value that is not the %simum of its inputs",
							names["X"], names["Y"], sign, spec.label, keys, names["X"], names["Y"], names[want], spec.label))
				}
			})
		}
		c.Floor(rule+":"+spec.label, n, 6)
	}
}

// ruleAggPipeline: inline-array aggregates build an enumerable pipeline; documented semantics are
// filter, then order, then offset, then limit. On no path may an earlier stage be applied after a
// later one (a limit window cut before the filter counts/sums other items than "the first N
// matching ones").
func ruleAggPipeline(c *eng.Ctx) {
	const rule = "AGG-PIPELINE"
	rank := map[string]int{"Where": 1, "Sort": 2, "Skip": 3, "Take": 4}
	names := []string{"", "filter (Where)", "order (Sort)", "offset (Skip)", "limit (Take)"}
	n := 0
	for _, fi := range c.P.FuncsIn("internal/planner") {
		if fi.Decl.Body == nil || isTestFile(c.P, fi) {
			continue
		}
		info := fi.Pkg.TypesInfo
		stageOf := func(nd ast.Node) (int, token.Pos) {
			r, pos := 0, token.NoPos
			ast.Inspect(nd, func(x ast.Node) bool {
				if _, isLit := x.(*ast.FuncLit); isLit {
					return false
				}
				if call, ok := x.(*ast.CallExpr); ok {
					nm := eng.CalleeName(info, call)
					if i := strings.LastIndex(nm, "enumerable."); i >= 0 {
						if k, ok := rank[nm[i+len("enumerable."):]]; ok && (r == 0 || k < r) {
							r, pos = k, call.Pos()
						}
					}
				}
				return true
			})
			return r, pos
		}
		var flow *eng.FlowGraph
		sites := 0
		inspectNoLits(fi.Decl.Body, func(m ast.Node) {
			as, ok := m.(*ast.AssignStmt)
			if !ok {
				return
			}
			r, _ := stageOf(as)
			if r == 0 {
				return
			}
			sites++
			if flow == nil {
				flow = eng.NewFlow(info, fi.Decl.Body)
			}
			start, ok := flow.PointOf(as)
			if !ok {
				return
			}
			var badPos token.Pos
			badRank := 0
			hit := forwardConsistent(info, flow, fi.Decl.Body, start, func(pt eng.Point, nd ast.Node) eng.Action {
				if _, isAs := nd.(*ast.AssignStmt); !isAs {
					return eng.Continue
				}
				if r2, p2 := stageOf(nd); r2 != 0 && r2 < r {
					badPos, badRank = p2, r2
					return eng.Hit
				}
				return eng.Continue
			})
			construct := fmt.Sprintf("%s:stage(%s)#%d:not-followed-by-earlier-stage", shortFn(fi), names[r], sites)
			if hit {
				c.Bad(rule, construct, badPos, fmt.Sprintf("on some path %s is applied after %s: the aggregate is computed over a window cut before the filter/order — not over the first N matching items", names[badRank], names[r]))
			} else {
				c.OK(rule, construct, as.Pos(), "stages follow filter → order → offset → limit on every path")
			}
		})
		n += sites
	}
	c.Floor(rule, n, 6)
}

// forwardConsistent is Forward restricted to paths on which every stable condition atom (a leaf of
// the branch conditions that mentions no variable assigned more than once in the body) has one
// truth value: the walk is repeated for every valuation of those atoms (at most 2^10; beyond that
// it degrades to the path-insensitive walk, which over-approximates).
func forwardConsistent(info *types.Info, flow *eng.FlowGraph, body *ast.BlockStmt, start eng.Point, visit func(eng.Point, ast.Node) eng.Action) bool {
	assigned := map[types.Object]int{}
	ast.Inspect(body, func(n ast.Node) bool {
		switch s := n.(type) {
		case *ast.AssignStmt:
			for _, l := range s.Lhs {
				if o := eng.ObjOf(info, l); o != nil {
					assigned[o]++
				}
			}
		case *ast.IncDecStmt:
			if o := eng.ObjOf(info, s.X); o != nil {
				assigned[o] += 2
			}
		case *ast.RangeStmt:
			for _, e := range []ast.Expr{s.Key, s.Value} {
				if e != nil {
					if o := eng.ObjOf(info, e); o != nil {
						assigned[o] += 2
					}
				}
			}
		}
		return true
	})
	var atoms []string
	seen := map[string]bool{}
	var leaves func(e ast.Expr)
	leaves = func(e ast.Expr) {
		e = ast.Unparen(e)
		switch x := e.(type) {
		case *ast.BinaryExpr:
			if x.Op == token.LAND || x.Op == token.LOR {
				leaves(x.X)
				leaves(x.Y)
				return
			}
		case *ast.UnaryExpr:
			if x.Op == token.NOT {
				leaves(x.X)
				return
			}
		}
		stable := true
		ast.Inspect(e, func(n ast.Node) bool {
			if id, ok := n.(*ast.Ident); ok {
				if v, isVar := info.Uses[id].(*types.Var); isVar && assigned[v] > 1 {
					stable = false
				}
			}
			if _, ok := n.(*ast.CallExpr); ok {
				if c, ok := n.(*ast.CallExpr); ok {
					if f, ok := c.Fun.(*ast.Ident); !ok || f.Name != "len" {
						stable = false
					}
				}
			}
			return true
		})
		if k := eng.ExprStr(e); stable && !seen[k] {
			seen[k] = true
			atoms = append(atoms, k)
		}
	}
	for _, b := range flow.G.Blocks {
		if c := eng.CondOf(b); c != nil {
			leaves(c)
		}
	}
	if len(atoms) > 10 {
		return flow.Forward(start, false, eng.Walk{Visit: visit})
	}
	for mask := 0; mask < 1<<len(atoms); mask++ {
		val := map[string]bool{}
		for i, a := range atoms {
			val[a] = mask&(1<<i) != 0
		}
		edge := func(cond ast.Expr, taken bool) bool {
			t := eng.EvalBool(info, cond, func(e ast.Expr) eng.Tri {
				if v, ok := val[eng.ExprStr(ast.Unparen(e))]; ok {
					return eng.TriOf(v)
				}
				return eng.Unknown
			})
			switch t {
			case eng.True:
				return taken
			case eng.False:
				return !taken
			}
			return true
		}
		// the valuation must admit reaching the start point at all
		if !flow.Reaches(flow.Entry(), start, edge) && flow.Entry() != start {
			continue
		}
		if flow.Forward(start, false, eng.Walk{Visit: visit, Edge: edge}) {
			return true
		}
	}
	return false
}

// ruleAggSiblingCases: _max and _min are sibling implementations over the same inputs; the
// sequences of type-switch case lists (which value representations are understood) must agree.
func ruleAggSiblingCases(c *eng.Ctx) {
	const rule = "AGG-SIBLING-CASES"
	mx := c.Anchor(rule, "internal/planner.(*maxNode).Next")
	mn := c.Anchor(rule, "internal/planner.(*minNode).Next")
	if mx == nil || mn == nil {
		return
	}
	type sw struct {
		pos   token.Pos
		cases []string
	}
	collect := func(fi *eng.FuncInfo) []sw {
		var out []sw
		ast.Inspect(fi.Decl.Body, func(m ast.Node) bool {
			ts, ok := m.(*ast.TypeSwitchStmt)
			if !ok {
				return true
			}
			s := sw{pos: ts.Pos()}
			for _, cl := range ts.Body.List {
				cc := cl.(*ast.CaseClause)
				if cc.List == nil {
					continue
				}
				for _, e := range cc.List {
					s.cases = append(s.cases, eng.ExprStr(e))
				}
			}
			out = append(out, s)
			return true
		})
		return out
	}
	a, b := collect(mx), collect(mn)
	c.Check(len(a) == len(b), rule, "max/min:type-switch-count", mx.Decl.Pos(), "same number of type switches", fmt.Sprintf("_max has %d type switches, _min %d", len(a), len(b)))
	for i := 0; i < len(a) && i < len(b); i++ {
		inA := map[string]bool{}
		for _, k := range a[i].cases {
			inA[k] = true
		}
		inB := map[string]bool{}
		for _, k := range b[i].cases {
			inB[k] = true
		}
		var onlyA, onlyB []string
		for k := range inA {
			if !inB[k] {
				onlyA = append(onlyA, k)
			}
		}
		for k := range inB {
			if !inA[k] {
				onlyB = append(onlyB, k)
			}
		}
		pos := a[i].pos
		if len(onlyB) > 0 {
			pos = a[i].pos
		} else if len(onlyA) > 0 {
			pos = b[i].pos
		}
		c.Check(len(onlyA) == 0 && len(onlyB) == 0, rule, fmt.Sprintf("max/min:type-switch#%d:same-cases", i+1), pos, "both handle "+strings.Join(a[i].cases, ","),
			fmt.Sprintf("value representations handled by only one of the sibling aggregates — _max only: %v, _min only: %v: the other one answers null (and forgets what it had accumulated) for such a field", onlyA, onlyB))
	}
	c.Floor(rule, len(a), 2)
}

// ruleAggFilterGate: every aggregate node that carries an alias filter (aggregateFilter) yields a
// row only after that filter has been evaluated on it: every `return true, …` of its Next is
// preceded, on every path from the source's Next(), by mapper.RunFilter(…, n.aggregateFilter).
func ruleAggFilterGate(c *eng.Ctx) {
	const rule = "AGG-FILTER-GATE"
	n := 0
	for _, fi := range c.P.FuncsIn("internal/planner") {
		if fi.Decl.Body == nil || fi.Decl.Name.Name != "Next" || fi.Decl.Recv == nil || isTestFile(c.P, fi) {
			continue
		}
		info := fi.Pkg.TypesInfo
		// receiver type has a field aggregateFilter
		recv := info.Defs[fi.Decl.Recv.List[0].Names[0]]
		if recv == nil {
			continue
		}
		pt, ok := recv.Type().(*types.Pointer)
		if !ok {
			continue
		}
		st, ok := pt.Elem().Underlying().(*types.Struct)
		if !ok {
			continue
		}
		has := false
		for i := 0; i < st.NumFields(); i++ {
			if st.Field(i).Name() == "aggregateFilter" {
				has = true
			}
		}
		if !has {
			continue
		}
		flow := eng.NewFlow(info, fi.Decl.Body)
		isGate := func(nd ast.Node) bool {
			found := false
			ast.Inspect(nd, func(x ast.Node) bool {
				if call, ok := x.(*ast.CallExpr); ok && strings.HasSuffix(eng.CalleeName(info, call), "mapper.RunFilter") && len(call.Args) == 2 && isFieldNamed(info, call.Args[1], "aggregateFilter") {
					found = true
				}
				return true
			})
			return found
		}
		ord := 0
		ast.Inspect(fi.Decl.Body, func(m ast.Node) bool {
			if _, ok := m.(*ast.FuncLit); ok {
				return false
			}
			r, ok := m.(*ast.ReturnStmt)
			if !ok || len(r.Results) != 2 {
				return true
			}
			if tv, ok := info.Types[r.Results[0]]; !ok || tv.Value == nil || tv.Value.ExactString() != "true" {
				return true
			}
			ord++
			n++
			p, ok := flow.PointOf(r)
			if !ok {
				return true
			}
			un := flow.ReachesWithout(p, isGate, nil)
			c.Check(!un, rule, fmt.Sprintf("%s:yield#%d:after-alias-filter", shortFn(fi), ord), r.Pos(), "a row is yielded only after the alias filter accepted it",
				"the aggregate node yields a row on a path that never evaluates its alias filter: filter: {_alias: {x: …}} lets rows through on that path (e.g. groups without values)")
			return true
		})
	}
	c.Floor(rule, n, 5)
}

// ruleFilterKeyNotAField: where the mapper turns a key of a request filter into a selection (a
// join on a relation named by the key), the key has been told apart from the map-valued operator
// _not — its value has the same map-of-maps shape as a relation filter.
func ruleFilterKeyNotAField(c *eng.Ctx) {
	const rule = "FILTER-KEY-NOT-A-FIELD"
	n := 0
	for _, fi := range c.P.FuncsIn("internal/planner/mapper") {
		if fi.Decl.Body == nil || isTestFile(c.P, fi) {
			continue
		}
		info := fi.Pkg.TypesInfo
		ast.Inspect(fi.Decl.Body, func(m ast.Node) bool {
			rs, ok := m.(*ast.RangeStmt)
			if !ok || rs.Key == nil {
				return true
			}
			mt, ok := info.TypeOf(rs.X).Underlying().(*types.Map)
			if !ok || mt.Key().String() != "string" || mt.Elem().String() != "any" {
				return true
			}
			k := eng.ObjOf(info, rs.Key)
			if k == nil {
				return true
			}
			// the key becomes a selection name
			usedAsName := false
			ast.Inspect(rs.Body, func(x ast.Node) bool {
				if kv, ok := x.(*ast.KeyValueExpr); ok {
					if id, ok := kv.Key.(*ast.Ident); ok && id.Name == "Name" && eng.ObjOf(info, kv.Value) == k {
						usedAsName = true
					}
				}
				return true
			})
			if !usedAsName {
				return true
			}
			n++
			guarded := false
			ast.Inspect(rs.Body, func(x ast.Node) bool {
				be, ok := x.(*ast.BinaryExpr)
				if !ok || (be.Op != token.EQL && be.Op != token.NEQ) {
					return true
				}
				var other ast.Expr
				if eng.ObjOf(info, be.X) == k {
					other = be.Y
				} else if eng.ObjOf(info, be.Y) == k {
					other = be.X
				}
				if other != nil {
					if s, ok := eng.ConstString(info, other); ok && s == "_not" {
						guarded = true
					}
				}
				return true
			})
			ast.Inspect(rs.Body, func(x ast.Node) bool {
				if call, ok := x.(*ast.CallExpr); ok && eng.CalleeName(info, call) == "strings.HasPrefix" && len(call.Args) == 2 && eng.ObjOf(info, call.Args[0]) == k {
					guarded = true
				}
				return true
			})
			c.Check(guarded, rule, shortFn(fi)+":filter-key-as-selection", rs.Pos(), "operator keys are told apart before a key is taken for a relation",
				"a key of a request filter is turned into a selection without excluding the _not operator: a filter {_not: {field: {…}}} makes the mapper look for a collection called _not and the request fails")
			return true
		})
	}
	c.Floor(rule, n, 1)
}

// ruleArrayKindCoverage: every inline-array aggregate understands every Go representation an array
// field can have. The representations are tabled (5 element kinds × {plain, Option}); the table is
// kept aligned with the client package's FieldKind_*_ARRAY constants (one per representation).
// _sum/_max/_min must cover the numeric ones, _count (its filter/limit path) all of them.
func ruleArrayKindCoverage(c *eng.Ctx) {
	const rule = "ARRAY-KIND-COVERAGE"
	numeric := []string{"[]int64", "[]immutable.Option[int64]", "[]float64", "[]immutable.Option[float64]", "[]float32", "[]immutable.Option[float32]"}
	all := append([]string{"[]bool", "[]immutable.Option[bool]", "[]string", "[]immutable.Option[string]"}, numeric...)
	// alignment with the kinds
	if pk := c.P.Pkg("client"); pk != nil {
		n := 0
		for _, name := range pk.Types.Scope().Names() {
			if strings.HasPrefix(name, "FieldKind_") && strings.HasSuffix(name, "_ARRAY") {
				n++
			}
		}
		c.Check(n == len(all), rule, "table:array-kinds", token.NoPos, fmt.Sprintf("%d array field kinds, %d tabled representations", n, len(all)),
			fmt.Sprintf("the client package defines %d array field kinds but %d representations are tabled: a new array kind needs a decision for every aggregate", n, len(all)))
	} else {
		c.Unknown(rule, "anchor:client", token.NoPos, "anchor-unresolved")
	}
	for _, spec := range []struct {
		fn   string
		need []string
	}{
		{"internal/planner.(*sumNode).Next", numeric},
		{"internal/planner.(*maxNode).Next", numeric},
		{"internal/planner.(*minNode).Next", numeric},
		{"internal/planner.(*countNode).Next", all},
		{"internal/connor.anyOp", all},
		{"internal/connor.all", all},
		{"internal/connor.none", all},
	} {
		fi := c.Anchor(rule, spec.fn)
		if fi == nil {
			continue
		}
		// the type switch that has a []core.Doc case
		have := map[string]bool{}
		found := false
		ast.Inspect(fi.Decl.Body, func(m ast.Node) bool {
			ts, ok := m.(*ast.TypeSwitchStmt)
			if !ok {
				return true
			}
			cases := map[string]bool{}
			for _, cl := range ts.Body.List {
				for _, e := range cl.(*ast.CaseClause).List {
					cases[eng.ExprStr(e)] = true
				}
			}
			if cases["[]core.Doc"] || cases["[]any"] {
				found = true
				for k := range cases {
					have[k] = true
				}
			}
			return true
		})
		if !found {
			c.Unknown(rule, shortFn(fi)+":array-switch", fi.Decl.Pos(), "the type switch over the aggregated collection was not found")
			continue
		}
		for _, r := range spec.need {
			c.Check(have[r], rule, shortFn(fi)+":handles("+r+")", fi.Decl.Pos(), "representation handled",
				"no case for "+r+": over a field of that array kind the aggregate answers null / 0 (the array filter operator answers 'no match') instead of looking at the items")
		}
	}
	// elements of nillable arrays reach eq as Option[T]: eq unwraps every element kind
	if fi := c.Anchor(rule, "internal/connor.eq"); fi != nil {
		have := map[string]bool{}
		ast.Inspect(fi.Decl.Body, func(m ast.Node) bool {
			if ts, ok := m.(*ast.TypeSwitchStmt); ok {
				for _, cl := range ts.Body.List {
					for _, e := range cl.(*ast.CaseClause).List {
						have[eng.ExprStr(e)] = true
					}
				}
			}
			return true
		})
		for _, el := range []string{"bool", "int64", "float64", "float32", "string"} {
			r := "immutable.Option[" + el + "]"
			c.Check(have[r], rule, "connor.eq:unwraps("+r+")", fi.Decl.Pos(), "nillable element unwrapped",
				"eq does not unwrap "+r+": an element of a nillable array of that kind never equals a condition value")
		}
	}
}
