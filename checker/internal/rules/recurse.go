package rules

import (
	"fmt"
	"go/ast"
	"go/types"

	"defracheck/internal/eng"
)

// recursionArgExceptions: self-recursive call sites that deliberately reset a pass-through parameter.
var recursionArgExceptions = map[string]string{}

// ruleRecursionArgs is a sibling-agreement rule over the recursive call sites of one function: a
// parameter that the function never assigns and that at least one recursive call hands down
// unchanged is traversal configuration (skip lists, visitors, flags, stores); a sibling recursive
// call that drops it (nil, an empty literal, nothing for a variadic) silently
// resets the configuration for that sub-tree only.
func ruleRecursionArgs(c *eng.Ctx, rule string, pkgs []string, floor int) {
	n := 0
	for _, fi := range c.P.Funcs() {
		if fi.Decl.Body == nil || !pkgMatch(eng.ShortPkg(fi.Pkg.PkgPath), pkgs) || isTestFile(c.P, fi) {
			continue
		}
		info := fi.Pkg.TypesInfo
		sig := fi.Obj.Type().(*types.Signature)
		np := sig.Params().Len()
		if np == 0 {
			continue
		}
		var sites []*ast.CallExpr
		for _, cs := range eng.Calls(info, fi.Decl.Body) {
			if cs.Callee == fi.Obj && cs.Lit == nil {
				sites = append(sites, cs.Call)
			}
		}
		if len(sites) < 2 {
			continue
		}
		assigned := map[types.Object]bool{}
		ast.Inspect(fi.Decl.Body, func(m ast.Node) bool {
			switch s := m.(type) {
			case *ast.AssignStmt:
				for _, l := range s.Lhs {
					if o := eng.ObjOf(info, l); o != nil {
						assigned[o] = true
					}
				}
			case *ast.IncDecStmt:
				if o := eng.ObjOf(info, s.X); o != nil {
					assigned[o] = true
				}
			case *ast.UnaryExpr:
				if o := eng.ObjOf(info, s.X); o != nil && s.Op.String() == "&" {
					assigned[o] = true
				}
			}
			return true
		})
		for i := 0; i < np; i++ {
			p := sig.Params().At(i)
			if assigned[p] || p.Name() == "_" || p.Name() == "" {
				continue
			}
			variadic := sig.Variadic() && i == np-1
			// classification per site
			argOf := func(call *ast.CallExpr) []ast.Expr {
				if variadic {
					if len(call.Args) <= i {
						return nil
					}
					return call.Args[i:]
				}
				if i < len(call.Args) {
					return []ast.Expr{call.Args[i]}
				}
				return nil
			}
			mentions := func(es []ast.Expr) bool {
				f := false
				for _, e := range es {
					ast.Inspect(e, func(m ast.Node) bool {
						if id, ok := m.(*ast.Ident); ok && info.Uses[id] == p {
							f = true
						}
						return !f
					})
				}
				return f
			}
			verbatim := 0
			for _, s := range sites {
				a := argOf(s)
				if len(a) == 1 && eng.ObjOf(info, a[0]) == p {
					verbatim++
				}
			}
			if verbatim == 0 {
				continue
			}
			for k, s := range sites {
				a := argOf(s)
				if mentions(a) {
					continue
				}
				// constant/nil/empty vs. an unrelated computed value: only the former is a reset
				reset := len(a) == 0
				for _, e := range a {
					tv, ok := info.Types[e]
					// nil or an empty literal drops the configuration; a bool/number/string
					// constant is a deliberate mode switch for the sub-tree (isComplex(v, true))
					if ok && tv.IsNil() {
						reset = true
					}
					if cl, isLit := ast.Unparen(e).(*ast.CompositeLit); isLit && len(cl.Elts) == 0 {
						reset = true
					}
				}
				n++
				construct := fmt.Sprintf("%s:recursive-call#%d:param(%s)", shortFn(fi), k+1, p.Name())
				if !reset {
					c.OK(rule, construct, s.Pos(), "recursive call passes a computed value for "+p.Name())
					continue
				}
				if why, ok := recursionArgExceptions[construct]; ok {
					c.OK(rule, construct, s.Pos(), "tabled exception: "+why)
					continue
				}
				c.Bad(rule, construct, s.Pos(), fmt.Sprintf("%d sibling recursive call(s) hand parameter %s down unchanged, this one resets it (%d argument(s) unrelated to it): the sub-tree below this call is traversed with different configuration than the rest", verbatim, p.Name(), len(a)))
			}
			if verbatim > 0 {
				n += verbatim
				c.OK(rule, fmt.Sprintf("%s:param(%s):passed-through", shortFn(fi), p.Name()), fi.Decl.Pos(), fmt.Sprintf("%d recursive call(s) pass %s unchanged", verbatim, p.Name()))
			}
		}
	}
	c.Floor(rule, n, floor)
}
