package rules

import (
	"fmt"
	"go/ast"
	"go/token"
	"go/types"
	"strings"

	"defracheck/internal/eng"
)

// rulePrefixEndShape: PrefixEnd(k) must be the least key that is greater than every key with prefix
// k — it is used as an *exclusive start* (_gt ascending, _lt descending) as well as an end bound, so
// "some key ≥ that" is not enough. For a byte string that is: increment the last byte that is not
// 0xff and cut everything after it. Decided structurally in keys.bytesPrefixEnd: the function works
// on a copy of its argument, and every value it returns from inside its scan loop is that copy cut
// right after the loop position (`copy[:i+1]`), never the whole copy.
func rulePrefixEndShape(c *eng.Ctx) {
	const rule = "PREFIX-END-SHAPE"
	fi := c.Anchor(rule, "internal/keys.bytesPrefixEnd")
	if fi == nil {
		return
	}
	info := fi.Pkg.TypesInfo
	ps := paramObjs(info, fi.Decl)
	if len(ps) != 1 {
		c.Unknown(rule, "bytesPrefixEnd:param", fi.Decl.Pos(), "anchor-unresolved")
		return
	}
	in := ps[0]
	// the argument is never written through
	mutates := token.NoPos
	ast.Inspect(fi.Decl.Body, func(m ast.Node) bool {
		switch s := m.(type) {
		case *ast.AssignStmt:
			for _, l := range s.Lhs {
				if ix, ok := ast.Unparen(l).(*ast.IndexExpr); ok && eng.ObjOf(info, ix.X) == in {
					mutates = s.Pos()
				}
			}
		case *ast.IncDecStmt:
			if ix, ok := ast.Unparen(s.X).(*ast.IndexExpr); ok && eng.ObjOf(info, ix.X) == in {
				mutates = s.Pos()
			}
		}
		return true
	})
	c.Check(mutates == token.NoPos, rule, "bytesPrefixEnd:argument-not-mutated", fi.Decl.Pos(), "works on a copy of the key", "bytesPrefixEnd writes into its argument: the caller's key is changed")
	n := 0
	ast.Inspect(fi.Decl.Body, func(m ast.Node) bool {
		loop, ok := m.(*ast.ForStmt)
		if !ok {
			return true
		}
		var idx types.Object
		if as, ok := loop.Init.(*ast.AssignStmt); ok && len(as.Lhs) == 1 {
			idx = eng.ObjOf(info, as.Lhs[0])
		}
		ast.Inspect(loop.Body, func(x ast.Node) bool {
			r, ok := x.(*ast.ReturnStmt)
			if !ok || len(r.Results) != 1 {
				return true
			}
			n++
			good := false
			if se, ok := ast.Unparen(r.Results[0]).(*ast.SliceExpr); ok && se.High != nil && se.Low == nil && eng.ObjOf(info, se.X) != in {
				// high bound i+1 with i the loop index
				isIdxPlus1 := func(e ast.Expr) bool {
					be, ok := ast.Unparen(e).(*ast.BinaryExpr)
					if !ok || be.Op != token.ADD {
						return false
					}
					k, isK := eng.IntConst(info, be.Y)
					return eng.ObjOf(info, be.X) == idx && isK && k == 1
				}
				if isIdxPlus1(se.High) {
					good = true
				} else if o := eng.ObjOf(info, se.High); o != nil {
					// n := i + 1; return end[:n]
					defs, ok1 := 0, false
					ast.Inspect(loop.Body, func(y ast.Node) bool {
						if as, ok := y.(*ast.AssignStmt); ok && len(as.Lhs) == 1 && len(as.Rhs) == 1 && eng.ObjOf(info, as.Lhs[0]) == o {
							defs++
							ok1 = isIdxPlus1(as.Rhs[0])
						}
						return true
					})
					good = defs == 1 && ok1
				}
			}
			c.Check(good, rule, fmt.Sprintf("bytesPrefixEnd:loop-return#%d:cut-after-incremented-byte", n), r.Pos(), "returns the copy cut right after the incremented byte",
				"the value returned from the scan loop is "+eng.ExprStr(r.Results[0])+", not the copy cut right after the incremented byte: trailing 0xff bytes stay in the bound, which is then larger than the least key above the prefix — used as an exclusive start (`_gt` on an ascending, `_lt` on a descending index) it skips the index entries in between")
			return true
		})
		return false
	})
	c.Floor(rule, n, 1)
}

// ruleAvgNotNil: _avg is computed from a hidden _sum and _count that share the target's filter; the
// clause {field: {_ne: null}} appended by mapper.appendNotNilFilter is what makes both skip nulls.
// The map that receives the `_ne` entry must be part of the target's filter on every exit: it is
// (an element stored into) field.filter's own condition map, or a new map that is assigned to
// field.filter on every path.
func ruleAvgNotNil(c *eng.Ctx) {
	const rule = "AVG-NOT-NIL"
	fi := c.Anchor(rule, "internal/planner/mapper.appendNotNilFilter")
	if fi == nil {
		return
	}
	info := fi.Pkg.TypesInfo
	ps := paramObjs(info, fi.Decl)
	if len(ps) == 0 {
		c.Unknown(rule, "appendNotNilFilter:param", fi.Decl.Pos(), "anchor-unresolved")
		return
	}
	target := ps[0]
	rootedInTarget := func(e ast.Expr) bool {
		found := false
		ast.Inspect(e, func(x ast.Node) bool {
			if se, ok := x.(*ast.SelectorExpr); ok && se.Sel.Name == "filter" && eng.ObjOf(info, se.X) == target {
				found = true
			}
			return true
		})
		return found
	}
	// the write of the clause
	var write *ast.AssignStmt
	ast.Inspect(fi.Decl.Body, func(m ast.Node) bool {
		as, ok := m.(*ast.AssignStmt)
		if !ok || len(as.Lhs) != 1 {
			return true
		}
		if ix, ok := ast.Unparen(as.Lhs[0]).(*ast.IndexExpr); ok {
			if s, ok := eng.ConstString(info, ix.Index); ok && s == "_ne" {
				write = as
			}
		}
		return true
	})
	if write == nil {
		c.Bad(rule, "appendNotNilFilter:writes-ne-nil", fi.Decl.Pos(), "appendNotNilFilter no longer adds the {_ne: null} clause: _avg counts null values")
		return
	}
	// origins of the written map: follow identifiers back through single assignments
	origins := map[string]ast.Expr{}
	var trace func(e ast.Expr, depth int)
	trace = func(e ast.Expr, depth int) {
		e = ast.Unparen(e)
		if ta, ok := e.(*ast.TypeAssertExpr); ok {
			trace(ta.X, depth)
			return
		}
		if o := eng.ObjOf(info, e); o != nil && depth < 6 {
			n := 0
			ast.Inspect(fi.Decl.Body, func(x ast.Node) bool {
				if as, ok := x.(*ast.AssignStmt); ok {
					for i, l := range as.Lhs {
						if eng.ObjOf(info, l) == o {
							n++
							if len(as.Rhs) == len(as.Lhs) {
								trace(as.Rhs[i], depth+1)
							} else if len(as.Rhs) == 1 {
								trace(as.Rhs[0], depth+1)
							}
						}
					}
				}
				if vs, ok := x.(*ast.ValueSpec); ok {
					for i, nm := range vs.Names {
						if info.Defs[nm] == o && i < len(vs.Values) {
							n++
							trace(vs.Values[i], depth+1)
						}
					}
				}
				return true
			})
			if n == 0 {
				origins[eng.ExprStr(e)] = e
			}
			return
		}
		origins[eng.ExprStr(e)] = e
	}
	trace(write.Lhs[0].(*ast.IndexExpr).X, 0)
	flow := eng.NewFlow(info, fi.Decl.Body)
	wp, _ := flow.PointOf(write)
	n := 0
	for key, e := range origins {
		n++
		construct := "appendNotNilFilter:clause-map-origin(" + key + ")"
		if rootedInTarget(e) {
			c.OK(rule, construct, e.Pos(), "the clause is written into the target filter's own condition map")
			continue
		}
		// a fresh map (literal / make): it must be stored into the target's filter — as an element of its
		// condition map or by assigning field.filter — on every path to the exit
		var local types.Object
		var born ast.Node
		ast.Inspect(fi.Decl.Body, func(x ast.Node) bool {
			if as, ok := x.(*ast.AssignStmt); ok {
				for i, r := range as.Rhs {
					if r == e && i < len(as.Lhs) {
						local = eng.ObjOf(info, as.Lhs[i])
						born = as
					}
				}
			}
			return true
		})
		stored := func(nd ast.Node) bool {
			as, ok := nd.(*ast.AssignStmt)
			if !ok || local == nil {
				return false
			}
			for i, l := range as.Lhs {
				if !rootedInTarget(l) || i >= len(as.Rhs) && len(as.Rhs) != 1 {
					continue
				}
				r := as.Rhs[0]
				if len(as.Rhs) == len(as.Lhs) {
					r = as.Rhs[i]
				}
				if mentionsObj(info, r, local) {
					return true
				}
			}
			return false
		}
		// the store may precede the clause write (element stored first, filled afterwards): look from the entry
		// only the paths on which this map comes into being matter
		missing := true
		if born != nil {
			if bp, ok := flow.PointOf(born); ok {
				missing, _ = flow.ExitsWithout(bp, false, stored, nil)
			}
		}
		_ = wp
		c.Check(local != nil && !missing, rule, construct, e.Pos(), "the new map is stored into the target's filter on every path",
			"the map that receives {_ne: null} is a new map ("+key+") that does not end up in the aggregate target's filter on every path: the hidden _count of an _avg then counts the documents whose value is null and the average is sum(non-null)/count(all)")
	}
	c.Floor(rule, n, 1)
}

// ruleAggKindPerSource: the aggregate result is rendered as float or integer according to the source
// whose value won; with several sources of different kinds that has to be resolved for the winning
// source each time. In maxNode.Next and minNode.Next the call of isValueFloat(…, &source) sits in the
// same statement list as the assignment of the accumulator (not behind a "resolved once" guard) and
// takes the loop's source.
func ruleAggKindPerSource(c *eng.Ctx) {
	const rule = "AGG-KIND-PER-SOURCE"
	n := 0
	for _, name := range []string{"internal/planner.(*maxNode).Next", "internal/planner.(*minNode).Next"} {
		fi := c.Anchor(rule, name)
		if fi == nil {
			continue
		}
		info := fi.Pkg.TypesInfo
		var stack []ast.Node
		ast.Inspect(fi.Decl.Body, func(m ast.Node) bool {
			if m == nil {
				stack = stack[:len(stack)-1]
				return true
			}
			stack = append(stack, m)
			call, ok := m.(*ast.CallExpr)
			if !ok || !strings.HasSuffix(eng.CalleeName(info, call), ".isValueFloat") {
				return true
			}
			n++
			// innermost enclosing block and range loop
			var block *ast.BlockStmt
			var loop *ast.RangeStmt
			guardedByIf := false
			for i := len(stack) - 1; i >= 0; i-- {
				switch s := stack[i].(type) {
				case *ast.BlockStmt:
					if block == nil {
						block = s
					}
				case *ast.IfStmt:
					if loop == nil && block != nil && s.Body == block {
						guardedByIf = true
					}
				case *ast.RangeStmt:
					if loop == nil {
						loop = s
					}
				}
			}
			construct := shortFn(fi) + ":isValueFloat:per-winning-source"
			perSource := false
			if loop != nil && loop.Value != nil {
				v := eng.ObjOf(info, loop.Value)
				for _, a := range call.Args {
					if v != nil && mentionsObj(info, a, v) {
						perSource = true
					}
				}
			}
			c.Check(perSource && !guardedByIf && loop != nil && block == loop.Body, rule, construct, call.Pos(), "resolved for the source whose value won, every time",
				"the value kind (float or integer) of the aggregate is not resolved for the winning source on every iteration (it is cached, guarded, or not derived from the loop's source): with sources of different kinds a float minimum/maximum is rendered through Int64() and truncated")
			return true
		})
	}
	c.Floor(rule, n, 2)
}

// ruleEventCollectionID: update events are routed (pubsub topic, replicator table) by the
// collection's id, which is the same for all of its schema versions; a version id in that slot works
// until the schema is patched and then addresses a topic nobody listens on. Every event.Update built
// in internal/db takes CollectionID from the `CollectionID` field of a collection version.
func ruleEventCollectionID(c *eng.Ctx) {
	const rule = "EVENT-COLLECTION-ID"
	n := 0
	// producers of update events: the database (first publication) and the network layer (retried pushes)
	for _, fi := range append(c.P.FuncsIn("internal/db"), c.P.FuncsIn("net")...) {
		if fi.Decl.Body == nil || isTestFile(c.P, fi) {
			continue
		}
		info := fi.Pkg.TypesInfo
		ord := 0
		ast.Inspect(fi.Decl.Body, func(m ast.Node) bool {
			cl, ok := m.(*ast.CompositeLit)
			if !ok || eng.TypeName(info.TypeOf(cl)) != "event.Update" {
				return true
			}
			for _, el := range cl.Elts {
				kv, ok := el.(*ast.KeyValueExpr)
				if !ok {
					continue
				}
				if id, ok := kv.Key.(*ast.Ident); !ok || id.Name != "CollectionID" {
					continue
				}
				ord++
				n++
				// a collection id: a field named CollectionID, or the schema root (a collection's id IS
				// its schema root: Version.CollectionID is assigned from schema.Root when it is defined)
				isColIDIn := func(inf *types.Info, e ast.Expr) bool {
					e = ast.Unparen(e)
					if call, ok := e.(*ast.CallExpr); ok && len(call.Args) == 0 {
						if se, ok := call.Fun.(*ast.SelectorExpr); ok && se.Sel.Name == "SchemaRoot" {
							return true
						}
						return false
					}
					se, ok := e.(*ast.SelectorExpr)
					if !ok || (se.Sel.Name != "CollectionID" && se.Sel.Name != "Root") {
						return false
					}
					v, ok := inf.Uses[se.Sel].(*types.Var)
					if !ok || !v.IsField() {
						return false
					}
					return se.Sel.Name == "CollectionID" || strings.HasSuffix(eng.TypeName(inf.TypeOf(se.X)), "SchemaDescription")
				}
				isColID := func(e ast.Expr) bool { return isColIDIn(info, e) }
				good := isColID(kv.Value)
				// a parameter: every caller in the package passes a collection id
				if o := eng.ObjOf(info, kv.Value); !good && o != nil {
					for pi, po := range paramObjs(info, fi.Decl) {
						if po != o {
							continue
						}
						callers, allGood := 0, true
						for _, g := range c.P.FuncsIn(eng.ShortPkg(fi.Pkg.PkgPath)) {
							if g.Decl.Body == nil || isTestFile(c.P, g) {
								continue
							}
							for _, cs := range eng.Calls(g.Pkg.TypesInfo, g.Decl.Body) {
								if cs.Name == fi.Name && pi < len(cs.Call.Args) {
									callers++
									if !isColIDIn(g.Pkg.TypesInfo, cs.Call.Args[pi]) {
										allGood = false
									}
								}
							}
						}
						good = callers > 0 && allGood
					}
				}
				if o := eng.ObjOf(info, kv.Value); !good && o != nil {
					defs, all := 0, true
					ast.Inspect(fi.Decl.Body, func(y ast.Node) bool {
						if as, ok := y.(*ast.AssignStmt); ok && len(as.Lhs) == len(as.Rhs) {
							for i, l := range as.Lhs {
								if eng.ObjOf(info, l) == o {
									defs++
									if !isColID(as.Rhs[i]) {
										all = false
									}
								}
							}
						}
						return true
					})
					good = defs > 0 && all
				}
				c.Check(good, rule, fmt.Sprintf("%s:event.Update#%d:CollectionID", shortFn(fi), ord), kv.Pos(), "addressed by the collection's id",
					"the update event is addressed with "+eng.ExprStr(kv.Value)+" instead of the collection version's CollectionID: after a schema patch the commit is published under an id no peer subscribes to and no replicator is registered for, and a receiver at another schema version cannot resolve the collection — nodes on different schema versions stop receiving it")
			}
			return true
		})
	}
	c.Floor(rule, n, 3)
}

// ruleFieldIDsEveryField: id.SetShortFieldIDs gives every field of the version a short id: its only
// successful exit lies after the loop over the version's fields (no early "nothing to do" return).
func ruleFieldIDsEveryField(c *eng.Ctx) {
	const rule = "FIELD-IDS-EVERY-FIELD"
	fi := c.Anchor(rule, "internal/db/id.SetShortFieldIDs")
	if fi == nil {
		return
	}
	info := fi.Pkg.TypesInfo
	var loop *ast.RangeStmt
	ast.Inspect(fi.Decl.Body, func(m ast.Node) bool {
		if rs, ok := m.(*ast.RangeStmt); ok && loop == nil {
			if se, ok := ast.Unparen(rs.X).(*ast.SelectorExpr); ok && se.Sel.Name == "Fields" {
				loop = rs
			}
		}
		return true
	})
	if loop == nil {
		c.Bad(rule, "SetShortFieldIDs:loop-over-fields", fi.Decl.Pos(), "SetShortFieldIDs no longer ranges over the version's fields")
		return
	}
	flow := eng.NewFlow(info, fi.Decl.Body)
	n := 0
	for _, r := range successReturnsP(c.P, info, fi.Decl) {
		n++
		inLoop := loop.Body.Pos() <= r.Pos() && r.End() <= loop.Body.End()
		pt, ok := flow.PointOf(r)
		if !ok {
			continue
		}
		before := flow.ReachesWithout(pt, func(nd ast.Node) bool {
			return nd == ast.Node(loop.X) || (nd.Pos() >= loop.Pos() && nd.End() <= loop.End())
		}, nil)
		c.Check(!before && !inLoop, rule, fmt.Sprintf("SetShortFieldIDs:success-return#%d:after-all-fields", n), r.Pos(), "succeeds only after every field was given an id",
			"SetShortFieldIDs can report success before (or without finishing) the loop over the version's fields: a field added on a branched version history keeps short id 0, shares the _docID slot, and its values become unreadable once an id is finally assigned")
	}
	c.Floor(rule, n, 1)
}

// ruleRecursionResult: a self-recursive function that returns a value accumulates through that
// value; a recursive call whose result is dropped loses what the sub-tree computed (e.g. the highest
// set id handed out so far, which is then handed out again).
func ruleRecursionResult(c *eng.Ctx, rule string, pkgs []string) {
	n := 0
	for _, fi := range c.P.Funcs() {
		if fi.Decl.Body == nil || !pkgMatch(eng.ShortPkg(fi.Pkg.PkgPath), pkgs) || isTestFile(c.P, fi) {
			continue
		}
		sig := fi.Obj.Type().(*types.Signature)
		nonErr := 0
		for i := 0; i < sig.Results().Len(); i++ {
			if !eng.IsErrorType(sig.Results().At(i).Type()) {
				nonErr++
			}
		}
		info := fi.Pkg.TypesInfo
		ord := 0
		ast.Inspect(fi.Decl.Body, func(m ast.Node) bool {
			if _, ok := m.(*ast.FuncLit); ok {
				return false
			}
			var call *ast.CallExpr
			dropped := false
			switch s := m.(type) {
			case *ast.ExprStmt:
				call, _ = s.X.(*ast.CallExpr)
				dropped = true
			case *ast.AssignStmt:
				if len(s.Rhs) == 1 {
					call, _ = s.Rhs[0].(*ast.CallExpr)
					dropped = true
					for i, l := range s.Lhs {
						if id, ok := l.(*ast.Ident); ok && id.Name == "_" {
							continue
						}
						if i < sig.Results().Len() && !eng.IsErrorType(sig.Results().At(i).Type()) {
							dropped = false
						}
					}
				}
			}
			if call == nil || eng.Callee(info, call) != fi.Obj {
				return true
			}
			ord++
			if nonErr == 0 {
				return true
			}
			n++
			c.Check(!dropped, rule, fmt.Sprintf("%s:recursive-call#%d:result-used", shortFn(fi), ord), call.Pos(), "the sub-tree's result is used",
				"the value returned by the recursive call is dropped: what the sub-tree accumulated (a counter, a set, a found flag) is lost for the rest of the traversal")
			return true
		})
	}
	c.Notes = append(c.Notes, fmt.Sprintf("%s: %d recursive calls of value-returning functions in %v", rule, n, pkgs))
}

// ruleSyncIndexTable: after a merge the secondary indexes are brought in line with the document as it
// was before (oldDoc) and as it is after (doc) the merge; either lookup may report "not found" (nil
// document). Decision table of syncIndexedDoc over (isNewDoc, isDeletedDoc): new ⇒ index doc; deleted ⇒
// un-index oldDoc; both present ⇒ update; neither visible ⇒ no index call at all (both documents are nil).
func ruleSyncIndexTable(c *eng.Ctx) {
	const rule = "SYNC-INDEX-TABLE"
	fi := c.Anchor(rule, "internal/db.syncIndexedDoc")
	if fi == nil {
		return
	}
	info := fi.Pkg.TypesInfo
	// the two flags: bools defined from errors.Is(err, …NotFound…), in source order
	var flags []types.Object
	ast.Inspect(fi.Decl.Body, func(m ast.Node) bool {
		as, ok := m.(*ast.AssignStmt)
		if !ok || len(as.Lhs) != 1 || len(as.Rhs) != 1 {
			return true
		}
		if call, ok := ast.Unparen(as.Rhs[0]).(*ast.CallExpr); ok && strings.HasSuffix(eng.CalleeName(info, call), "errors.Is") {
			if o := eng.ObjOf(info, as.Lhs[0]); o != nil {
				flags = append(flags, o)
			}
		}
		return true
	})
	if len(flags) != 2 {
		c.Unknown(rule, "syncIndexedDoc:flags", fi.Decl.Pos(), fmt.Sprintf("expected two not-found flags, found %d", len(flags)))
		return
	}
	flow := eng.NewFlow(info, fi.Decl.Body)
	start, ok := flow.PointOf(assignOfObj(info, fi.Decl.Body, flags[1]))
	if !ok {
		c.Unknown(rule, "syncIndexedDoc:start", fi.Decl.Pos(), "flag definition not in the flow graph")
		return
	}
	want := map[[2]bool]string{{true, false}: "indexNewDoc", {false, true}: "deleteIndexedDoc", {false, false}: "updateDocIndex", {true, true}: ""}
	for _, isNew := range []bool{true, false} {
		for _, isDel := range []bool{true, false} {
			got := map[string]bool{}
			outs, _ := flow.Paths(eng.PathSpec{
				Start: &start,
				Cond: func(br eng.Branch) eng.Tri {
					return eng.BranchTri(info, br, func(e ast.Expr) eng.Tri {
						switch eng.ObjOf(info, e) {
						case flags[0]:
							return eng.TriOf(isNew)
						case flags[1]:
							return eng.TriOf(isDel)
						}
						if t := happyAtom(info, e); t != eng.Unknown {
							return t
						}
						return eng.Unknown
					})
				},
				Effect: func(nd ast.Node) string {
					lbl := ""
					ast.Inspect(nd, func(x ast.Node) bool {
						if call, ok := x.(*ast.CallExpr); ok {
							nm := eng.CalleeName(info, call)
							for _, k := range []string{"indexNewDoc", "deleteIndexedDoc", "updateDocIndex"} {
								if strings.HasSuffix(nm, "."+k) {
									lbl = k
								}
							}
						}
						return true
					})
					return lbl
				},
			})
			for _, o := range outs {
				got[strings.Join(o.Effects, "+")] = true
			}
			keys := setKeys(got)
			w := want[[2]bool{isNew, isDel}]
			c.Check(len(keys) == 1 && keys[0] == w, rule, fmt.Sprintf("syncIndexedDoc:cell(absent-before=%v,absent-after=%v)", isNew, isDel), fi.Decl.Pos(), "index action: "+map[bool]string{true: "none", false: w}[w == ""],
				fmt.Sprintf("with the document absent-before=%v / absent-after=%v the index is maintained by %v, required %q: a nil document reaches the index code (panic in the merge goroutine) or an index entry is left behind / missing", isNew, isDel, keys, w))
		}
	}
}

func assignOfObj(info *types.Info, body *ast.BlockStmt, o types.Object) ast.Node {
	var out ast.Node
	ast.Inspect(body, func(m ast.Node) bool {
		if as, ok := m.(*ast.AssignStmt); ok {
			for _, l := range as.Lhs {
				if id, ok := l.(*ast.Ident); ok && info.Defs[id] == o {
					out = as
				}
			}
		}
		return true
	})
	return out
}

// ruleReplicatorTableExact: server.updateReplicators sets the collections a replicator peer is
// registered for to exactly the given set. For a collection that is not in the (non-empty) set the
// peer is removed from the in-memory table — otherwise a partial DeleteReplicator keeps pushing the
// dropped collection until the next restart rebuilds the table from the persisted list.
func ruleReplicatorTableExact(c *eng.Ctx) {
	const rule = "REPLICATOR-TABLE-EXACT"
	fi := c.Anchor(rule, "net.(*server).updateReplicators")
	if fi == nil {
		return
	}
	info := fi.Pkg.TypesInfo
	ps := paramObjs(info, fi.Decl)
	var set types.Object
	for _, p := range ps {
		if _, ok := p.Type().Underlying().(*types.Map); ok {
			set = p
		}
	}
	if set == nil {
		c.Unknown(rule, "updateReplicators:set-param", fi.Decl.Pos(), "anchor-unresolved")
		return
	}
	flow := eng.NewFlow(info, fi.Decl.Body)
	// removal sites: delete(<per-collection peer map>, rep.ID) inside a range over s.replicators
	n, reachable := 0, false
	ast.Inspect(fi.Decl.Body, func(m ast.Node) bool {
		rs, ok := m.(*ast.RangeStmt)
		if !ok || !isFieldNamed(info, rs.X, "replicators") {
			return true
		}
		ast.Inspect(rs.Body, func(x ast.Node) bool {
			call, ok := x.(*ast.CallExpr)
			if !ok {
				return true
			}
			if id, ok := call.Fun.(*ast.Ident); !ok || id.Name != "delete" || len(call.Args) != 2 {
				return true
			}
			if eng.ObjOf(info, call.Args[0]) == set {
				return true // bookkeeping on the given set
			}
			n++
			var stmt ast.Node
			ast.Inspect(rs.Body, func(y ast.Node) bool {
				if es, ok := y.(*ast.ExprStmt); ok && es.X == ast.Expr(call) {
					stmt = es
				}
				return true
			})
			if stmt == nil {
				return true
			}
			pt, ok := flow.PointOf(stmt)
			if !ok {
				return true
			}
			// reachable from the function entry with: the set non-empty, the collection not a member
			hit := flow.Forward(flow.Entry(), true, eng.Walk{
				Visit: func(p eng.Point, nd ast.Node) eng.Action {
					if p == pt {
						return eng.Hit
					}
					return eng.Continue
				},
				Edge: func(cond ast.Expr, taken bool) bool {
					t := eng.EvalBool(info, cond, func(e ast.Expr) eng.Tri {
						// len(set) == 0 / != 0 / > 0
						if be, ok := ast.Unparen(e).(*ast.BinaryExpr); ok {
							if lc, ok := ast.Unparen(be.X).(*ast.CallExpr); ok {
								if id, ok := lc.Fun.(*ast.Ident); ok && id.Name == "len" && len(lc.Args) == 1 && eng.ObjOf(info, lc.Args[0]) == set {
									if k, ok := eng.IntConst(info, be.Y); ok {
										if r, ok := eng.CmpHolds(be.Op, cmpInt(2, k)); ok {
											return eng.TriOf(r)
										}
									}
								}
							}
						}
						// membership flag of the set: `_, has := set[k]`
						if o := eng.ObjOf(info, e); o != nil {
							isMember := false
							ast.Inspect(fi.Decl.Body, func(y ast.Node) bool {
								if as, ok := y.(*ast.AssignStmt); ok && len(as.Lhs) == 2 && len(as.Rhs) == 1 && eng.ObjOf(info, as.Lhs[1]) == o {
									if ix, ok := ast.Unparen(as.Rhs[0]).(*ast.IndexExpr); ok && eng.ObjOf(info, ix.X) == set {
										isMember = true
									}
								}
								return true
							})
							if isMember {
								return eng.False
							}
						}
						return eng.Unknown
					})
					switch t {
					case eng.True:
						return taken
					case eng.False:
						return !taken
					}
					return true
				},
			})
			if hit {
				reachable = true
			}
			return true
		})
		return true
	})
	c.Check(n > 0 && reachable, rule, "updateReplicators:dropped-collection⇒peer-removed", fi.Decl.Pos(), "for a non-empty set, a collection outside the set loses the peer",
		"with a non-empty collection set the peer is not removed from the in-memory table of a collection that is no longer in the set: after a partial DeleteReplicator the running node keeps pushing that collection to the peer, a restarted node (table rebuilt from the persisted list) does not")
	// the table is updated on every path: no exit of the function (e.g. after a failed connection
	// attempt to a peer that is currently down) comes before the range over s.replicators
	var loop *ast.RangeStmt
	ast.Inspect(fi.Decl.Body, func(m ast.Node) bool {
		if rs, ok := m.(*ast.RangeStmt); ok && loop == nil && isFieldNamed(info, rs.X, "replicators") {
			loop = rs
		}
		return true
	})
	if loop == nil {
		c.Unknown(rule, "updateReplicators:table-updated-on-every-path", fi.Decl.Pos(), "anchor-unresolved: range over s.replicators")
		return
	}
	early, where := flow.ExitsWithout(flow.Entry(), true, func(nd ast.Node) bool {
		return nd.Pos() >= loop.Pos() && nd.End() <= loop.End()
	}, nil)
	c.Check(!early, rule, "updateReplicators:table-updated-on-every-path", fi.Decl.Pos(), "every path reaches the table update",
		"updateReplicators can return at "+c.P.Rel(where)+" before the in-memory replicator table is updated: a replicator whose peer is unreachable when the table is rebuilt (node start-up, SetReplicator during an outage) is persisted but never pushed to, and no failure is recorded for it")
}
