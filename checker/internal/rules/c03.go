package rules

import (
	"fmt"
	"go/ast"
	"go/token"
	"go/types"
	"strings"

	"defracheck/internal/eng"
)

func init() {
	register(&Property{
		ID: "C03",
		Rules: []Rule{
			{"WALK-PARTITION", ruleWalkPartitionVersioned},
			{"VF-ISOLATED", ruleVFIsolated},
			{"VF-SAME-MERGE", ruleVFSameMerge},
			{"SUB-CID", ruleSubCid},
			{"CID-PLUMB", ruleCidPlumb},
			{"VF-NO-INDEX", ruleVFNoIndex},
			{"ACP-PLUMB", ruleACPPlumb},
			{"LWW-TABLE", ruleLWWTable},
			{"COUNTER-MERGE", ruleCounterMerge},
			{"ITER-NO-WRITE", func(c *eng.Ctx) {
				ruleIterNoWrite(c, "ITER-NO-WRITE", []string{"internal/core/...", "internal/db/fetcher"})
			}},
		},
		Meta: eng.PropMeta{
			Explanation: "The versioned (time-travel) read path replays history with its own traversal; it must agree with the merge path's traversal (sibling implementations). Decided: (WALK-PARTITION) VersionedFetcher.seekNext ranges over every parent (Heads) with the queueing flag set and over the field links with the flag clear; VersionedFetcher.merge recurses into field links only (parents come from the queue exactly once) — the same partition as merge.go; (VF-ISOLATED) the replay writes only into the fetcher's private transient store: ProcessBlock runs with a context whose transaction is that store, every CRDT is constructed on it, block copies go to it, and the request's own transaction is only read; (VF-SAME-MERGE) the replay applies blocks through the same coreblock.ProcessBlock / CRDT constructors as the live merge path; (SUB-CID) subscriptions evaluate at the cid and docID of the received event; (ACP-PLUMB) the ACP handle and identity reach the inner fetcher unchanged. (WALK-PARTITION, parents-before-links) seekNext walks a commit's parents before its field links; (CID-PLUMB) selectNode.initSource hands exactly the request's cid option to scanNode.initFetcher and initFetcher installs the VersionedFetcher exactly when it has a value (2-cell table); (VF-NO-INDEX) the document fetcher that reads the transient store back is initialised without a secondary index; (SUB-CID) the select built from the update event is run as built — no field of it is assigned between ToSelect and RunSelection.",
			NotDecided:  "equality of the replayed state with the historical query result for every history and CRDT kind (e.g. the order in which queued commits of concurrent branches are applied); behaviour at delete commits",
		},
	})
}

func ruleWalkPartitionVersioned(c *eng.Ctx) {
	const rule = "WALK-PARTITION"
	enq := c.Anchor(rule, "internal/db/fetcher.(*VersionedFetcher).seekNext")
	app := c.Anchor(rule, "internal/db/fetcher.(*VersionedFetcher).merge")
	walkPartition(c, rule, enq, app, "versioned")
	if enq == nil {
		return
	}
	// queue flag: recursion over Heads passes true, over Links passes false
	info := enq.Pkg.TypesInfo
	// order: parents are walked before the field links. The walk copies each visited block into the
	// transient store and stops at blocks already there; a field block's own Heads are older field
	// blocks, reached with the queueing flag set — they are only recognised as "already transferred
	// as part of their composite" if the parent composites were walked first.
	var headsLoop, linksLoop *ast.RangeStmt
	for _, st := range enq.Decl.Body.List {
		if rs, ok := st.(*ast.RangeStmt); ok {
			if se, ok := ast.Unparen(rs.X).(*ast.SelectorExpr); ok && eng.TypeName(info.TypeOf(se.X)) == "internal/core/block.Block" {
				switch se.Sel.Name {
				case "Heads":
					if headsLoop == nil {
						headsLoop = rs
					}
				case "Links":
					if linksLoop == nil {
						linksLoop = rs
					}
				}
			}
		}
	}
	if headsLoop != nil && linksLoop != nil {
		c.Check(headsLoop.Pos() < linksLoop.Pos(), rule, "versioned:seekNext:parents-before-links", linksLoop.Pos(), "parents are walked before field links",
			"seekNext walks a commit's field links before its parents: the older field blocks those links point back to are not yet in the transient store and get queued as if they were composite commits — each is then replayed twice (once from the queue, once through its composite's links), doubling counters in time-travel reads")
	} else {
		c.Unknown(rule, "versioned:seekNext:parents-before-links", enq.Decl.Pos(), "the two top-level loops over Heads and Links were not found")
	}
	ast.Inspect(enq.Decl.Body, func(m ast.Node) bool {
		rs, ok := m.(*ast.RangeStmt)
		if !ok {
			return true
		}
		kind := ""
		if se, ok := ast.Unparen(rs.X).(*ast.SelectorExpr); ok && eng.TypeName(info.TypeOf(se.X)) == "internal/core/block.Block" {
			kind = se.Sel.Name
		}
		if kind != "Heads" && kind != "Links" {
			return true
		}
		for _, cs := range eng.Calls(info, rs.Body) {
			if cs.Callee != enq.Obj || len(cs.Call.Args) != 2 {
				continue
			}
			tv, ok := info.Types[cs.Call.Args[1]]
			want := kind == "Heads"
			good := ok && tv.Value != nil && (tv.Value.ExactString() == "true") == want
			c.Check(good, rule, "versioned:seekNext:range("+kind+"):queue-flag", cs.Call.Pos(), fmt.Sprintf("queue flag is %v for %s", want, kind),
				fmt.Sprintf("recursion over %s passes queue flag %s (must be the constant %v): field blocks would be replayed as composites, or parents never queued", kind, eng.ExprStr(cs.Call.Args[1]), want))
		}
		return true
	})
}

func ruleVFIsolated(c *eng.Ctx) {
	const rule = "VF-ISOLATED"
	n := 0
	for _, fi := range c.P.FuncsIn("internal/db/fetcher") {
		if fi.Decl.Body == nil || !strings.Contains(fi.Name, "(*VersionedFetcher)") {
			continue
		}
		info := fi.Pkg.TypesInfo
		isField := func(e ast.Expr, name string) bool {
			se, ok := ast.Unparen(e).(*ast.SelectorExpr)
			return ok && se.Sel.Name == name && eng.TypeName(info.TypeOf(se.X)) == "internal/db/fetcher.VersionedFetcher"
		}
		ord := map[string]int{}
		key := func(k string) string {
			ord[k]++
			return fmt.Sprintf("%s:%s#%d", shortFn(fi), k, ord[k])
		}
		for _, cs := range eng.Calls(info, fi.Decl.Body) {
			switch cs.Name {
			case "internal/core/block.ProcessBlock":
				n++
				good := false
				arg := ast.Unparen(cs.Call.Args[0])
				// direct CtxSetTxn(…, vf.store) or a local assigned from it
				check := func(e ast.Expr) bool {
					call, ok := ast.Unparen(e).(*ast.CallExpr)
					return ok && eng.CalleeName(info, call) == "internal/datastore.CtxSetTxn" && len(call.Args) == 2 && isField(call.Args[1], "store")
				}
				if check(arg) {
					good = true
				} else if o := eng.ObjOf(info, arg); o != nil {
					ast.Inspect(fi.Decl.Body, func(x ast.Node) bool {
						if as, ok := x.(*ast.AssignStmt); ok && len(as.Lhs) == 1 && len(as.Rhs) == 1 && eng.ObjOf(info, as.Lhs[0]) == o && check(as.Rhs[0]) {
							good = true
						}
						return true
					})
				}
				c.Check(good, rule, key("ProcessBlock:ctx-txn=transient-store"), cs.Call.Pos(), "the replay's head and block bookkeeping runs on the transient store",
					"ProcessBlock is called with a context that still carries the request's transaction: updateHeads writes the replayed commit into the document's real head set (a read-only query at an old commit re-adds it as a head)")
			case "internal/core/crdt.NewDocComposite", "internal/core/crdt.FieldLevelCRDTWithStore", "internal/core/crdt.NewLWW", "internal/core/crdt.NewCounter":
				n++
				good := false
				if len(cs.Call.Args) > 0 {
					if call, ok := ast.Unparen(cs.Call.Args[0]).(*ast.CallExpr); ok {
						if se, ok := call.Fun.(*ast.SelectorExpr); ok && se.Sel.Name == "Datastore" && isField(se.X, "store") {
							good = true
						}
					}
				}
				c.Check(good, rule, key("crdt-store=transient"), cs.Call.Pos(), "replayed CRDT state lives in the transient store",
					"a CRDT of the replay is constructed on "+eng.ExprStr(cs.Call.Args[0])+" instead of the transient store's datastore: the replay overwrites live document state")
			}
			// writes through vf.txn are forbidden
			if se, ok := cs.Call.Fun.(*ast.SelectorExpr); ok {
				switch se.Sel.Name {
				case "Put", "PutMany", "Set", "Delete", "DeleteBlock":
					root := ast.Unparen(se.X)
					usesTxn := false
					ast.Inspect(root, func(x ast.Node) bool {
						if e, ok := x.(ast.Expr); ok && isField(e, "txn") {
							usesTxn = true
						}
						return true
					})
					if usesTxn {
						n++
						c.Bad(rule, key("write-through-request-txn"), cs.Call.Pos(), "the versioned fetcher writes through the request's transaction ("+eng.ExprStr(cs.Call.Fun)+")")
					}
				}
			}
		}
	}
	c.Floor(rule, n, 3)
}

// ruleVFSameMerge: the replay uses the same apply primitive as the live merge path.
func ruleVFSameMerge(c *eng.Ctx) {
	const rule = "VF-SAME-MERGE"
	vf := c.Anchor(rule, "internal/db/fetcher.(*VersionedFetcher).merge")
	live := c.Anchor(rule, "internal/db.(*mergeProcessor).processBlock")
	if vf == nil || live == nil {
		return
	}
	has := func(fi *eng.FuncInfo, name string) bool {
		return eng.ContainsCallTo(fi.Pkg.TypesInfo, fi.Decl.Body, false, name) != nil
	}
	c.Check(has(vf, "internal/core/block.ProcessBlock") && has(live, "internal/core/block.ProcessBlock"), rule, "both-apply-through-ProcessBlock", vf.Decl.Pos(),
		"replay and live merge share coreblock.ProcessBlock", "the replay no longer applies blocks through coreblock.ProcessBlock: time-travel state is computed by different code than the live state")
	// the replay's queue is consumed front to back exactly once (single loop calling merge in seekTo)
	if st := c.Anchor(rule, "internal/db/fetcher.(*VersionedFetcher).seekTo"); st != nil {
		info := st.Pkg.TypesInfo
		loops := 0
		ast.Inspect(st.Decl.Body, func(m ast.Node) bool {
			switch l := m.(type) {
			case *ast.ForStmt:
				if eng.FindCall(l.Body, false, func(cc *ast.CallExpr) bool { return eng.Callee(info, cc) == vf.Obj }) != nil {
					loops++
				}
			case *ast.RangeStmt:
				if eng.FindCall(l.Body, false, func(cc *ast.CallExpr) bool { return eng.Callee(info, cc) == vf.Obj }) != nil {
					loops++
				}
			}
			return true
		})
		c.Check(loops == 1, rule, "seekTo:single-replay-loop", st.Decl.Pos(), "one loop replays the queue", fmt.Sprintf("%d loops call merge over the queue", loops))
		// queue re-initialised per seek
		reinit := false
		ast.Inspect(st.Decl.Body, func(m ast.Node) bool {
			if as, ok := m.(*ast.AssignStmt); ok && len(as.Lhs) == 1 && isFieldNamed(info, as.Lhs[0], "queuedCids") {
				reinit = true
			}
			return true
		})
		c.Check(reinit, rule, "seekTo:queue-reset", st.Decl.Pos(), "queue reset at every seek", "the replay queue is not reset per seek: a second query on the same fetcher replays the previous target again")
	}
	_ = token.NoPos
}

// ruleCidPlumb: whether a select runs as a time-travel query is decided by the request's cid
// alone: selectNode.initSource hands exactly the request's Cid option to scanNode.initFetcher, and
// initFetcher installs the VersionedFetcher exactly when that option has a value.
func ruleCidPlumb(c *eng.Ctx) {
	const rule = "CID-PLUMB"
	initF := c.Anchor(rule, "internal/planner.(*scanNode).initFetcher")
	src := c.Anchor(rule, "internal/planner.(*selectNode).initSource")
	if initF == nil || src == nil {
		return
	}
	// (a) call sites in initSource
	info := src.Pkg.TypesInfo
	isReqCid := func(e ast.Expr) bool {
		se, ok := ast.Unparen(e).(*ast.SelectorExpr)
		if !ok || se.Sel.Name != "Cid" {
			return false
		}
		t := eng.TypeName(info.TypeOf(se.X))
		return strings.HasSuffix(t, "mapper.Select") || strings.HasSuffix(t, "request.Select")
	}
	n := 0
	for _, cs := range eng.Calls(info, src.Decl.Body) {
		if cs.Callee != initF.Obj || len(cs.Call.Args) != 1 {
			continue
		}
		n++
		arg := cs.Call.Args[0]
		good := isReqCid(arg)
		if o := eng.ObjOf(info, arg); !good && o != nil {
			// a local: every assignment to it is the request's cid
			all, cnt := true, 0
			ast.Inspect(src.Decl.Body, func(m ast.Node) bool {
				if as, ok := m.(*ast.AssignStmt); ok {
					for i, l := range as.Lhs {
						if eng.ObjOf(info, l) == o {
							cnt++
							if len(as.Rhs) != len(as.Lhs) || !isReqCid(as.Rhs[i]) {
								all = false
							}
						}
					}
				}
				return true
			})
			good = all && cnt > 0
		}
		c.Check(good, rule, fmt.Sprintf("initSource:initFetcher#%d:arg=request-cid", n), cs.Call.Pos(), "the fetcher kind is chosen from the request's cid",
			"initFetcher receives "+eng.ExprStr(arg)+", which is not (always) the request's cid: a query at a commit can be served from the current state (or a current query replayed from history) depending on something other than the request")
	}
	c.Floor(rule, n, 1)
	// (b) decision in initFetcher
	finfo := initF.Pkg.TypesInfo
	flow := eng.NewFlow(finfo, initF.Decl.Body)
	var param types.Object
	if ps := paramObjs(finfo, initF.Decl); len(ps) == 1 {
		param = ps[0]
	}
	for _, has := range []bool{true, false} {
		outs, trunc := flow.Paths(eng.PathSpec{
			Cond: func(br eng.Branch) eng.Tri {
				return eng.BranchTri(finfo, br, func(e ast.Expr) eng.Tri {
					if call, ok := ast.Unparen(e).(*ast.CallExpr); ok {
						if se, ok := call.Fun.(*ast.SelectorExpr); ok && se.Sel.Name == "HasValue" && eng.ObjOf(finfo, se.X) == param {
							return eng.TriOf(has)
						}
					}
					return eng.Unknown
				})
			},
			Effect: func(nd ast.Node) string {
				lbl := ""
				ast.Inspect(nd, func(x ast.Node) bool {
					switch y := x.(type) {
					case *ast.CallExpr:
						if id, ok := y.Fun.(*ast.Ident); ok && id.Name == "new" && len(y.Args) == 1 && strings.HasSuffix(eng.TypeName(finfo.TypeOf(y.Args[0])), "fetcher.VersionedFetcher") {
							lbl = "versioned"
						}
						if strings.Contains(eng.CalleeName(finfo, y), "NewVersionedFetcher") {
							lbl = "versioned"
						}
					case *ast.CompositeLit:
						if strings.HasSuffix(eng.TypeName(finfo.TypeOf(y)), "fetcher.VersionedFetcher") {
							lbl = "versioned"
						}
					}
					return true
				})
				return lbl
			},
		})
		got := map[string]bool{}
		for _, o := range outs {
			if len(o.Effects) > 0 {
				got["versioned"] = true
			} else {
				got["current"] = true
			}
		}
		want := "current"
		if has {
			want = "versioned"
		}
		keys := setKeys(got)
		construct := fmt.Sprintf("initFetcher:cell(cid.HasValue=%v)", has)
		if trunc || param == nil {
			c.Unknown(rule, construct, initF.Decl.Pos(), "could not enumerate initFetcher")
			continue
		}
		c.Check(len(keys) == 1 && keys[0] == want, rule, construct, initF.Decl.Pos(), want+" fetcher",
			fmt.Sprintf("with cid.HasValue()=%v initFetcher installs %v, required %q", has, keys, want))
	}
}

// ruleVFNoIndex: the versioned fetcher rebuilds the document in a transient store that holds no
// secondary index entries; the document fetcher that reads it back must be initialised without an
// index, whatever index the planner chose for the (current-state) scan.
func ruleVFNoIndex(c *eng.Ctx) {
	const rule = "VF-NO-INDEX"
	fi := c.Anchor(rule, "internal/db/fetcher.(*VersionedFetcher).Init")
	if fi == nil {
		return
	}
	info := fi.Pkg.TypesInfo
	n := 0
	for _, cs := range eng.Calls(info, fi.Decl.Body) {
		if !strings.HasSuffix(cs.Name, ".Init") || cs.Callee == fi.Obj {
			continue
		}
		sig, ok := info.TypeOf(cs.Call.Fun).(*types.Signature)
		if !ok {
			continue
		}
		for i := 0; i < sig.Params().Len() && i < len(cs.Call.Args); i++ {
			if !strings.Contains(sig.Params().At(i).Type().String(), "IndexDescription") {
				continue
			}
			n++
			arg := cs.Call.Args[i]
			noneExpr := func(e ast.Expr) bool {
				if call, ok := ast.Unparen(e).(*ast.CallExpr); ok && strings.Contains(eng.CalleeName(info, call), "immutable.None") {
					return true
				}
				if cl, ok := ast.Unparen(e).(*ast.CompositeLit); ok && len(cl.Elts) == 0 {
					return true
				}
				return false
			}
			isNone := noneExpr(arg)
			if o := eng.ObjOf(info, arg); !isNone && o != nil {
				// a local that is only ever assigned None values (or declared without a value)
				all, cnt := true, 0
				ast.Inspect(fi.Decl.Body, func(x ast.Node) bool {
					switch d := x.(type) {
					case *ast.AssignStmt:
						for i, l := range d.Lhs {
							if eng.ObjOf(info, l) == o {
								cnt++
								if len(d.Rhs) != len(d.Lhs) || !noneExpr(d.Rhs[i]) {
									all = false
								}
							}
						}
					case *ast.ValueSpec:
						for i, nm := range d.Names {
							if info.Defs[nm] == o {
								cnt++
								if i < len(d.Values) && !noneExpr(d.Values[i]) {
									all = false
								}
							}
						}
					}
					return true
				})
				if _, isParam := o.(*types.Var); isParam && cnt > 0 && all {
					isNone = true
				}
			}
			c.Check(isNone, rule, "VersionedFetcher.Init:inner-Init:index=none", arg.Pos(), "the transient store is read without a secondary index",
				"the fetcher that reads the rebuilt document from the transient store is given the index "+eng.ExprStr(arg)+": that store has no index entries, so a time-travel query filtering on the indexed field returns nothing")
		}
	}
	c.Floor(rule, n, 1)
}
