package rules

import (
	"fmt"
	"go/ast"
	"go/token"
	"go/types"
	"strings"

	"defracheck/internal/eng"
)

func init() {
	register(&Property{
		ID: "C16",
		Rules: []Rule{
			{"LOCKSET", ruleLockset},
			{"LOCK-ESCAPE", ruleLockEscape},
			{"CONFINEMENT", ruleBusConfinement},
			{"BUS-SEND-LOCKED", ruleBusSendLocked},
			{"CONCTXN-WRAP", ruleConcTxnWrap},
			{"TXN-AFTER-LOCK", ruleTxnAfterLock},
			{"CACHE-FRESH-PER-CALL", ruleCacheFreshPerCall},
			{"ATOMIC-FIELD", ruleAtomicField},
			{"MERGE-QUEUE", ruleMergeQueue},
			{"MERGE-SERIAL", ruleMergeSerial},
		},
		Meta: eng.PropMeta{
			Explanation: "Schedules are not enumerable statically; data-race freedom is decided as the classic lockset discipline on a confirmed table of shared state, exact on that table: (LOCKSET) every access to server.{topics,replicators} holds server.mu, to server.conns holds connMu, to server.peerIdentities holds piMux, to mergeQueue.keys holds mergeQueue.mutex, to channelBus.isClosed holds closeMutex (must-hold dataflow over go/cfg; goroutine literals start with nothing held; constructors exempt); (LOCK-ESCAPE) no map-typed element loaded from a guarded map is used after the lock was released; (CONFINEMENT) channelBus.subs/events are touched only by handleChannel and the constructor, handleChannel is the only receiver of commandChannel and is started exactly once; (BUS-SEND-LOCKED) every send on commandChannel outside handleChannel happens while closeMutex is held and after the isClosed test; (CONCTXN-WRAP) the store tree of a concurrent transaction is built from the mutex-holding wrapper and the wrapper overrides every corekv.ReaderWriter method; (MERGE-QUEUE) mergeQueue.add inserts only on the absent edge under the lock and re-checks after being woken; (MERGE-SERIAL) merges of one document run between add and a deferred done. (TXN-AFTER-LOCK) as in C15. LOCKSET also requires the exclusive lock (Lock, not RLock) where a guarded field is written. (CACHE-FRESH-PER-CALL) the lock-free short-id caches carried in the context are new maps for every API call: each installing function of internal/db/id returns context.WithValue(…, <new map>) on every path. (ATOMIC-FIELD) the request parser's schema manager — replaced when a schema change commits, read by every parsed request, with no lock on either side — has a sync/atomic type.",
			NotDecided:  "races on state outside the table, deadlock freedom (e.g. Publish holding closeMutex.RLock while the command channel is full), final-state accounting of counters under concurrency, absence of panics under all interleavings",
		},
	})
}

type guarded struct {
	typ    string // short qualified struct type
	mutex  string
	fields []string
}

var guardedTable = []guarded{
	{"net.server", "mu", []string{"topics", "replicators"}},
	{"net.server", "connMu", []string{"conns"}},
	{"net.server", "piMux", []string{"peerIdentities"}},
	{"internal/db.mergeQueue", "mutex", []string{"keys"}},
	{"event.channelBus", "closeMutex", []string{"isClosed"}},
	{"internal/datastore.BasicTxn", "fnsMu", []string{"successFns", "errorFns", "discardFns", "successAsyncFns", "errorAsyncFns", "discardAsyncFns"}},
}

// constructsType: the function builds a value of the struct type with a composite literal.
func constructsType(info *types.Info, body ast.Node, typ string) bool {
	found := false
	ast.Inspect(body, func(n ast.Node) bool {
		if cl, ok := n.(*ast.CompositeLit); ok && eng.TypeName(info.TypeOf(cl)) == typ {
			found = true
		}
		return true
	})
	return found
}

// forEachBody calls f for the declaration body and every function literal body of fi.
func forEachBody(fi *eng.FuncInfo, f func(body *ast.BlockStmt, label string)) {
	f(fi.Decl.Body, shortFn(fi))
	k := 0
	ast.Inspect(fi.Decl.Body, func(n ast.Node) bool {
		if lit, ok := n.(*ast.FuncLit); ok {
			k++
			f(lit.Body, fmt.Sprintf("%s$%d", shortFn(fi), k))
		}
		return true
	})
}

func ruleLockset(c *eng.Ctx) {
	const rule = "LOCKSET"
	n := 0
	for _, g := range guardedTable {
		pkgRel := g.typ[:strings.LastIndex(g.typ, ".")]
		found := map[string]bool{}
		for _, fi := range c.P.FuncsIn(pkgRel) {
			if fi.Decl.Body == nil {
				continue
			}
			info := fi.Pkg.TypesInfo
			if constructsType(info, fi.Decl.Body, g.typ) {
				continue // constructor: the value is not yet shared
			}
			forEachBody(fi, func(body *ast.BlockStmt, label string) {
				var flow *eng.FlowGraph
				var ls *eng.LockSets
				ord := map[string]int{}
				inspectNoLits(body, func(m ast.Node) {
					se, ok := m.(*ast.SelectorExpr)
					if !ok {
						return
					}
					sel, ok := info.Selections[se]
					if !ok || sel.Kind() != types.FieldVal || eng.TypeName(sel.Recv()) != g.typ {
						return
					}
					isG := false
					for _, f := range g.fields {
						if se.Sel.Name == f {
							isG = true
						}
					}
					if !isG {
						return
					}
					n++
					found[se.Sel.Name] = true
					if flow == nil {
						flow = eng.NewFlow(info, body)
						ls = eng.NewLockSets(flow)
					}
					key := fmt.Sprintf("%s:%s.%s", label, g.typ, se.Sel.Name)
					ord[key]++
					construct := fmt.Sprintf("%s#%d", key, ord[key])
					pt, ok := flow.PointOf(se)
					if !ok {
						return
					}
					want := eng.ExprStr(se.X) + "." + g.mutex
					held := ls.HeldAt(pt)
					if held[want] && writesThrough(body, se) && !ls.HeldExclusiveAt(pt)[want] {
						c.Bad(rule, construct, se.Pos(), fmt.Sprintf("%s.%s is written while %s is only read-locked (RLock): concurrent writers — and readers holding the same shared lock — race on it", g.typ, se.Sel.Name, want))
						return
					}
					c.Check(held[want], rule, construct, se.Pos(), "accessed with "+want+" held",
						fmt.Sprintf("%s.%s is accessed without %s held on every path (held here: %v): a data race with the other accessors, which all hold that lock", g.typ, se.Sel.Name, want, setKeys(held)))
				})
			})
		}
		for _, f := range g.fields {
			if !found[f] {
				c.Unknown(rule, "anchor:"+g.typ+"."+f, token.NoPos, "anchor-unresolved: guarded field has no access (renamed?)")
			}
		}
	}
	c.Floor(rule, n, 20)
}

// ruleLockEscape: a map-typed value read out of a guarded map must not be used where the lock is
// not held.
func ruleLockEscape(c *eng.Ctx) {
	const rule = "LOCK-ESCAPE"
	n := 0
	for _, g := range guardedTable {
		pkgRel := g.typ[:strings.LastIndex(g.typ, ".")]
		for _, fi := range c.P.FuncsIn(pkgRel) {
			if fi.Decl.Body == nil {
				continue
			}
			info := fi.Pkg.TypesInfo
			forEachBody(fi, func(body *ast.BlockStmt, label string) {
				var flow *eng.FlowGraph
				var ls *eng.LockSets
				inspectNoLits(body, func(m ast.Node) {
					as, ok := m.(*ast.AssignStmt)
					if !ok || len(as.Rhs) != 1 || len(as.Lhs) == 0 {
						return
					}
					ix, ok := ast.Unparen(as.Rhs[0]).(*ast.IndexExpr)
					if !ok {
						return
					}
					se, ok := ast.Unparen(ix.X).(*ast.SelectorExpr)
					if !ok {
						return
					}
					sel, ok := info.Selections[se]
					if !ok || eng.TypeName(sel.Recv()) != g.typ {
						return
					}
					isG := false
					for _, f := range g.fields {
						if se.Sel.Name == f {
							isG = true
						}
					}
					v := eng.ObjOf(info, as.Lhs[0])
					if !isG || v == nil {
						return
					}
					if _, isMap := v.Type().Underlying().(*types.Map); !isMap {
						return
					}
					n++
					if flow == nil {
						flow = eng.NewFlow(info, body)
						ls = eng.NewLockSets(flow)
					}
					want := eng.ExprStr(se.X) + "." + g.mutex
					bad := token.NoPos
					ast.Inspect(body, func(x ast.Node) bool {
						id, ok := x.(*ast.Ident)
						if !ok || info.Uses[id] != v {
							return true
						}
						pt, ok := flow.PointOf(id)
						if ok && !ls.HeldAt(pt)[want] {
							bad = id.Pos()
						}
						return true
					})
					c.Check(!bad.IsValid(), rule, fmt.Sprintf("%s:%s(from %s)", label, v.Name(), se.Sel.Name), as.Pos(),
						"inner map used only while the lock is held",
						fmt.Sprintf("the inner map %s read from %s.%s is used at %s after %s was released, while other goroutines mutate it under the lock", v.Name(), g.typ, se.Sel.Name, c.P.Rel(bad), want))
				})
			})
		}
	}
	c.Notes = append(c.Notes, fmt.Sprintf("LOCK-ESCAPE: %d inner-map loads examined (0 is legitimate: the rule is a bug-pattern rule)", n))
}

// ---------------------------------------------------------------------------------------------
// event bus

func ruleBusConfinement(c *eng.Ctx) {
	const rule = "CONFINEMENT"
	handle := c.Anchor(rule, "event.(*channelBus).handleChannel")
	if handle == nil {
		return
	}
	n := 0
	starts := 0
	for _, fi := range c.P.FuncsIn("event") {
		if fi.Decl.Body == nil {
			continue
		}
		info := fi.Pkg.TypesInfo
		ctor := constructsType(info, fi.Decl.Body, "event.channelBus")
		ord := map[string]int{}
		ast.Inspect(fi.Decl.Body, func(m ast.Node) bool {
			switch x := m.(type) {
			case *ast.SelectorExpr:
				sel, ok := info.Selections[x]
				if !ok || sel.Kind() != types.FieldVal || eng.TypeName(sel.Recv()) != "event.channelBus" {
					return true
				}
				if x.Sel.Name != "subs" && x.Sel.Name != "events" {
					return true
				}
				n++
				k := shortFn(fi) + ":" + x.Sel.Name
				ord[k]++
				c.Check(fi == handle || ctor, rule, fmt.Sprintf("%s#%d", k, ord[k]), x.Pos(), "touched only by the single command loop (or the constructor)",
					"channelBus."+x.Sel.Name+" is touched outside handleChannel: the subscriber tables are unsynchronised and owned by the command loop goroutine")
			case *ast.GoStmt:
				if eng.Callee(info, x.Call) == handle.Obj {
					starts++
					c.Check(ctor, rule, shortFn(fi)+":go-handleChannel", x.Pos(), "command loop started by the constructor", "a second command loop is started: two receivers on commandChannel deliver events out of order and race on the subscriber tables")
				}
			case *ast.UnaryExpr: // <-b.commandChannel
				if x.Op == token.ARROW && isFieldNamed(info, x.X, "commandChannel") {
					c.Check(fi == handle, rule, shortFn(fi)+":recv-commandChannel", x.Pos(), "only handleChannel receives commands", "commandChannel has a receiver outside handleChannel: command order is no longer preserved")
				}
			case *ast.RangeStmt:
				if isFieldNamed(info, x.X, "commandChannel") {
					n++
					c.Check(fi == handle, rule, shortFn(fi)+":range-commandChannel", x.Pos(), "only handleChannel receives commands", "commandChannel has a receiver outside handleChannel: command order is no longer preserved")
				}
			}
			return true
		})
	}
	c.Check(starts == 1, rule, "channelBus:command-loop-started-once", handle.Decl.Pos(), "exactly one `go handleChannel()`", fmt.Sprintf("%d starts of the command loop", starts))
	c.Floor(rule, n, 5)
}

func ruleBusSendLocked(c *eng.Ctx) {
	const rule = "BUS-SEND-LOCKED"
	handle := c.P.Func("event.(*channelBus).handleChannel")
	n := 0
	for _, fi := range c.P.FuncsIn("event") {
		if fi.Decl.Body == nil || fi == handle {
			continue
		}
		info := fi.Pkg.TypesInfo
		forEachBody(fi, func(body *ast.BlockStmt, label string) {
			var flow *eng.FlowGraph
			var ls *eng.LockSets
			k := 0
			inspectNoLits(body, func(m ast.Node) {
				send, ok := m.(*ast.SendStmt)
				if !ok || !isFieldNamed(info, send.Chan, "commandChannel") {
					return
				}
				se := ast.Unparen(send.Chan).(*ast.SelectorExpr)
				if eng.TypeName(info.TypeOf(se.X)) != "event.channelBus" {
					return
				}
				n++
				k++
				if flow == nil {
					flow = eng.NewFlow(info, body)
					ls = eng.NewLockSets(flow)
				}
				pt, ok := flow.PointOf(send)
				if !ok {
					return
				}
				want := eng.ExprStr(se.X) + ".closeMutex"
				c.Check(ls.HeldAt(pt)[want], rule, fmt.Sprintf("%s:send-command#%d:closeMutex-held", label, k), send.Pos(),
					"command sent while closeMutex is held", "a command is sent on commandChannel without closeMutex held: Close may close the channel between the isClosed test and the send (panic: send on closed channel)")
				// the isClosed test precedes the send on every path (Close itself sets it instead)
				tested := !flow.ReachesWithout(pt, func(nd ast.Node) bool {
					f := false
					ast.Inspect(nd, func(x ast.Node) bool {
						if s, ok := x.(*ast.SelectorExpr); ok && s.Sel.Name == "isClosed" {
							f = true
						}
						return true
					})
					return f
				}, nil)
				c.Check(tested, rule, fmt.Sprintf("%s:send-command#%d:isClosed-tested", label, k), send.Pos(), "isClosed consulted before the send", "a command is sent without consulting isClosed first")
			})
		})
	}
	c.Floor(rule, n, 3)
}

// ---------------------------------------------------------------------------------------------
// CONCTXN-WRAP

func ruleConcTxnWrap(c *eng.Ctx) {
	const rule = "CONCTXN-WRAP"
	fi := c.Anchor(rule, "internal/datastore.NewConcurrentTxnFrom")
	if fi == nil {
		return
	}
	info := fi.Pkg.TypesInfo
	// the wrapper variable: a composite literal of concurrentTxn
	var wrapper types.Object
	ast.Inspect(fi.Decl.Body, func(m ast.Node) bool {
		as, ok := m.(*ast.AssignStmt)
		if ok && len(as.Lhs) == 1 && len(as.Rhs) == 1 && eng.TypeName(info.TypeOf(as.Rhs[0])) == "internal/datastore.concurrentTxn" {
			wrapper = eng.ObjOf(info, as.Lhs[0])
		}
		return true
	})
	if wrapper == nil {
		c.Unknown(rule, "NewConcurrentTxnFrom:wrapper", fi.Decl.Pos(), "anchor-unresolved: no concurrentTxn value constructed")
		return
	}
	for _, cs := range eng.Calls(info, fi.Decl.Body) {
		if cs.Name != "internal/datastore.NewMultistore" {
			continue
		}
		ok := len(cs.Call.Args) == 1 && eng.ObjOf(info, cs.Call.Args[0]) == wrapper
		c.Check(ok, rule, "NewConcurrentTxnFrom:multistore-root", cs.Call.Pos(), "the store tree is built from the mutex-holding wrapper",
			"NewMultistore is given "+eng.ExprStr(cs.Call.Args[0])+" instead of the concurrentTxn wrapper: every data/head/block/system store access bypasses the wrapper's mutex, so concurrent calls sharing this transaction race inside the KV transaction")
	}
	// the wrapper overrides every method of corekv.ReaderWriter
	pk := c.P.Pkg("internal/datastore")
	ct, _ := pk.Types.Scope().Lookup("concurrentTxn").(*types.TypeName)
	if ct == nil {
		c.Unknown(rule, "anchor:concurrentTxn", token.NoPos, "anchor-unresolved")
		return
	}
	var rw *types.Interface
	for _, imp := range pk.Types.Imports() {
		if strings.HasSuffix(imp.Path(), "sourcenetwork/corekv") {
			if o, ok := imp.Scope().Lookup("ReaderWriter").(*types.TypeName); ok {
				rw, _ = o.Type().Underlying().(*types.Interface)
			}
		}
	}
	if rw == nil {
		c.Unknown(rule, "anchor:corekv.ReaderWriter", token.NoPos, "anchor-unresolved")
		return
	}
	ptr := types.NewPointer(ct.Type())
	for i := 0; i < rw.NumMethods(); i++ {
		m := rw.Method(i)
		obj, _, _ := types.LookupFieldOrMethod(ptr, true, pk.Types, m.Name())
		own := false
		if f, ok := obj.(*types.Func); ok {
			if sig := f.Type().(*types.Signature); sig.Recv() != nil && eng.TypeName(sig.Recv().Type()) == "internal/datastore.concurrentTxn" {
				own = true
				// and it takes the mutex
				if d := c.P.FuncOfObj(f); d != nil && d.Decl.Body != nil {
					locks := false
					ast.Inspect(d.Decl.Body, func(x ast.Node) bool {
						if se, ok := x.(*ast.SelectorExpr); ok && se.Sel.Name == "Lock" {
							locks = true
						}
						return true
					})
					own = locks
				}
			}
		}
		c.Check(own, rule, "concurrentTxn:overrides("+m.Name()+")", ct.Pos(), "method takes the wrapper's mutex",
			"concurrentTxn does not override corekv.ReaderWriter."+m.Name()+" with a mutex-holding method: that operation reaches the underlying transaction unsynchronised")
	}
}

// ---------------------------------------------------------------------------------------------
// MERGE-QUEUE

func ruleMergeQueue(c *eng.Ctx) {
	const rule = "MERGE-QUEUE"
	fi := c.Anchor(rule, "internal/db.(*mergeQueue).add")
	if fi == nil {
		return
	}
	info := fi.Pkg.TypesInfo
	flow := eng.NewFlow(info, fi.Decl.Body)
	// lookup `done, ok := m.keys[key]`
	var lookup *ast.AssignStmt
	var okObj types.Object
	ast.Inspect(fi.Decl.Body, func(m ast.Node) bool {
		as, isAs := m.(*ast.AssignStmt)
		if isAs && len(as.Lhs) == 2 && len(as.Rhs) == 1 {
			if ix, isIx := ast.Unparen(as.Rhs[0]).(*ast.IndexExpr); isIx && isFieldNamed(info, ix.X, "keys") {
				lookup, okObj = as, eng.ObjOf(info, as.Lhs[1])
			}
		}
		return true
	})
	if lookup == nil {
		c.Unknown(rule, "mergeQueue.add:lookup", fi.Decl.Pos(), "anchor-unresolved: `done, ok := m.keys[key]`")
		return
	}
	// insert only on the absent edge
	ast.Inspect(fi.Decl.Body, func(m ast.Node) bool {
		as, isAs := m.(*ast.AssignStmt)
		if !isAs || len(as.Lhs) != 1 {
			return true
		}
		ix, isIx := ast.Unparen(as.Lhs[0]).(*ast.IndexExpr)
		if !isIx || !isFieldNamed(info, ix.X, "keys") {
			return true
		}
		pt, _ := flow.PointOf(as)
		// reachable while ok == true ?
		reach := flow.ReachesWithout(pt, func(ast.Node) bool { return false }, func(cond ast.Expr, taken bool) bool {
			t := eng.EvalBool(info, cond, func(e ast.Expr) eng.Tri {
				if eng.ObjOf(info, e) == okObj {
					return eng.True
				}
				return eng.Unknown
			})
			switch t {
			case eng.True:
				return taken
			case eng.False:
				return !taken
			}
			return true
		})
		lpt, _ := flow.PointOf(lookup)
		afterLookup := !flow.ReachesWithout(pt, func(nd ast.Node) bool { return nd == lookup }, nil)
		_ = lpt
		c.Check(!reach && afterLookup, rule, "mergeQueue.add:insert-only-when-absent", as.Pos(), "the key is claimed only when no holder exists",
			"mergeQueue.add installs its channel although another holder exists (or without looking): two merges of one document hold the key at once and the overwritten channel is never closed")
		return true
	})
	// after being woken the waiter re-checks: every path from the receive to the exit passes add(key) again or returns to the lookup
	var recv ast.Node
	ast.Inspect(fi.Decl.Body, func(m ast.Node) bool {
		if u, ok := m.(*ast.UnaryExpr); ok && u.Op == token.ARROW {
			recv = u
		}
		return true
	})
	if recv == nil {
		c.Bad(rule, "mergeQueue.add:waits", fi.Decl.Pos(), "add never waits for the current holder")
		return
	}
	rpt, _ := flow.PointOf(recv)
	exits, where := flow.ExitsWithout(rpt, false, func(nd ast.Node) bool {
		if nd == lookup {
			return true
		}
		return eng.FindCall(nd, false, func(call *ast.CallExpr) bool { return eng.Callee(info, call) == fi.Obj }) != nil
	}, nil)
	c.Check(!exits, rule, "mergeQueue.add:recheck-after-wake", recv.Pos(), "a woken waiter competes for the key again",
		"after being woken, add returns at "+c.P.Rel(where)+" without re-checking the map: with two or more waiters all of them proceed at once")
}

// writesThrough reports whether the field selection se is written in body: assigned, assigned through
// an index (m[k] = v), incremented, or the map argument of delete.
func writesThrough(body *ast.BlockStmt, se *ast.SelectorExpr) bool {
	w := false
	root := func(e ast.Expr) ast.Expr {
		e = ast.Unparen(e)
		for {
			if ix, ok := e.(*ast.IndexExpr); ok {
				e = ast.Unparen(ix.X)
				continue
			}
			return e
		}
	}
	ast.Inspect(body, func(m ast.Node) bool {
		switch x := m.(type) {
		case *ast.AssignStmt:
			for _, l := range x.Lhs {
				if root(l) == ast.Expr(se) {
					w = true
				}
			}
		case *ast.IncDecStmt:
			if root(x.X) == ast.Expr(se) {
				w = true
			}
		case *ast.CallExpr:
			if id, ok := x.Fun.(*ast.Ident); ok && id.Name == "delete" && len(x.Args) == 2 && root(x.Args[0]) == ast.Expr(se) {
				w = true
			}
		}
		return !w
	})
	return w
}

// ruleCacheFreshPerCall: the short-id caches carried in the context are plain maps without a lock.
// They are race free only because every API call installs its own, new map (InitContext runs the
// Init…Cache functions for each call): goroutines that share one prepared context or one concurrent
// transaction never share a cache. So each function of internal/db/id that installs a map-typed value
// into the context returns, on every path, context.WithValue(…, <new map>) — never the incoming
// context unchanged and never a map taken from it.
func ruleCacheFreshPerCall(c *eng.Ctx) {
	const rule = "CACHE-FRESH-PER-CALL"
	n := 0
	for _, fi := range c.P.FuncsIn("internal/db/id") {
		if fi.Decl.Body == nil || isTestFile(c.P, fi) {
			continue
		}
		info := fi.Pkg.TypesInfo
		sig := fi.Obj.Type().(*types.Signature)
		if sig.Results().Len() != 1 || eng.TypeName(sig.Results().At(0).Type()) != "context.Context" {
			continue
		}
		fresh := func(e ast.Expr) (isInstall, isFresh bool) {
			call, ok := ast.Unparen(e).(*ast.CallExpr)
			if !ok || eng.CalleeName(info, call) != "context.WithValue" || len(call.Args) != 3 {
				return false, false
			}
			t := info.TypeOf(call.Args[2])
			if t == nil {
				return false, false
			}
			if _, isMap := t.Underlying().(*types.Map); !isMap {
				return false, false
			}
			switch v := ast.Unparen(call.Args[2]).(type) {
			case *ast.CompositeLit:
				return true, true
			case *ast.CallExpr:
				if id, ok := v.Fun.(*ast.Ident); ok && id.Name == "make" {
					return true, true
				}
			}
			return true, false
		}
		installs := false
		ast.Inspect(fi.Decl.Body, func(m ast.Node) bool {
			if e, ok := m.(ast.Expr); ok {
				if is, _ := fresh(e); is {
					installs = true
				}
			}
			return true
		})
		if !installs {
			continue
		}
		n++
		good := true
		pos := fi.Decl.Pos()
		ast.Inspect(fi.Decl.Body, func(m ast.Node) bool {
			if _, ok := m.(*ast.FuncLit); ok {
				return false
			}
			if r, ok := m.(*ast.ReturnStmt); ok && len(r.Results) == 1 {
				if is, fr := fresh(r.Results[0]); !is || !fr {
					good = false
					pos = r.Pos()
				}
			}
			return true
		})
		c.Check(good, rule, shortFn(fi)+":installs-a-new-map-on-every-path", pos, "every call gets its own cache",
			shortFn(fi)+" can return a context whose lock-free cache map is not new (the incoming context, or a map read from it): calls that share a prepared context — several goroutines on one concurrent transaction — then read and write one plain map concurrently")
	}
	c.Floor(rule, n, 2)
}

// atomicFields: long-lived fields that are replaced by one goroutine (a committing schema change) while
// requests of other goroutines read them, with no lock around either side. They are race free exactly
// when the field has a sync/atomic type — then every access is a Load/Store by construction.
var atomicFields = []struct{ typ, field, why string }{
	{"internal/request/graphql.parser", "schemaManager", "replaced in SetSchema's OnSuccess callback, read by every request that is parsed"},
}

// ruleAtomicField checks the table above on the declared type of each field.
func ruleAtomicField(c *eng.Ctx) {
	const rule = "ATOMIC-FIELD"
	for _, af := range atomicFields {
		pkgRel := af.typ[:strings.LastIndex(af.typ, ".")]
		tname := af.typ[strings.LastIndex(af.typ, ".")+1:]
		construct := af.typ + "." + af.field + ":atomic-type"
		var fld *types.Var
		for _, pk := range c.P.Pkgs {
			if eng.ShortPkg(pk.PkgPath) != pkgRel {
				continue
			}
			if tn, ok := pk.Types.Scope().Lookup(tname).(*types.TypeName); ok {
				if st, ok := tn.Type().Underlying().(*types.Struct); ok {
					for i := 0; i < st.NumFields(); i++ {
						if st.Field(i).Name() == af.field {
							fld = st.Field(i)
						}
					}
				}
			}
		}
		if fld == nil {
			c.Unknown(rule, construct, token.NoPos, "anchor-unresolved: "+af.typ+"."+af.field)
			continue
		}
		c.Check(strings.HasPrefix(eng.TypeName(fld.Type()), "sync/atomic."), rule, construct, fld.Pos(), "the field has a sync/atomic type: every access is a Load or a Store",
			af.typ+"."+af.field+" is a plain "+fld.Type().String()+" ("+af.why+"): the write and the concurrent reads are a data race")
	}
}
