package rules

import (
	"fmt"
	"go/ast"
	"go/token"
	"go/types"
	"strings"

	"defracheck/internal/eng"
)

func init() {
	register(&Property{
		ID: "C07",
		Rules: []Rule{
			{"INDEX-PAIRING", ruleIndexPairing},
			{"FILTER-REAPPLY", ruleFilterReapply},
			{"RANGE-TABLE", ruleRangeTable},
			{"UNIQUE-CHECK", ruleUniqueCheck},
			{"KIND-TABLES", ruleKindTables},
			{"ORDER-AGREEMENT", ruleOrderAgreement},
			{"INDEX-UPDATE-TABLE", ruleIndexUpdateTable},
			{"INDEX-COND-CONJUNCTIVE", ruleIndexCondConjunctive},
			{"DECODE-NO-DEFAULTS", ruleDecodeNoDefaults},
			{"UNWRAP-EQ-TIME", ruleUnwrapEqTime},
			{"IN-VALUES-DISTINCT", ruleInValuesDistinct},
			{"SYNC-INDEX-TABLE", ruleSyncIndexTable},
			{"PREFIX-END-SHAPE", rulePrefixEndShape},
			{"RECURSION-ARGS", func(c *eng.Ctx) {
				ruleRecursionArgs(c, "RECURSION-ARGS", []string{"internal/planner/...", "internal/db/...", "internal/connor/...", "client/..."}, 3)
			}},
			{"ERRFLOW", func(c *eng.Ctx) {
				ruleErrFlowCone(c, "ERRFLOW", []string{
					"internal/db.(*collection).indexNewDoc", "internal/db.(*collection).updateIndexedDoc",
					"internal/db.(*collection).deleteIndexedDocWithID", "internal/db.(*collection).deleteIndexedDoc",
					"internal/db.(*collection).addNewIndex", "internal/db.(*collection).dropIndex", "internal/db.syncIndexedDoc",
					"internal/db/fetcher.newIndexFetcher", "internal/db/fetcher.(*indexFetcher).NextDoc", "internal/db/fetcher.(*indexFetcher).GetFields",
				}, []string{"internal/db", "internal/db/fetcher", "internal/keys", "internal/encoding"}, 60)
			}},
		},
		Meta: eng.PropMeta{
			Explanation: "Decides the structural necessary conditions of index/scan equivalence: (INDEX-PAIRING) every mutation route maintains the indexes inside the same transaction — create passes indexNewDoc on every success path, save(update) passes updateIndexedDoc before the first field write, every caller of applyDelete removes the document's index entries first, executeMerge syncs the index of every merged document before Commit, addNewIndex indexes existing documents; (FILTER-REAPPLY) whenever a filter is present the filtered fetcher wraps whatever sits below (index or scan), so an over-approximating index iterator can never return a non-matching document; (RANGE-TABLE) the 2x4 table (descending x {gt,ge,lt,le}) -> (start,end) bounds of createRangeBoundaries equals the order-theoretic oracle (8 cells, exhaustive); (UNIQUE-CHECK) the uniqueness probe dominates the unique key write and its positive edge returns an error; (KIND-TABLES) every kind isSupportedKind admits has a NewNormalNil case; (ERRFLOW) no storage-derived error is dropped in the index maintenance and index fetch cone. (ORDER-AGREEMENT) the index iterators visit values in the direction the planner assumed when it dropped the order node; (INDEX-UPDATE-TABLE) isUpdatingIndexedFields returns 'changed' exactly for the cells (old set?, new set?, equal?) in which an indexed field's value differs, and moves to the next field otherwise; (INDEX-COND-CONJUNCTIVE) every connor operator is classified and the index fetcher's condition search skips every non-conjunctive compound operator (_or, _not); (IN-VALUES-DISTINCT) the _in iterator's value list passes a de-duplicating step; (RECURSION-ARGS) sibling recursive calls agree on pass-through parameters (a skip list or visitor handed down unchanged by one recursive call is not dropped by another). INDEX-COND-CONJUNCTIVE additionally requires that the filter searched for index conditions is not produced by filter.CopyField/Merge (which keep of an _or only the branches mentioning the field and normalize a single one into a plain condition). (PREFIX-END-SHAPE) keys.bytesPrefixEnd works on a copy and returns it cut right after the incremented byte (the bound is used as an exclusive start as well as an end); (SYNC-INDEX-TABLE) as in C01; ORDER-AGREEMENT additionally requires the one-pass-per-value _in iterator to sort its values when the index is relied on for the order. (DECODE-NO-DEFAULTS) the old document that index maintenance reads through Collection.Get holds stored values only: a field explicitly set to null is nil, not its schema default (otherwise the entry to remove is computed from the default and the update fails with 'corrupted index'). (UNWRAP-EQ-TIME) an index matcher that compares two unwrapped values with == compares times by instant first, like the _eq/_ne matchers — a DateTime decoded from a key is in UTC, a filter literal keeps its offset.",
			NotDecided:  "that an under-approximating iterator loses no row (value-dependent: null handling, _like, JSON paths, composite prefixes), correctness of dropping the order node when the index provides the order, equality of result multisets over data",
		},
	})
}

// successReturns lists return statements (outside literals) whose error operand may be nil.
func successReturns(info *types.Info, fd *ast.FuncDecl) []*ast.ReturnStmt {
	return successReturnsP(nil, info, fd)
}

// alwaysError: the callee constructs an error on every return (errors.New / Wrap / fmt.Errorf or
// another such constructor), so `return f(...)` can never report success.
func alwaysError(p *eng.Program, info *types.Info, call *ast.CallExpr, depth int) bool {
	nm := eng.CalleeName(info, call)
	switch nm {
	case "errors.New", "fmt.Errorf", "defradb/errors.New", "errors.New#":
		return true
	}
	if strings.HasSuffix(nm, "errors.New") || strings.HasSuffix(nm, "errors.Wrap") || strings.HasSuffix(nm, "errors.WithStack") {
		return true
	}
	if p == nil || depth == 0 {
		return false
	}
	callee := eng.Callee(info, call)
	fi := p.FuncOfObj(callee)
	if fi == nil || fi.Decl.Body == nil {
		return false
	}
	sig := fi.Obj.Type().(*types.Signature)
	if sig.Results().Len() != 1 || !eng.IsErrorType(sig.Results().At(0).Type()) {
		return false
	}
	all, n := true, 0
	ast.Inspect(fi.Decl.Body, func(m ast.Node) bool {
		if _, ok := m.(*ast.FuncLit); ok {
			return false
		}
		if r, ok := m.(*ast.ReturnStmt); ok {
			n++
			if len(r.Results) != 1 {
				all = false
				return true
			}
			c2, ok := ast.Unparen(r.Results[0]).(*ast.CallExpr)
			if !ok || !alwaysError(p, fi.Pkg.TypesInfo, c2, depth-1) {
				all = false
			}
		}
		return true
	})
	return all && n > 0
}

func successReturnsP(p *eng.Program, info *types.Info, fd *ast.FuncDecl) []*ast.ReturnStmt {
	var out []*ast.ReturnStmt
	ast.Inspect(fd.Body, func(n ast.Node) bool {
		if _, ok := n.(*ast.FuncLit); ok {
			return false
		}
		r, ok := n.(*ast.ReturnStmt)
		if !ok || len(r.Results) == 0 {
			return true
		}
		last := ast.Unparen(r.Results[len(r.Results)-1])
		if tv, ok := info.Types[last]; ok && tv.IsNil() {
			out = append(out, r)
			return true
		}
		switch x := last.(type) {
		case *ast.Ident:
			if v, isVar := info.Uses[x].(*types.Var); isVar && eng.IsErrorType(v.Type()) && v.Parent() != v.Pkg().Scope() && !eng.KnownNonNilAt(info, fd.Body, r, v) {
				out = append(out, r) // (package-level error variables are sentinels: never a success)
			}
		case *ast.CallExpr:
			// `return f(...)`: success depends on f; counts as a possible success exit
			if t := info.TypeOf(x); t != nil && (eng.IsErrorType(t) || isTupleEndingInError(t)) && !alwaysError(p, info, x, 3) {
				out = append(out, r)
			}
		}
		return true
	})
	return out
}

func isTupleEndingInError(t types.Type) bool {
	tup, ok := t.(*types.Tuple)
	return ok && tup.Len() > 0 && eng.IsErrorType(tup.At(tup.Len()-1).Type())
}

// mustPassBefore: every path from the function entry to target passes a node containing a call to
// one of the callees (paths that took the failure edge of an already tested error do not count
// because they cannot reach a success return).
func mustPassBefore(fi *eng.FuncInfo, flow *eng.FlowGraph, target ast.Node, edge func(ast.Expr, bool) bool, callees ...string) bool {
	info := fi.Pkg.TypesInfo
	pt, ok := flow.PointOf(target)
	if !ok {
		return true
	}
	return !flow.ReachesWithout(pt, func(n ast.Node) bool {
		if n == target {
			return false
		}
		return eng.ContainsCallTo(info, n, false, callees...) != nil
	}, edge)
}

func ruleIndexPairing(c *eng.Ctx) {
	const rule = "INDEX-PAIRING"
	// (a) delete: every caller of applyDelete removes index entries first
	applyDelete := c.Anchor(rule, "internal/db.(*collection).applyDelete")
	n := 0
	if applyDelete != nil {
		for _, fi := range c.P.FuncsIn("internal/db") {
			if fi.Decl.Body == nil {
				continue
			}
			info := fi.Pkg.TypesInfo
			var flow *eng.FlowGraph
			ord := 0
			for _, cs := range eng.Calls(info, fi.Decl.Body) {
				if cs.Callee != applyDelete.Obj {
					continue
				}
				n++
				ord++
				if flow == nil {
					flow = eng.NewFlow(info, fi.Decl.Body)
				}
				ok := cs.Lit == nil && mustPassBefore(fi, flow, cs.Call, nil,
					"internal/db.(*collection).deleteIndexedDocWithID", "internal/db.(*collection).deleteIndexedDoc")
				c.Check(ok, rule, fmt.Sprintf("%s→applyDelete#%d:index-entries-removed-first", shortFn(fi), ord), cs.Call.Pos(),
					"index entries of the document are removed before the delete is applied",
					"applyDelete is reached without deleteIndexedDoc/deleteIndexedDocWithID on some path: the deleted document's index entries stay behind (index-backed queries still consider it; a unique index keeps rejecting its value)")
			}
		}
	}
	c.Floor(rule+"", n, 2)

	// (b) create: every success exit of collection.create passes indexNewDoc
	if fi := c.Anchor(rule, "internal/db.(*collection).create"); fi != nil {
		info := fi.Pkg.TypesInfo
		flow := eng.NewFlow(info, fi.Decl.Body)
		for i, r := range successReturnsP(c.P, info, fi.Decl) {
			ok := mustPassBefore(fi, flow, r, happyEdge(info), "internal/db.(*collection).indexNewDoc")
			c.Check(ok, rule, fmt.Sprintf("create:success-return#%d:indexNewDoc", i+1), r.Pos(),
				"create indexes the new document before reporting success", "a success return of create is reachable without indexNewDoc: the new document is invisible to index-backed queries")
		}
	}
	// (c) update: save(isCreate=false) passes updateIndexedDoc before any AddDelta
	if fi := c.Anchor(rule, "internal/db.(*collection).save"); fi != nil {
		info := fi.Pkg.TypesInfo
		flow := eng.NewFlow(info, fi.Decl.Body)
		var isCreate types.Object
		for _, p := range paramObjs(info, fi.Decl) {
			if b, ok := p.Type().Underlying().(*types.Basic); ok && b.Kind() == types.Bool {
				isCreate = p
			}
		}
		edge := func(cond ast.Expr, taken bool) bool {
			t := eng.EvalBool(info, cond, func(e ast.Expr) eng.Tri {
				if isCreate != nil && eng.ObjOf(info, e) == isCreate {
					return eng.False
				}
				return eng.Unknown
			})
			switch t {
			case eng.True:
				return taken
			case eng.False:
				return !taken
			}
			return true
		}
		k := 0
		for _, cs := range eng.Calls(info, fi.Decl.Body) {
			if cs.Name != "internal/core/block.AddDelta" || cs.Lit != nil {
				continue
			}
			k++
			ok := mustPassBefore(fi, flow, cs.Call, edge, "internal/db.(*collection).updateIndexedDoc")
			c.Check(ok, rule, fmt.Sprintf("save(update)→AddDelta#%d:updateIndexedDoc-first", k), cs.Call.Pos(),
				"on the update path the index entries are updated before the field writes", "an update writes field state without first updating the secondary indexes (old entries stay, new ones are missing)")
		}
		if k == 0 {
			c.Unknown(rule, "save:AddDelta", fi.Decl.Pos(), "anchor-unresolved: save no longer calls coreblock.AddDelta")
		}
	}
	// (d) merge: Commit of executeMerge is preceded by syncIndexedDoc over the merged doc ids
	if fi := c.Anchor(rule, "internal/db.(*DB).executeMerge"); fi != nil {
		info := fi.Pkg.TypesInfo
		flow := eng.NewFlow(info, fi.Decl.Body)
		var loopX ast.Expr
		ast.Inspect(fi.Decl.Body, func(m ast.Node) bool {
			rs, ok := m.(*ast.RangeStmt)
			if ok && eng.ContainsCallTo(info, rs.Body, false, "internal/db.syncIndexedDoc") != nil {
				if se, ok := ast.Unparen(rs.X).(*ast.SelectorExpr); ok && se.Sel.Name == "docIDs" {
					loopX = rs.X
				}
			}
			return true
		})
		for _, cs := range eng.Calls(info, fi.Decl.Body) {
			if !strings.HasSuffix(cs.Name, ".Commit") || cs.Lit != nil {
				continue
			}
			ok := false
			if loopX != nil {
				pt, _ := flow.PointOf(cs.Call)
				ok = !flow.ReachesWithout(pt, func(nd ast.Node) bool { return nd == loopX }, happyEdge(info))
			}
			c.Check(ok, rule, "executeMerge:commit:after-syncIndexedDoc", cs.Call.Pos(),
				"the indexes of every merged document are synchronised before the merge commits",
				"executeMerge commits without ranging over the merged docIDs with syncIndexedDoc first: remote changes never reach the secondary indexes (or reach them in another transaction)")
		}
	}
	// (e) addNewIndex indexes the existing documents
	if fi := c.Anchor(rule, "internal/db.(*collection).addNewIndex"); fi != nil {
		info := fi.Pkg.TypesInfo
		flow := eng.NewFlow(info, fi.Decl.Body)
		for i, r := range successReturnsP(c.P, info, fi.Decl) {
			ok := mustPassBefore(fi, flow, r, happyEdge(info), "internal/db.(*collection).indexExistingDocs")
			c.Check(ok, rule, fmt.Sprintf("addNewIndex:success-return#%d:indexExistingDocs", i+1), r.Pos(),
				"a new index is populated from the existing documents", "addNewIndex can succeed without indexing the existing documents")
		}
	}
}

// happyEdge prunes failure edges: `err != nil` is taken as false for any error-typed operand.
func happyEdge(info *types.Info) func(ast.Expr, bool) bool {
	return func(cond ast.Expr, taken bool) bool {
		t := eng.EvalBool(info, cond, func(e ast.Expr) eng.Tri {
			if be, ok := ast.Unparen(e).(*ast.BinaryExpr); ok && (be.Op == token.EQL || be.Op == token.NEQ) {
				if t := info.TypeOf(be.X); t != nil && eng.IsErrorType(t) {
					if yv, ok := info.Types[be.Y]; ok && yv.IsNil() {
						return eng.TriOf(be.Op == token.EQL)
					}
				}
			}
			return eng.Unknown
		})
		switch t {
		case eng.True:
			return taken
		case eng.False:
			return !taken
		}
		return true
	}
}

func happyAtom(info *types.Info, e ast.Expr) eng.Tri {
	if be, ok := ast.Unparen(e).(*ast.BinaryExpr); ok && (be.Op == token.EQL || be.Op == token.NEQ) {
		if t := info.TypeOf(be.X); t != nil && eng.IsErrorType(t) {
			if yv, ok := info.Types[be.Y]; ok && yv.IsNil() {
				return eng.TriOf(be.Op == token.EQL)
			}
		}
	}
	return eng.Unknown
}

// ---------------------------------------------------------------------------------------------
// FILTER-REAPPLY (and the fetcher stack table shared with C10's ACP-WRAP)

// fetcherStack enumerates, for a valuation of (filter present, acp present), the sequences of
// assignments to the local `top` fetcher in wrappingFetcher.Start that reach `f.fetcher = top`.
func fetcherStack(c *eng.Ctx, rule string, filter, acp eng.Tri) (seqs [][]string, pos token.Pos, ok bool) {
	fi := c.Anchor(rule, "internal/db/fetcher.(*wrappingFetcher).Start")
	if fi == nil {
		return nil, 0, false
	}
	info := fi.Pkg.TypesInfo
	// the local being built: the variable assigned to the receiver's `fetcher` field at the end
	var top types.Object
	var final *ast.AssignStmt
	ast.Inspect(fi.Decl.Body, func(m ast.Node) bool {
		as, isAs := m.(*ast.AssignStmt)
		if isAs && len(as.Lhs) == 1 && len(as.Rhs) == 1 && isFieldNamed(info, as.Lhs[0], "fetcher") {
			if o := eng.ObjOf(info, as.Rhs[0]); o != nil {
				top, final = o, as
			}
		}
		return true
	})
	if top == nil {
		c.Unknown(rule, "wrappingFetcher.Start:top", fi.Decl.Pos(), "anchor-unresolved: no `f.fetcher = <local>` assignment")
		return nil, 0, false
	}
	var decl ast.Node
	ast.Inspect(fi.Decl.Body, func(m ast.Node) bool {
		if ds, isDs := m.(*ast.DeclStmt); isDs {
			if gd, isGd := ds.Decl.(*ast.GenDecl); isGd {
				for _, sp := range gd.Specs {
					if vs, isVs := sp.(*ast.ValueSpec); isVs {
						for _, nm := range vs.Names {
							if info.Defs[nm] == top {
								decl = ds
							}
						}
					}
				}
			}
		}
		return true
	})
	flow := eng.NewFlow(info, fi.Decl.Body)
	spec := eng.PathSpec{
		Cond: func(br eng.Branch) eng.Tri {
			return eng.BranchTri(info, br, func(e ast.Expr) eng.Tri {
				if t := happyAtom(info, e); t != eng.Unknown {
					return t
				}
				s := eng.ExprStr(ast.Unparen(e))
				switch {
				case strings.HasSuffix(s, ".filter != nil"):
					return filter
				case strings.HasSuffix(s, ".filter == nil"):
					return filter.Not()
				case strings.HasSuffix(s, ".documentACP.HasValue()"):
					return acp
				}
				return eng.Unknown
			})
		},
		Effect: func(n ast.Node) string {
			as, isAs := n.(*ast.AssignStmt)
			if !isAs {
				return ""
			}
			if as == final {
				return "FINAL"
			}
			for i, l := range as.Lhs {
				if eng.ObjOf(info, l) != top {
					continue
				}
				r := as.Rhs[0]
				if len(as.Rhs) == len(as.Lhs) {
					r = as.Rhs[i]
				}
				if call, isCall := ast.Unparen(r).(*ast.CallExpr); isCall {
					nm := eng.CalleeName(info, call)
					wraps := false
					for _, a := range call.Args {
						if eng.ObjOf(info, a) == top {
							wraps = true
						}
					}
					lbl := nm[strings.LastIndex(nm, ".")+1:]
					if wraps {
						lbl += "(top)"
					}
					return lbl
				}
				if o := eng.ObjOf(info, r); o != nil {
					return "=" + o.Name()
				}
				return "=?"
			}
			return ""
		},
		MaxPaths: 20000,
	}
	if decl != nil {
		if pt, found := flow.PointOf(decl); found {
			spec.Start = &pt
		}
	}
	outs, trunc := flow.Paths(spec)
	if trunc {
		c.Unknown(rule, "wrappingFetcher.Start:paths", fi.Decl.Pos(), "path enumeration truncated")
		return nil, 0, false
	}
	seen := map[string]bool{}
	for _, o := range outs {
		hasFinal := false
		var seq []string
		for _, e := range o.Effects {
			if e == "FINAL" {
				hasFinal = true
				break
			}
			seq = append(seq, e)
		}
		if !hasFinal {
			continue
		}
		k := strings.Join(seq, " > ")
		if !seen[k] {
			seen[k] = true
			seqs = append(seqs, seq)
		}
	}
	return seqs, final.Pos(), true
}

func ruleFilterReapply(c *eng.Ctx) {
	const rule = "FILTER-REAPPLY"
	seqs, pos, ok := fetcherStack(c, rule, eng.True, eng.Unknown)
	if !ok {
		return
	}
	if len(seqs) == 0 {
		c.Unknown(rule, "wrappingFetcher.Start:stacks", pos, "no path reaches the final fetcher assignment")
		return
	}
	for _, seq := range seqs {
		filt, lastBase := -1, -1
		for i, e := range seq {
			if e == "newFilteredFetcher(top)" {
				filt = i
			} else if !strings.HasSuffix(e, "(top)") || e == "newMultiFetcher(top)" {
				lastBase = i
			}
		}
		c.Check(filt > lastBase, rule, "Start:filter-present:stack("+strings.Join(seq, " > ")+")", pos,
			"the filtered fetcher wraps every document source of the stack", "with a filter present the fetcher stack is ["+strings.Join(seq, " > ")+"]: a document source is not below the filtered fetcher, so documents that do not match the filter can be returned when that source over-approximates (index iterators do)")
	}
	c.Floor(rule, len(seqs), 2)
}

// ---------------------------------------------------------------------------------------------
// RANGE-TABLE

func ruleRangeTable(c *eng.Ctx) {
	const rule = "RANGE-TABLE"
	fi := c.Anchor(rule, "internal/db/fetcher.(*indexFetcher).createRangeBoundaries")
	if fi == nil {
		return
	}
	info := fi.Pkg.TypesInfo
	ps := paramObjs(info, fi.Decl)
	var desc types.Object
	for _, p := range ps {
		if b, ok := p.Type().Underlying().(*types.Basic); ok && b.Kind() == types.Bool {
			desc = p
		}
	}
	var results []types.Object
	if fi.Decl.Type.Results != nil {
		for _, f := range fi.Decl.Type.Results.List {
			for _, nm := range f.Names {
				results = append(results, info.Defs[nm])
			}
		}
	}
	ops := map[string]types.Object{}
	for _, nm := range []string{"opGt", "opGe", "opLt", "opLe"} {
		ops[nm] = lookupObj(c.P, "internal/db/fetcher", nm)
	}
	if desc == nil || len(results) < 2 || ops["opGt"] == nil || ops["opGe"] == nil || ops["opLt"] == nil || ops["opLe"] == nil {
		c.Unknown(rule, "createRangeBoundaries:slots", fi.Decl.Pos(), "anchor-unresolved: bool parameter, named (start,end) results or op constants")
		return
	}
	// value-key variables and the base key
	valVars := map[types.Object]bool{}
	var base types.Object
	ast.Inspect(fi.Decl.Body, func(m ast.Node) bool {
		as, ok := m.(*ast.AssignStmt)
		if !ok || len(as.Lhs) != 1 || len(as.Rhs) != 1 {
			return true
		}
		if call, ok := as.Rhs[0].(*ast.CallExpr); ok && eng.CalleeName(info, call) == "internal/db/fetcher.(*indexFetcher).createKeyWithValue" {
			valVars[eng.ObjOf(info, as.Lhs[0])] = true
			if len(call.Args) > 0 {
				base = eng.ObjOf(info, call.Args[0])
			}
		}
		return true
	})
	if base == nil {
		c.Unknown(rule, "createRangeBoundaries:keys", fi.Decl.Pos(), "anchor-unresolved: createKeyWithValue(base, value)")
		return
	}
	flow := eng.NewFlow(info, fi.Decl.Body)
	oracle := map[string][2]string{ // ascending
		"opGt": {"val.PrefixEnd", "base.PrefixEnd"},
		"opGe": {"val.Bytes", "base.PrefixEnd"},
		"opLt": {"base.Bytes", "val.Bytes"},
		"opLe": {"base.Bytes", "val.PrefixEnd"},
	}
	mirror := map[string]string{"opGt": "opLt", "opGe": "opLe", "opLt": "opGt", "opLe": "opGe"}
	for _, d := range []bool{false, true} {
		for _, op := range []string{"opGt", "opGe", "opLt", "opLe"} {
			atom := func(e ast.Expr) eng.Tri {
				if t := happyAtom(info, e); t != eng.Unknown {
					return t
				}
				e = ast.Unparen(e)
				if eng.ObjOf(info, e) == desc {
					return eng.TriOf(d)
				}
				if be, ok := e.(*ast.BinaryExpr); ok && (be.Op == token.EQL || be.Op == token.NEQ) {
					var other types.Object
					if isFieldNamed(info, be.X, "op") {
						other = selObj(info, be.Y)
					} else if isFieldNamed(info, be.Y, "op") {
						other = selObj(info, be.X)
					}
					if other != nil {
						for nm, o := range ops {
							if o == other {
								return eng.TriOf((nm == op) == (be.Op == token.EQL))
							}
						}
					}
				}
				return eng.Unknown
			}
			outs, trunc := flow.Paths(eng.PathSpec{
				Cond: func(br eng.Branch) eng.Tri { return eng.BranchTri(info, br, atom) },
				Effect: func(n ast.Node) string {
					as, ok := n.(*ast.AssignStmt)
					if !ok || len(as.Lhs) != 1 || len(as.Rhs) != 1 {
						return ""
					}
					which := ""
					switch eng.ObjOf(info, as.Lhs[0]) {
					case results[0]:
						which = "start"
					case results[1]:
						which = "end"
					default:
						return ""
					}
					call, ok := ast.Unparen(as.Rhs[0]).(*ast.CallExpr)
					if !ok {
						return which + "=?"
					}
					se, ok := call.Fun.(*ast.SelectorExpr)
					if !ok {
						return which + "=?"
					}
					o := eng.ObjOf(info, se.X)
					src := "?"
					if o == base {
						src = "base"
					} else if valVars[o] {
						src = "val"
					}
					return which + "=" + src + "." + se.Sel.Name
				},
			})
			got := map[string]bool{}
			for _, o := range outs {
				if o.Kind != "return" {
					continue
				}
				start, end := "unset", "unset"
				for _, e := range o.Effects {
					if strings.HasPrefix(e, "start=") {
						start = strings.TrimPrefix(e, "start=")
					}
					if strings.HasPrefix(e, "end=") {
						end = strings.TrimPrefix(e, "end=")
					}
				}
				got["("+start+", "+end+")"] = true
			}
			eff := op
			if d {
				eff = mirror[op]
			}
			want := "(" + oracle[eff][0] + ", " + oracle[eff][1] + ")"
			keys := setKeys(got)
			construct := fmt.Sprintf("createRangeBoundaries:cell(descending=%v,%s)", d, op)
			if trunc {
				c.Unknown(rule, construct, fi.Decl.Pos(), "path enumeration truncated")
				continue
			}
			c.Check(len(keys) == 1 && keys[0] == want, rule, construct, fi.Decl.Pos(), "bounds "+want,
				fmt.Sprintf("bounds are %v; over keys <base>/<value>/<docID> with an exclusive end the condition requires %s — the index would return rows outside (or miss rows inside) the range", keys, want))
		}
	}
}

// ---------------------------------------------------------------------------------------------
// UNIQUE-CHECK

func ruleUniqueCheck(c *eng.Ctx) {
	const rule = "UNIQUE-CHECK"
	if fi := c.Anchor(rule, "internal/db.addNewUniqueKey"); fi != nil {
		info := fi.Pkg.TypesInfo
		flow := eng.NewFlow(info, fi.Decl.Body)
		k := 0
		for _, cs := range eng.Calls(info, fi.Decl.Body) {
			if cs.Name != "github.com/sourcenetwork/corekv.(Writer).Set" {
				continue
			}
			k++
			ok := mustPassBefore(fi, flow, cs.Call, nil, "internal/db.validateUniqueKeyValue")
			c.Check(ok, rule, fmt.Sprintf("addNewUniqueKey:Set#%d:probe-first", k), cs.Call.Pos(),
				"uniqueness probe dominates the write", "the unique key is written on a path that has not probed for an existing entry")
			// failure edge of the probe must not reach the Set
			for _, es := range eng.ErrFlow(info, fi.Decl.Body, nil) {
				if es.Callee != "internal/db.validateUniqueKeyValue" {
					continue
				}
				c.Check(es.Finding == nil, rule, "addNewUniqueKey:probe-error-returned", es.Call.Pos(),
					"a positive probe aborts the write", "the result of the uniqueness probe is dropped: a duplicate value is written")
			}
		}
		if k == 0 {
			c.Unknown(rule, "addNewUniqueKey:Set", fi.Decl.Pos(), "anchor-unresolved: no store write")
		}
	}
	if fi := c.Anchor(rule, "internal/db.validateUniqueKeyValue"); fi != nil {
		info := fi.Pkg.TypesInfo
		var def *ast.AssignStmt
		var exists types.Object
		ast.Inspect(fi.Decl.Body, func(m ast.Node) bool {
			as, ok := m.(*ast.AssignStmt)
			if ok && len(as.Rhs) == 1 && len(as.Lhs) == 2 {
				if call, ok := as.Rhs[0].(*ast.CallExpr); ok && eng.CalleeName(info, call) == "github.com/sourcenetwork/corekv.(Reader).Has" {
					def, exists = as, eng.ObjOf(info, as.Lhs[0])
				}
			}
			return true
		})
		if def == nil {
			c.Unknown(rule, "validateUniqueKeyValue:Has", fi.Decl.Pos(), "anchor-unresolved: no Has probe")
			return
		}
		flow := eng.NewFlow(info, fi.Decl.Body)
		start, _ := flow.PointOf(def)
		outs, _ := flow.Paths(eng.PathSpec{Start: &start, Cond: func(br eng.Branch) eng.Tri {
			return eng.BranchTri(info, br, func(e ast.Expr) eng.Tri {
				if t := happyAtom(info, e); t != eng.Unknown {
					return t
				}
				if eng.ObjOf(info, e) == exists {
					return eng.True
				}
				return eng.Unknown
			})
		}})
		good := len(outs) > 0
		var got []string
		for _, o := range outs {
			s := o.Sig(info)
			got = append(got, s)
			if o.Kind != "return" || o.Ret == nil || len(o.Ret.Results) != 1 || eng.RetVal(info, o.Ret.Results[0]) == "nil" {
				good = false
			}
		}
		c.Check(good, rule, "validateUniqueKeyValue:exists⇒error", def.Pos(), "an existing entry yields the uniqueness error",
			fmt.Sprintf("with an existing entry the probe yields %v (must be a non-nil error)", got))
	}
}

// ---------------------------------------------------------------------------------------------
// KIND-TABLES

func caseConsts(info *types.Info, fd *ast.FuncDecl) map[string]bool {
	out := map[string]bool{}
	ast.Inspect(fd.Body, func(m ast.Node) bool {
		cc, ok := m.(*ast.CaseClause)
		if !ok {
			return true
		}
		for _, e := range cc.List {
			if o := selObj(info, e); o != nil {
				if _, isConst := o.(*types.Const); isConst {
					out[o.Name()] = true
				}
			}
		}
		return true
	})
	return out
}

func ruleKindTables(c *eng.Ctx) {
	const rule = "KIND-TABLES"
	sup := c.Anchor(rule, "internal/db.isSupportedKind")
	nn := c.Anchor(rule, "client.NewNormalNil")
	if sup == nil || nn == nil {
		return
	}
	supported := caseConsts(sup.Pkg.TypesInfo, sup.Decl)
	nils := caseConsts(nn.Pkg.TypesInfo, nn.Decl)
	for _, k := range sortedKeys(supported) {
		c.Check(nils[k], rule, "isSupportedKind("+k+")⊆NewNormalNil", sup.Decl.Pos(),
			"indexable kind has a typed nil", "kind "+k+" is indexable but client.NewNormalNil has no case for it: a null value of that kind cannot be written to / read from an index entry")
	}
	c.Floor(rule, len(supported), 10)
}

// orderAgreeExceptions: iterator constructors that need not consult the requested order.
var orderAgreeExceptions = map[string]string{
	"newEqSingleIndexIterator": "yields at most one entry (unique index fetched by its full key): order is trivial",
}

// ruleOrderAgreement: the planner drops the order node whenever CanBeOrderedByIndex holds for the
// chosen index; every index iterator the fetcher can create for a query must therefore consult the
// same predicate and read the index in the direction it reports.
func ruleOrderAgreement(c *eng.Ctx) {
	const rule = "ORDER-AGREEMENT"
	// planner side: isOrderedByIndex decides with CanBeOrderedByIndex
	if fi := c.Anchor(rule, "internal/planner.isOrderedByIndex"); fi != nil {
		ok := eng.ContainsCallTo(fi.Pkg.TypesInfo, fi.Decl.Body, false, "internal/db/fetcher.CanBeOrderedByIndex") != nil
		c.Check(ok, rule, "planner.isOrderedByIndex:uses(CanBeOrderedByIndex)", fi.Decl.Pos(), "planner elides the order node exactly when CanBeOrderedByIndex holds", "the planner no longer decides order elision with fetcher.CanBeOrderedByIndex: planner and fetcher can disagree on who orders the result")
	}
	root := c.Anchor(rule, "internal/db/fetcher.(*indexFetcher).createIndexIterator")
	if root == nil {
		return
	}
	info := root.Pkg.TypesInfo
	n := 0
	seen := map[string]bool{}
	consults := func(fi *eng.FuncInfo) bool {
		if eng.ContainsCallTo(fi.Pkg.TypesInfo, fi.Decl.Body, true, "internal/db/fetcher.CanBeOrderedByIndex") != nil {
			return true
		}
		return false
	}
	for _, cs := range eng.Calls(info, root.Decl.Body) {
		g := c.P.FuncOfObj(cs.Callee)
		if g == nil || g.Pkg != root.Pkg || g.Decl.Body == nil {
			continue
		}
		sig := g.Obj.Type().(*types.Signature)
		if sig.Results().Len() == 0 {
			continue
		}
		rt := eng.TypeName(sig.Results().At(0).Type())
		if !strings.Contains(strings.ToLower(rt), "iterator") {
			continue
		}
		name := g.Obj.Name()
		if seen[name] {
			continue
		}
		seen[name] = true
		n++
		if why, ok := orderAgreeExceptions[name]; ok {
			c.OK(rule, "createIndexIterator→"+name, cs.Call.Pos(), "tabled exception: "+why)
			continue
		}
		c.Check(consults(g), rule, "createIndexIterator→"+name+":consults-requested-order", cs.Call.Pos(), "the iterator reads the index in the direction CanBeOrderedByIndex reports",
			name+" creates an index iterator without consulting CanBeOrderedByIndex: when the planner relies on the index for the requested order (and drops the order node) this iterator yields the documents in another order")
	}
	c.Floor(rule, n, 4)
	// both answers of CanBeOrderedByIndex are used: the "ordered" answer must not be discarded, and an
	// iterator that makes one pass per listed value (inIndexIterator) visits the values in index order
	// when the index is relied on: its value list is sorted under the "ordered" answer
	for _, g := range c.P.FuncsIn("internal/db/fetcher") {
		if g.Decl.Body == nil || isTestFile(c.P, g) {
			continue
		}
		ginfo := g.Pkg.TypesInfo
		buildsIn := false
		var valuesObj types.Object
		ast.Inspect(g.Decl.Body, func(m ast.Node) bool {
			if cl, ok := m.(*ast.CompositeLit); ok && eng.TypeName(ginfo.TypeOf(cl)) == "internal/db/fetcher.inIndexIterator" {
				buildsIn = true
				for _, el := range cl.Elts {
					if kv, ok := el.(*ast.KeyValueExpr); ok {
						if id, ok := kv.Key.(*ast.Ident); ok && id.Name == "inValues" {
							valuesObj = eng.ObjOf(ginfo, kv.Value)
						}
					}
				}
			}
			return true
		})
		if !buildsIn {
			continue
		}
		var orderedObj types.Object
		ast.Inspect(g.Decl.Body, func(m ast.Node) bool {
			if as, ok := m.(*ast.AssignStmt); ok && len(as.Rhs) == 1 && len(as.Lhs) == 2 {
				if call, ok := ast.Unparen(as.Rhs[0]).(*ast.CallExpr); ok && eng.CalleeName(ginfo, call) == "internal/db/fetcher.CanBeOrderedByIndex" {
					orderedObj = eng.ObjOf(ginfo, as.Lhs[0])
				}
			}
			return true
		})
		sortedUnderOrdered := false
		if orderedObj != nil && valuesObj != nil {
			ast.Inspect(g.Decl.Body, func(m ast.Node) bool {
				is, ok := m.(*ast.IfStmt)
				if !ok || !mentionsObj(ginfo, is.Cond, orderedObj) {
					return true
				}
				ast.Inspect(is.Body, func(x ast.Node) bool {
					if call, ok := x.(*ast.CallExpr); ok {
						nm := eng.CalleeName(ginfo, call)
						if (strings.HasPrefix(nm, "slices.Sort") || strings.HasPrefix(nm, "sort.S")) && len(call.Args) > 0 && eng.ObjOf(ginfo, call.Args[0]) == valuesObj {
							sortedUnderOrdered = true
						}
					}
					return true
				})
				return true
			})
		}
		c.Check(sortedUnderOrdered, rule, shortFn(g)+":in-values-visited-in-index-order", g.Decl.Pos(), "the listed values are sorted when the index is relied on for the order",
			"the iterator makes one pass over the index per listed value but does not sort the values when CanBeOrderedByIndex reports that the index provides the requested order: the planner has dropped the order node, so `_in: [5, 2, 1]` with `order:` comes back in list order")
	}
}

// ruleIndexUpdateTable: decision table of isUpdatingIndexedFields over (old value present, new value
// present, values equal) for one indexed field: absent/absent and present/present/equal go on to
// the next field, absent/present and present/present/different report an update; after the last
// field the answer is "no update".
func ruleIndexUpdateTable(c *eng.Ctx) {
	const rule = "INDEX-UPDATE-TABLE"
	fi := c.Anchor(rule, "internal/db.isUpdatingIndexedFields")
	if fi == nil {
		return
	}
	info := fi.Pkg.TypesInfo
	ps := paramObjs(info, fi.Decl)
	if len(ps) != 3 {
		c.Unknown(rule, "isUpdatingIndexedFields:params", fi.Decl.Pos(), "anchor-unresolved: (index, oldDoc, newDoc)")
		return
	}
	oldDoc, newDoc := ps[1], ps[2]
	var oldErr, newErr types.Object
	var first *ast.AssignStmt
	ast.Inspect(fi.Decl.Body, func(m ast.Node) bool {
		as, ok := m.(*ast.AssignStmt)
		if !ok || len(as.Rhs) != 1 || len(as.Lhs) != 2 {
			return true
		}
		call, ok := as.Rhs[0].(*ast.CallExpr)
		if !ok || eng.CalleeName(info, call) != "client.(*Document).GetValue" {
			return true
		}
		se := call.Fun.(*ast.SelectorExpr)
		switch eng.ObjOf(info, se.X) {
		case oldDoc:
			oldErr = eng.ObjOf(info, as.Lhs[1])
			if first == nil {
				first = as
			}
		case newDoc:
			newErr = eng.ObjOf(info, as.Lhs[1])
		}
		return true
	})
	if oldErr == nil || newErr == nil {
		c.Unknown(rule, "isUpdatingIndexedFields:slots", fi.Decl.Pos(), "anchor-unresolved: GetValue on the old and the new document")
		return
	}
	flow := eng.NewFlow(info, fi.Decl.Body)
	type cell struct {
		oldPresent, newPresent, equal bool
		want                          string
	}
	cells := []cell{
		{false, false, true, "next-field"},
		{false, true, false, "true"},
		{true, true, true, "next-field"},
		{true, true, false, "true"},
	}
	for _, cl := range cells {
		atom := func(e ast.Expr) eng.Tri {
			e = ast.Unparen(e)
			if is, nonNil := eng.ErrNilTest(info, e, oldErr); is {
				return eng.TriOf(nonNil == !cl.oldPresent)
			}
			if is, nonNil := eng.ErrNilTest(info, e, newErr); is {
				return eng.TriOf(nonNil == !cl.newPresent)
			}
			if call, ok := e.(*ast.CallExpr); ok {
				if se, ok := call.Fun.(*ast.SelectorExpr); ok && se.Sel.Name == "Equal" {
					return eng.TriOf(cl.equal)
				}
			}
			return eng.Unknown
		}
		outs, _ := flow.Paths(eng.PathSpec{
			Cond: func(br eng.Branch) eng.Tri { return eng.BranchTri(info, br, atom) },
			Effect: func(n ast.Node) string {
				if n == ast.Node(first) {
					return "field"
				}
				return ""
			},
		})
		got := map[string]bool{}
		for _, o := range outs {
			if len(o.Effects) == 0 {
				continue
			}
			switch o.Kind {
			case "loop":
				got["next-field"] = true
			case "return":
				if len(o.Effects) >= 1 && o.Ret != nil && len(o.Ret.Results) == 1 {
					// a return reached after leaving the loop (all fields seen) counts as next-field for this cell
					if !within(o.Ret, loopOf(fi.Decl.Body, first)) {
						got["next-field"] = true
						continue
					}
					switch eng.EvalBool(info, o.Ret.Results[0], atom) {
					case eng.True:
						got["true"] = true
					case eng.False:
						got["false"] = true
					default:
						got["undecided:"+eng.ExprStr(o.Ret.Results[0])] = true
					}
				}
			}
		}
		keys := setKeys(got)
		c.Check(len(keys) == 1 && keys[0] == cl.want, rule, fmt.Sprintf("isUpdatingIndexedFields:cell(old=%v,new=%v,equal=%v)", cl.oldPresent, cl.newPresent, cl.equal), fi.Decl.Pos(), cl.want,
			fmt.Sprintf("for this field state the function does %v, required %q: an update of a later field of a composite index is not propagated to the index (or every update rewrites it)", keys, cl.want))
	}
}
