package eng

import (
	"go/ast"
	"go/token"
	"go/types"
	"sort"
	"strings"

	"golang.org/x/tools/go/packages"
	"golang.org/x/tools/go/types/typeutil"
)

// QualName renders a types.Func as "<pkgpath-relative-to-module>.(*T).M" or "<pkg>.F".
// Third-party packages keep their full path.
func QualName(f *types.Func) string {
	if f == nil {
		return ""
	}
	pk := ""
	if f.Pkg() != nil {
		pk = ShortPkg(f.Pkg().Path())
	}
	sig, _ := f.Type().(*types.Signature)
	if sig != nil && sig.Recv() != nil {
		return pk + "." + recvString(sig.Recv().Type()) + "." + f.Name()
	}
	return pk + "." + f.Name()
}

func ShortPkg(path string) string {
	if path == Module {
		return "defradb"
	}
	if strings.HasPrefix(path, Module+"/") {
		return path[len(Module)+1:]
	}
	return path
}

func recvString(t types.Type) string {
	ptr := false
	if p, ok := t.(*types.Pointer); ok {
		ptr = true
		t = p.Elem()
	}
	name := "?"
	switch n := t.(type) {
	case *types.Named:
		name = n.Obj().Name()
	case *types.Alias:
		name = n.Obj().Name()
	}
	if ptr {
		return "(*" + name + ")"
	}
	return "(" + name + ")"
}

func (p *Program) indexDecls() {
	p.declOnce.Do(func() {
		p.decls = map[string]*FuncInfo{}
		for _, pk := range p.Pkgs {
			for _, f := range pk.Syntax {
				for _, d := range f.Decls {
					fd, ok := d.(*ast.FuncDecl)
					if !ok {
						continue
					}
					obj, _ := pk.TypesInfo.Defs[fd.Name].(*types.Func)
					if obj == nil {
						continue
					}
					fi := &FuncInfo{Pkg: pk, Decl: fd, Obj: obj, Name: QualName(obj), File: f, Prog: p}
					p.decls[fi.Name] = fi
					p.declList = append(p.declList, fi)
				}
			}
		}
		sort.Slice(p.declList, func(i, j int) bool { return p.declList[i].Name < p.declList[j].Name })
	})
}

// Func looks a source function up by qualified name (e.g. "internal/db.(*collection).save").
func (p *Program) Func(name string) *FuncInfo {
	p.indexDecls()
	return p.decls[name]
}

// Funcs returns all source functions, sorted by name.
func (p *Program) Funcs() []*FuncInfo {
	p.indexDecls()
	return p.declList
}

// FuncsIn returns all source functions of the package (module-relative path).
func (p *Program) FuncsIn(rel string) []*FuncInfo {
	p.indexDecls()
	var out []*FuncInfo
	for _, f := range p.declList {
		if ShortPkg(f.Pkg.PkgPath) == rel {
			out = append(out, f)
		}
	}
	return out
}

// FuncOfObj maps a types.Func (possibly an instantiation) to its source declaration.
func (p *Program) FuncOfObj(o *types.Func) *FuncInfo {
	if o == nil {
		return nil
	}
	p.indexDecls()
	return p.decls[QualName(o.Origin())]
}

// Callee resolves the static callee of a call through type information (nil for dynamic
// calls through function values; interface methods resolve to the interface method object).
func Callee(info *types.Info, call *ast.CallExpr) *types.Func {
	f, _ := typeutil.Callee(info, call).(*types.Func)
	if f != nil {
		return f.Origin()
	}
	return nil
}

// CalleeName is QualName(Callee(..)) or "".
func CalleeName(info *types.Info, call *ast.CallExpr) string {
	return QualName(Callee(info, call))
}

// CallSite is a resolved call inside a function.
type CallSite struct {
	Call   *ast.CallExpr
	Callee *types.Func
	Name   string
	Lit    *ast.FuncLit // innermost enclosing function literal, or nil
}

// Calls lists every call in the node (descending into function literals), in source order.
func Calls(info *types.Info, root ast.Node) []CallSite {
	var out []CallSite
	var lits []*ast.FuncLit
	var walk func(n ast.Node)
	walk = func(n ast.Node) {
		ast.Inspect(n, func(m ast.Node) bool {
			switch x := m.(type) {
			case *ast.FuncLit:
				if x == n {
					return true
				}
				lits = append(lits, x)
				walk(x)
				lits = lits[:len(lits)-1]
				return false
			case *ast.CallExpr:
				c := Callee(info, x)
				var lit *ast.FuncLit
				if len(lits) > 0 {
					lit = lits[len(lits)-1]
				}
				out = append(out, CallSite{Call: x, Callee: c, Name: QualName(c), Lit: lit})
			}
			return true
		})
	}
	walk(root)
	sort.SliceStable(out, func(i, j int) bool { return out[i].Call.Pos() < out[j].Call.Pos() })
	return out
}

// CallsTo filters Calls by callee qualified name (exact) or by predicate.
func CallsTo(info *types.Info, root ast.Node, names ...string) []CallSite {
	set := map[string]bool{}
	for _, n := range names {
		set[n] = true
	}
	var out []CallSite
	for _, c := range Calls(info, root) {
		if set[c.Name] {
			out = append(out, c)
		}
	}
	return out
}

// IsMethodNamed reports whether the call is a method call named m whose receiver's type
// (after pointer stripping) is the named type pkg.T, or an interface/type embedding it is not
// considered. pkgT like "internal/datastore.Txn". Empty pkgT matches any receiver.
func IsMethodNamed(info *types.Info, call *ast.CallExpr, m string) bool {
	sel, ok := call.Fun.(*ast.SelectorExpr)
	if !ok || sel.Sel.Name != m {
		return false
	}
	_, isSel := info.Selections[sel]
	return isSel
}

// RecvTypeName returns the short qualified name of the static receiver type of a method call
// ("internal/datastore.Txn", "corekv.Iterator"), or "".
func RecvTypeName(info *types.Info, call *ast.CallExpr) string {
	sel, ok := call.Fun.(*ast.SelectorExpr)
	if !ok {
		return ""
	}
	s, ok := info.Selections[sel]
	if !ok {
		return ""
	}
	return TypeName(s.Recv())
}

// TypeName renders a (possibly pointer) named type as "<shortpkg>.Name"; "" otherwise.
func TypeName(t types.Type) string {
	if t == nil {
		return ""
	}
	if p, ok := t.(*types.Pointer); ok {
		t = p.Elem()
	}
	switch n := t.(type) {
	case *types.Named:
		if n.Obj().Pkg() == nil {
			return n.Obj().Name()
		}
		return ShortPkg(n.Obj().Pkg().Path()) + "." + n.Obj().Name()
	case *types.Alias:
		return TypeName(types.Unalias(n))
	}
	return ""
}

// ReturnsError reports whether the function's last result is the error type.
func ReturnsError(sig *types.Signature) bool {
	if sig == nil || sig.Results().Len() == 0 {
		return false
	}
	return IsErrorType(sig.Results().At(sig.Results().Len() - 1).Type())
}

func IsErrorType(t types.Type) bool {
	n, ok := t.(*types.Named)
	return ok && n.Obj().Pkg() == nil && n.Obj().Name() == "error"
}

// EnclosingFunc finds the source function containing pos.
func (p *Program) EnclosingFunc(pk *packages.Package, pos token.Pos) *FuncInfo {
	p.indexDecls()
	for _, f := range p.declList {
		if f.Pkg == pk && f.Decl.Pos() <= pos && pos <= f.Decl.End() {
			return f
		}
	}
	return nil
}

// ObjOf returns the object an identifier expression denotes (through parens), or nil.
func ObjOf(info *types.Info, e ast.Expr) types.Object {
	e = ast.Unparen(e)
	if id, ok := e.(*ast.Ident); ok {
		return info.ObjectOf(id)
	}
	return nil
}

// ExprStr renders an expression.
func ExprStr(e ast.Expr) string {
	if e == nil {
		return ""
	}
	return types.ExprString(e)
}

// ConstString returns the constant string value of an expression, if any.
func ConstString(info *types.Info, e ast.Expr) (string, bool) {
	tv, ok := info.Types[e]
	if !ok || tv.Value == nil {
		return "", false
	}
	s := tv.Value.ExactString()
	if len(s) >= 2 && s[0] == '"' {
		// constant.StringVal without importing: ExactString is quoted
		u, err := unquote(s)
		if err == nil {
			return u, true
		}
	}
	return "", false
}
