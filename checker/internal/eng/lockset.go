package eng

import (
	"go/ast"
	"go/types"
	"strings"

	"golang.org/x/tools/go/cfg"
)

// LockSets computes, for every CFG point of a function body, the set of mutexes that are held on
// every path reaching it (must-hold). A mutex is identified by the rendered receiver expression of
// its Lock call ("s.mu", "p.server.connMu"). Deferred unlocks release at function exit and do not
// change the set. Function literals are separate bodies (a goroutine starts with nothing held).
type LockSets struct {
	flow *FlowGraph
	in   map[*cfg.Block]map[string]bool
}

func mutexOp(info *types.Info, n ast.Node) (key string, acquire bool, ok bool) {
	es, isExpr := n.(*ast.ExprStmt)
	if !isExpr {
		return "", false, false
	}
	call, isCall := es.X.(*ast.CallExpr)
	if !isCall {
		return "", false, false
	}
	se, isSel := call.Fun.(*ast.SelectorExpr)
	if !isSel {
		return "", false, false
	}
	tn := TypeName(info.TypeOf(se.X))
	if tn != "sync.Mutex" && tn != "sync.RWMutex" {
		return "", false, false
	}
	// shared (read) acquisitions are tracked under their own key so that a rule can ask for the
	// exclusive lock; HeldAt folds both, HeldExclusiveAt does not.
	switch se.Sel.Name {
	case "Lock":
		return ExprStr(se.X), true, true
	case "RLock":
		return ExprStr(se.X) + sharedSuffix, true, true
	case "Unlock":
		return ExprStr(se.X), false, true
	case "RUnlock":
		return ExprStr(se.X) + sharedSuffix, false, true
	}
	return "", false, false
}

const sharedSuffix = "\x00R"

// NewLockSets runs the must-hold analysis.
func NewLockSets(flow *FlowGraph) *LockSets {
	ls := &LockSets{flow: flow, in: map[*cfg.Block]map[string]bool{}}
	blocks := flow.G.Blocks
	preds := map[*cfg.Block][]*cfg.Block{}
	for _, b := range blocks {
		for _, s := range b.Succs {
			preds[s] = append(preds[s], b)
		}
	}
	// universe of keys
	universe := map[string]bool{}
	for _, b := range blocks {
		for _, n := range b.Nodes {
			if k, _, ok := mutexOp(flow.Info, n); ok {
				universe[k] = true
			}
		}
	}
	top := func() map[string]bool {
		m := map[string]bool{}
		for k := range universe {
			m[k] = true
		}
		return m
	}
	out := map[*cfg.Block]map[string]bool{}
	for _, b := range blocks {
		ls.in[b] = top()
		out[b] = top()
	}
	if len(blocks) > 0 {
		ls.in[blocks[0]] = map[string]bool{}
	}
	transfer := func(b *cfg.Block, in map[string]bool) map[string]bool {
		cur := map[string]bool{}
		for k := range in {
			cur[k] = true
		}
		for _, n := range b.Nodes {
			if k, acq, ok := mutexOp(flow.Info, n); ok {
				if acq {
					cur[k] = true
				} else {
					delete(cur, k)
				}
			}
		}
		return cur
	}
	changed := true
	for changed {
		changed = false
		for i, b := range blocks {
			if !b.Live {
				continue
			}
			var in map[string]bool
			if i == 0 {
				in = map[string]bool{}
			} else {
				first := true
				for _, p := range preds[b] {
					if !p.Live {
						continue
					}
					if first {
						in = map[string]bool{}
						for k := range out[p] {
							in[k] = true
						}
						first = false
					} else {
						for k := range in {
							if !out[p][k] {
								delete(in, k)
							}
						}
					}
				}
				if in == nil {
					in = map[string]bool{}
				}
			}
			o := transfer(b, in)
			if !sameSet(in, ls.in[b]) || !sameSet(o, out[b]) {
				ls.in[b], out[b] = in, o
				changed = true
			}
		}
	}
	return ls
}

func sameSet(a, b map[string]bool) bool {
	if len(a) != len(b) {
		return false
	}
	for k := range a {
		if !b[k] {
			return false
		}
	}
	return true
}

// HeldAt returns the must-hold set just before the node at point pt executes (a lock counts as held
// whether it was taken exclusively or shared).
func (ls *LockSets) HeldAt(pt Point) map[string]bool {
	out := map[string]bool{}
	for k := range ls.heldRaw(pt) {
		out[strings.TrimSuffix(k, sharedSuffix)] = true
	}
	return out
}

// HeldExclusiveAt returns the locks that are held exclusively (Lock, not RLock) at pt.
func (ls *LockSets) HeldExclusiveAt(pt Point) map[string]bool {
	out := map[string]bool{}
	for k := range ls.heldRaw(pt) {
		if !strings.HasSuffix(k, sharedSuffix) {
			out[k] = true
		}
	}
	return out
}

func (ls *LockSets) heldRaw(pt Point) map[string]bool {
	cur := map[string]bool{}
	for k := range ls.in[pt.B] {
		cur[k] = true
	}
	for i := 0; i < pt.I && i < len(pt.B.Nodes); i++ {
		if k, acq, ok := mutexOp(ls.flow.Info, pt.B.Nodes[i]); ok {
			if acq {
				cur[k] = true
			} else {
				delete(cur, k)
			}
		}
	}
	return cur
}
