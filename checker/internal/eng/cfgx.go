package eng

import (
	"go/ast"
	"go/token"
	"go/types"

	"golang.org/x/tools/go/cfg"
)

// FlowGraph is a go/cfg control-flow graph of one function body with point-level queries.
type FlowGraph struct {
	G    *cfg.CFG
	Info *types.Info
	Body *ast.BlockStmt

	caseOf map[ast.Expr]ast.Stmt
}

// Point addresses one node inside a block.
type Point struct {
	B *cfg.Block
	I int
}

// NoReturn reports calls that never return (panic, os.Exit, log.Fatal*, runtime.Goexit).
func NoReturn(info *types.Info, call *ast.CallExpr) bool {
	if id, ok := ast.Unparen(call.Fun).(*ast.Ident); ok {
		if b, ok := info.Uses[id].(*types.Builtin); ok && b.Name() == "panic" {
			return true
		}
	}
	switch CalleeName(info, call) {
	case "os.Exit", "log.Fatal", "log.Fatalf", "log.Fatalln", "runtime.Goexit", "log.Panic", "log.Panicf":
		return true
	}
	return false
}

// NewFlow builds the flow graph of a function body.
func NewFlow(info *types.Info, body *ast.BlockStmt) *FlowGraph {
	g := cfg.New(body, func(c *ast.CallExpr) bool { return !NoReturn(info, c) })
	return &FlowGraph{G: g, Info: info, Body: body}
}

// Entry is the first point of the function.
func (f *FlowGraph) Entry() Point { return Point{f.G.Blocks[0], 0} }

// PointOf finds the CFG point whose node contains n (smallest containing node).
func (f *FlowGraph) PointOf(n ast.Node) (Point, bool) {
	var best Point
	var bestLen token.Pos = -1
	for _, b := range f.G.Blocks {
		if !b.Live {
			continue
		}
		for i, m := range b.Nodes {
			if m.Pos() <= n.Pos() && n.End() <= m.End() {
				// skip containment inside function literals of m? The literal is part of m: the
				// caller decides whether that is meaningful.
				l := m.End() - m.Pos()
				if bestLen < 0 || l < bestLen {
					best, bestLen = Point{b, i}, l
				}
			}
		}
	}
	return best, bestLen >= 0
}

// CondOf returns the branch condition of a block with two successors, or nil.
func CondOf(b *cfg.Block) ast.Expr {
	if len(b.Succs) != 2 || len(b.Nodes) == 0 {
		return nil
	}
	e, _ := b.Nodes[len(b.Nodes)-1].(ast.Expr)
	return e
}

// Action is the result of visiting a point during a search.
type Action int

const (
	Continue Action = iota // keep walking
	Cut                    // do not walk beyond this point on this path
	Hit                    // target found: the search reports true
)

// Walk describes a forward search over points.
type Walk struct {
	// Visit is called for each reached point (each at most once).
	Visit func(pt Point, n ast.Node) Action
	// Edge, if set, decides whether the branch edge (cond, taken) may be followed.
	Edge func(cond ast.Expr, taken bool) bool
	// OnExit, if set, is called when a path reaches a function exit (return statement's block end or
	// falling off the end). ret is the return statement or nil. Result Hit makes the search report true.
	OnExit func(ret *ast.ReturnStmt, b *cfg.Block) Action
}

// Forward walks from the point *after* start (or from start itself when inclusive) and reports
// whether any path produced Hit.
func (f *FlowGraph) Forward(start Point, inclusive bool, w Walk) bool {
	type key struct {
		b *cfg.Block
		i int
	}
	seen := map[key]bool{}
	var stack []Point
	push := func(p Point) {
		k := key{p.B, p.I}
		if !seen[k] {
			seen[k] = true
			stack = append(stack, p)
		}
	}
	first := start
	if !inclusive {
		first.I++
	}
	push(first)
	for len(stack) > 0 {
		pt := stack[len(stack)-1]
		stack = stack[:len(stack)-1]
		b := pt.B
		i := pt.I
		cut := false
		for ; i < len(b.Nodes); i++ {
			if i != pt.I {
				k := key{b, i}
				if seen[k] {
					cut = true
					break
				}
				seen[k] = true
			}
			if w.Visit != nil {
				switch w.Visit(Point{b, i}, b.Nodes[i]) {
				case Hit:
					return true
				case Cut:
					cut = true
				}
				if cut {
					break
				}
			}
		}
		if cut {
			continue
		}
		if len(b.Succs) == 0 {
			if w.OnExit != nil {
				var ret *ast.ReturnStmt
				normal := true
				if len(b.Nodes) > 0 {
					last := b.Nodes[len(b.Nodes)-1]
					if r, ok := last.(*ast.ReturnStmt); ok {
						ret = r
					} else if es, ok := last.(*ast.ExprStmt); ok {
						if c, ok := es.X.(*ast.CallExpr); ok && NoReturn(f.Info, c) {
							normal = false
						}
					}
				}
				if normal {
					if w.OnExit(ret, b) == Hit {
						return true
					}
				}
			}
			continue
		}
		cond := CondOf(b)
		for si, s := range b.Succs {
			if cond != nil && w.Edge != nil {
				if !w.Edge(cond, si == 0) {
					continue
				}
			}
			push(Point{s, 0})
		}
	}
	return false
}

// ReachesWithout reports whether some path from the entry reaches target without passing a point
// for which guard holds. (false == "guard dominates target".)
func (f *FlowGraph) ReachesWithout(target Point, guard func(n ast.Node) bool, edge func(ast.Expr, bool) bool) bool {
	return f.Forward(f.Entry(), true, Walk{
		Visit: func(pt Point, n ast.Node) Action {
			if pt == target {
				return Hit
			}
			if guard(n) {
				return Cut
			}
			return Continue
		},
		Edge: edge,
	})
}

// ExitsWithout reports whether some path from after start reaches a normal function exit without
// passing a point for which guard holds; it returns the offending exit.
func (f *FlowGraph) ExitsWithout(start Point, inclusive bool, guard func(n ast.Node) bool, edge func(ast.Expr, bool) bool) (bool, token.Pos) {
	var where token.Pos
	hit := f.Forward(start, inclusive, Walk{
		Visit: func(pt Point, n ast.Node) Action {
			if guard(n) {
				return Cut
			}
			return Continue
		},
		Edge: edge,
		OnExit: func(ret *ast.ReturnStmt, b *cfg.Block) Action {
			if ret != nil {
				where = ret.Pos()
			} else {
				where = f.Body.End()
			}
			return Hit
		},
	})
	return hit, where
}

// Reaches reports whether target is reachable from after start.
func (f *FlowGraph) Reaches(start Point, target Point, edge func(ast.Expr, bool) bool) bool {
	return f.Forward(start, false, Walk{
		Visit: func(pt Point, n ast.Node) Action {
			if pt == target {
				return Hit
			}
			return Continue
		},
		Edge: edge,
	})
}

// ContainsCallTo reports whether node n (not descending into function literals unless deep)
// contains a call whose callee has one of the names.
func ContainsCallTo(info *types.Info, n ast.Node, deep bool, names ...string) *ast.CallExpr {
	var found *ast.CallExpr
	ast.Inspect(n, func(m ast.Node) bool {
		if found != nil {
			return false
		}
		if _, ok := m.(*ast.FuncLit); ok && !deep {
			return false
		}
		if c, ok := m.(*ast.CallExpr); ok {
			nm := CalleeName(info, c)
			for _, x := range names {
				if nm == x {
					found = c
					return false
				}
			}
		}
		return true
	})
	return found
}

// FindCall returns the first call in n satisfying pred (function literals entered only if deep).
func FindCall(n ast.Node, deep bool, pred func(*ast.CallExpr) bool) *ast.CallExpr {
	var found *ast.CallExpr
	ast.Inspect(n, func(m ast.Node) bool {
		if found != nil {
			return false
		}
		if _, ok := m.(*ast.FuncLit); ok && !deep {
			return false
		}
		if c, ok := m.(*ast.CallExpr); ok && pred(c) {
			found = c
			return false
		}
		return true
	})
	return found
}

// ErrNilTest classifies a condition as a nil test of the object obj: returns (isTest, nonNilWhenTrue).
// Recognises `x != nil`, `x == nil`, and the same with operands swapped.
func ErrNilTest(info *types.Info, cond ast.Expr, obj types.Object) (bool, bool) {
	be, ok := ast.Unparen(cond).(*ast.BinaryExpr)
	if !ok || (be.Op != token.NEQ && be.Op != token.EQL) {
		return false, false
	}
	isNil := func(e ast.Expr) bool {
		id, ok := ast.Unparen(e).(*ast.Ident)
		if !ok {
			return false
		}
		_, isnil := info.Uses[id].(*types.Nil)
		return isnil
	}
	var other ast.Expr
	if isNil(be.Y) {
		other = be.X
	} else if isNil(be.X) {
		other = be.Y
	} else {
		return false, false
	}
	if ObjOf(info, other) != obj {
		return false, false
	}
	return true, be.Op == token.NEQ
}
