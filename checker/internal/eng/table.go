package eng

import (
	"go/ast"
	"go/constant"
	"go/token"
	"go/types"
	"strings"

	"golang.org/x/tools/go/cfg"
)

// Tri is a three-valued truth value.
type Tri int

const (
	Unknown Tri = iota
	True
	False
)

func TriOf(b bool) Tri {
	if b {
		return True
	}
	return False
}
func (t Tri) Not() Tri {
	switch t {
	case True:
		return False
	case False:
		return True
	}
	return Unknown
}

// Branch is the condition at the end of a two-successor block: either a plain boolean expression
// (Tag == nil) or the case value of a tagged switch (Tag is the switch tag; TypeSwitch for type cases).
type Branch struct {
	Expr       ast.Expr
	Tag        ast.Expr
	TypeSwitch *ast.TypeSwitchStmt
}

// BranchOf describes the condition of block b, or ok=false (e.g. range loop headers, select).
func (f *FlowGraph) BranchOf(b *cfg.Block) (Branch, bool) {
	e := CondOf(b)
	if e == nil {
		return Branch{}, false
	}
	f.indexCases()
	if sw, ok := f.caseOf[e]; ok {
		switch s := sw.(type) {
		case *ast.SwitchStmt:
			if s.Tag != nil {
				return Branch{Expr: e, Tag: s.Tag}, true
			}
			return Branch{Expr: e}, true
		case *ast.TypeSwitchStmt:
			return Branch{Expr: e, TypeSwitch: s}, true
		}
	}
	return Branch{Expr: e}, true
}

func (f *FlowGraph) indexCases() {
	if f.caseOf != nil {
		return
	}
	f.caseOf = map[ast.Expr]ast.Stmt{}
	ast.Inspect(f.Body, func(n ast.Node) bool {
		switch s := n.(type) {
		case *ast.FuncLit:
			return false
		case *ast.SwitchStmt:
			for _, c := range s.Body.List {
				for _, e := range c.(*ast.CaseClause).List {
					f.caseOf[e] = s
				}
			}
		case *ast.TypeSwitchStmt:
			for _, c := range s.Body.List {
				for _, e := range c.(*ast.CaseClause).List {
					f.caseOf[e] = s
				}
			}
		}
		return true
	})
}

// PathSpec configures path enumeration with abstract branch evaluation.
type PathSpec struct {
	// Cond abstractly evaluates a branch. Unknown explores both successors.
	Cond func(br Branch) Tri
	// Effect labels an effectful node ("" = none). Called for every node on the path.
	Effect func(n ast.Node) string
	// Start, if set, begins the enumeration after this point instead of at the entry.
	Start *Point
	// MaxPaths bounds the enumeration (default 4096); exceeding it sets Truncated.
	MaxPaths int
}

// Outcome is one enumerated path.
type Outcome struct {
	Effects []string
	Kind    string // "return" | "end" | "loop" (reached a block already on the path) | "noreturn"
	Ret     *ast.ReturnStmt
	Loop    *cfg.Block
	Conds   []string // rendered decisions taken on Unknown branches
}

// Sig renders the outcome as a stable string: effects + how it ended (+ constant return values).
func (o Outcome) Sig(info *types.Info) string {
	s := strings.Join(o.Effects, ",")
	switch o.Kind {
	case "return":
		var vals []string
		if o.Ret != nil {
			for _, r := range o.Ret.Results {
				vals = append(vals, RetVal(info, r))
			}
		}
		return s + "→return(" + strings.Join(vals, ",") + ")"
	default:
		return s + "→" + o.Kind
	}
}

// RetVal renders a return operand: constants by value, nil, identifiers by name, calls by callee.
func RetVal(info *types.Info, e ast.Expr) string {
	e = ast.Unparen(e)
	if tv, ok := info.Types[e]; ok {
		if tv.Value != nil {
			return tv.Value.ExactString()
		}
		if tv.IsNil() {
			return "nil"
		}
	}
	switch x := e.(type) {
	case *ast.Ident:
		return x.Name
	case *ast.CallExpr:
		if n := CalleeName(info, x); n != "" {
			return "call:" + n
		}
		return "call"
	case *ast.UnaryExpr:
		if x.Op == token.SUB {
			return "-" + RetVal(info, x.X)
		}
	}
	return "expr"
}

// Paths enumerates all acyclic paths (a block is entered at most once per path) under the
// abstract branch evaluation. Truncated is reported when MaxPaths was exceeded.
func (f *FlowGraph) Paths(spec PathSpec) (outs []Outcome, truncated bool) {
	max := spec.MaxPaths
	if max == 0 {
		max = 4096
	}
	type frame struct {
		effects []string
		conds   []string
		onPath  map[*cfg.Block]bool
	}
	var walk func(b *cfg.Block, from int, fr frame)
	walk = func(b *cfg.Block, from int, fr frame) {
		if truncated {
			return
		}
		if len(outs) >= max {
			truncated = true
			return
		}
		if from == 0 {
			if fr.onPath[b] {
				outs = append(outs, Outcome{Effects: fr.effects, Kind: "loop", Loop: b, Conds: fr.conds})
				return
			}
			np := make(map[*cfg.Block]bool, len(fr.onPath)+1)
			for k := range fr.onPath {
				np[k] = true
			}
			np[b] = true
			fr.onPath = np
		}
		eff := fr.effects
		for i := from; i < len(b.Nodes); i++ {
			if spec.Effect != nil {
				if l := spec.Effect(b.Nodes[i]); l != "" {
					eff = append(eff[:len(eff):len(eff)], l)
				}
			}
		}
		fr.effects = eff
		if len(b.Succs) == 0 {
			o := Outcome{Effects: eff, Kind: "end", Conds: fr.conds}
			if len(b.Nodes) > 0 {
				last := b.Nodes[len(b.Nodes)-1]
				if r, ok := last.(*ast.ReturnStmt); ok {
					o.Kind, o.Ret = "return", r
				} else if es, ok := last.(*ast.ExprStmt); ok {
					if c, ok := es.X.(*ast.CallExpr); ok && NoReturn(f.Info, c) {
						o.Kind = "noreturn"
					}
				}
			}
			outs = append(outs, o)
			return
		}
		if len(b.Succs) == 1 {
			walk(b.Succs[0], 0, fr)
			return
		}
		t := Unknown
		br, ok := f.BranchOf(b)
		if ok && spec.Cond != nil {
			t = spec.Cond(br)
		}
		switch t {
		case True:
			walk(b.Succs[0], 0, fr)
		case False:
			walk(b.Succs[1], 0, fr)
		default:
			lbl := "?"
			if ok {
				lbl = ExprStr(br.Expr)
			}
			f1 := fr
			f1.conds = append(fr.conds[:len(fr.conds):len(fr.conds)], lbl+"=T")
			walk(b.Succs[0], 0, f1)
			f2 := fr
			f2.conds = append(fr.conds[:len(fr.conds):len(fr.conds)], lbl+"=F")
			walk(b.Succs[1], 0, f2)
		}
	}
	fr := frame{onPath: map[*cfg.Block]bool{}}
	if spec.Start != nil {
		fr.onPath[spec.Start.B] = true
		walk(spec.Start.B, spec.Start.I+1, fr)
	} else {
		walk(f.G.Blocks[0], 0, fr)
	}
	return outs, truncated
}

// Order is an abstract valuation: the sign of compare(a,b) for named operand pairs, plus booleans.
type Order struct {
	Sign map[[2]string]int // key {"a","b"} -> -1,0,+1 meaning a ? b
	Bool map[string]bool   // named boolean facts
}

// SignOf returns sign(a?b) if known (also derives from the reversed pair).
func (o Order) SignOf(a, b string) (int, bool) {
	if a == b {
		return 0, true
	}
	if s, ok := o.Sign[[2]string{a, b}]; ok {
		return s, true
	}
	if s, ok := o.Sign[[2]string{b, a}]; ok {
		return -s, true
	}
	return 0, false
}

// CmpHolds evaluates `sign OP 0`-style relations: does (a OP b) hold when sign(a?b)=s.
func CmpHolds(op token.Token, s int) (bool, bool) {
	switch op {
	case token.LSS:
		return s < 0, true
	case token.LEQ:
		return s <= 0, true
	case token.GTR:
		return s > 0, true
	case token.GEQ:
		return s >= 0, true
	case token.EQL:
		return s == 0, true
	case token.NEQ:
		return s != 0, true
	}
	return false, false
}

// IntConst returns the integer constant value of e, if any.
func IntConst(info *types.Info, e ast.Expr) (int64, bool) {
	tv, ok := info.Types[e]
	if !ok || tv.Value == nil {
		return 0, false
	}
	v := constant.ToInt(tv.Value)
	if v.Kind() != constant.Int {
		return 0, false
	}
	i, exact := constant.Int64Val(v)
	return i, exact
}

// FlipOp mirrors a comparison operator (a OP b  ==  b FlipOp(OP) a).
func FlipOp(op token.Token) token.Token {
	switch op {
	case token.LSS:
		return token.GTR
	case token.LEQ:
		return token.GEQ
	case token.GTR:
		return token.LSS
	case token.GEQ:
		return token.LEQ
	}
	return op
}

// EvalBool evaluates a boolean expression structurally (!, &&, ||, parentheses, constants),
// delegating leaves to atom.
func EvalBool(info *types.Info, e ast.Expr, atom func(ast.Expr) Tri) Tri {
	e = ast.Unparen(e)
	if tv, ok := info.Types[e]; ok && tv.Value != nil && tv.Value.Kind() == constant.Bool {
		return TriOf(constant.BoolVal(tv.Value))
	}
	switch x := e.(type) {
	case *ast.UnaryExpr:
		if x.Op == token.NOT {
			return EvalBool(info, x.X, atom).Not()
		}
	case *ast.BinaryExpr:
		switch x.Op {
		case token.LAND:
			a, b := EvalBool(info, x.X, atom), EvalBool(info, x.Y, atom)
			if a == False || b == False {
				return False
			}
			if a == True && b == True {
				return True
			}
			return Unknown
		case token.LOR:
			a, b := EvalBool(info, x.X, atom), EvalBool(info, x.Y, atom)
			if a == True || b == True {
				return True
			}
			if a == False && b == False {
				return False
			}
			return Unknown
		}
	}
	return atom(e)
}

// BranchTri evaluates a Branch with a leaf evaluator; tagged switch cases become `tag == case`.
func BranchTri(info *types.Info, br Branch, atom func(ast.Expr) Tri) Tri {
	if br.TypeSwitch != nil {
		return Unknown
	}
	if br.Tag != nil {
		return atom(&ast.BinaryExpr{X: br.Tag, Op: token.EQL, Y: br.Expr})
	}
	return EvalBool(info, br.Expr, atom)
}
