package eng

import (
	"go/token"
	"go/types"
	"sort"
	"strings"
	"sync"

	"golang.org/x/tools/go/callgraph"
	"golang.org/x/tools/go/ssa"
)

// cgIndex holds derived call-graph tables.
type cgIndex struct {
	once      sync.Once
	calleesAt map[token.Pos][]*ssa.Function
	storage   map[*ssa.Function]bool
}

var cgIdx = map[*Program]*cgIndex{}
var cgIdxMu sync.Mutex

func (p *Program) cgi() *cgIndex {
	cgIdxMu.Lock()
	ix := cgIdx[p]
	if ix == nil {
		ix = &cgIndex{}
		cgIdx[p] = ix
	}
	cgIdxMu.Unlock()
	ix.once.Do(func() {
		p.BuildCG()
		ix.calleesAt = map[token.Pos][]*ssa.Function{}
		for fn, nd := range p.CG.Nodes {
			if fn == nil || !p.ModFns[fn] {
				continue
			}
			for _, e := range nd.Out {
				if e.Site == nil {
					continue
				}
				pos := e.Site.Pos()
				ix.calleesAt[pos] = append(ix.calleesAt[pos], e.Callee.Func)
			}
		}
		// storage-reaching fixpoint
		ix.storage = map[*ssa.Function]bool{}
		direct := func(fn *ssa.Function) bool {
			for _, b := range fn.Blocks {
				for _, in := range b.Instrs {
					ci, ok := in.(ssa.CallInstruction)
					if !ok {
						continue
					}
					c := ci.Common()
					var m *types.Func
					if c.IsInvoke() {
						m = c.Method
					} else if sc := c.StaticCallee(); sc != nil {
						m, _ = sc.Object().(*types.Func)
					}
					if m != nil && IsStorageFunc(m) {
						return true
					}
				}
			}
			return false
		}
		for fn := range p.ModFns {
			if direct(fn) {
				ix.storage[fn] = true
			}
		}
		changed := true
		for changed {
			changed = false
			for fn, nd := range p.CG.Nodes {
				if fn == nil || ix.storage[fn] || !p.ModFns[fn] {
					continue
				}
				for _, e := range nd.Out {
					if ix.storage[e.Callee.Func] {
						ix.storage[fn] = true
						changed = true
						break
					}
				}
			}
		}
	})
	return ix
}

// IsStorageFunc reports whether m is a method of the key-value layer: any method declared in
// package corekv (Reader/Writer/Iterator/Store/Txn...), or a method of the module's datastore
// Blockstore / Txn interfaces, or of coreblock.heads.
func IsStorageFunc(m *types.Func) bool {
	if m == nil || m.Pkg() == nil {
		return false
	}
	path := m.Pkg().Path()
	sig, _ := m.Type().(*types.Signature)
	if sig == nil || sig.Recv() == nil {
		return false
	}
	if strings.HasPrefix(path, "github.com/sourcenetwork/corekv") {
		return true
	}
	rt := TypeName(sig.Recv().Type())
	switch rt {
	case "internal/datastore.Blockstore", "internal/datastore.Txn", "internal/datastore.BasicTxn", "internal/datastore.IPLDStorage":
		switch m.Name() {
		case "Commit", "Put", "PutMany", "Get", "Has", "DeleteBlock", "GetSize", "AsIPLDStorage":
			return true
		}
	case "internal/core/block.heads":
		switch m.Name() {
		case "Write", "Replace", "IsHead", "List":
			return true
		}
	}
	return false
}

// CalleesAt returns the module-or-other functions the call graph resolves for the call whose
// left parenthesis is at pos.
func (p *Program) CalleesAt(lparen token.Pos) []*ssa.Function {
	return p.cgi().calleesAt[lparen]
}

// StorageReaching reports whether fn may (transitively) call into the key-value layer.
func (p *Program) StorageReaching(fn *ssa.Function) bool { return p.cgi().storage[fn] }

// SSAFunc returns the SSA function of a source declaration.
func (p *Program) SSAFunc(fi *FuncInfo) *ssa.Function {
	p.BuildSSA()
	return p.SSA.FuncValue(fi.Obj)
}

// DeclOf maps an SSA function (or one of its closures) to the enclosing source declaration.
func (p *Program) DeclOf(fn *ssa.Function) *FuncInfo {
	for fn != nil && fn.Parent() != nil {
		fn = fn.Parent()
	}
	if fn == nil {
		return nil
	}
	if o := fn.Origin(); o != nil {
		fn = o
	}
	obj, _ := fn.Object().(*types.Func)
	if obj == nil {
		return nil
	}
	return p.FuncOfObj(obj)
}

// Cone returns the set of functions reachable in the call graph from the roots (roots included),
// restricted to module functions.
func (p *Program) Cone(roots ...*ssa.Function) map[*ssa.Function]bool {
	p.BuildCG()
	seen := map[*ssa.Function]bool{}
	var stack []*ssa.Function
	for _, r := range roots {
		if r != nil && !seen[r] {
			seen[r] = true
			stack = append(stack, r)
		}
	}
	for len(stack) > 0 {
		fn := stack[len(stack)-1]
		stack = stack[:len(stack)-1]
		nd := p.CG.Nodes[fn]
		if nd != nil {
			for _, e := range nd.Out {
				if IsFuncValueCall(e.Site) {
					// calls through stored function values (txn callbacks, handlers) are where VTA
					// loses precision; closures are followed lexically via AnonFuncs instead
					continue
				}
				c := e.Callee.Func
				if !seen[c] && p.ModFns[c] && !ShellFunc(c) {
					seen[c] = true
					stack = append(stack, c)
				}
			}
		}
		for _, a := range fn.AnonFuncs {
			if !seen[a] {
				seen[a] = true
				stack = append(stack, a)
			}
		}
	}
	return seen
}

// ConeDecls maps a cone to source declarations (deduplicated, sorted by name).
func (p *Program) ConeDecls(cone map[*ssa.Function]bool) []*FuncInfo {
	set := map[*FuncInfo]bool{}
	for fn := range cone {
		if fi := p.DeclOf(fn); fi != nil {
			set[fi] = true
		}
	}
	var out []*FuncInfo
	for fi := range set {
		out = append(out, fi)
	}
	sort.Slice(out, func(i, j int) bool { return out[i].Name < out[j].Name })
	return out
}

// PathTo finds one call path root -> ... -> target (by BFS) for diagnostics.
func (p *Program) PathTo(root *ssa.Function, target func(*ssa.Function) bool) []string {
	p.BuildCG()
	prev := map[*ssa.Function]*ssa.Function{root: nil}
	queue := []*ssa.Function{root}
	for len(queue) > 0 {
		fn := queue[0]
		queue = queue[1:]
		if fn != root && target(fn) {
			var path []string
			for f := fn; f != nil; f = prev[f] {
				path = append([]string{f.String()}, path...)
			}
			return path
		}
		next := func(c *ssa.Function) {
			if _, ok := prev[c]; !ok {
				prev[c] = fn
				queue = append(queue, c)
			}
		}
		if nd := p.CG.Nodes[fn]; nd != nil {
			for _, e := range nd.Out {
				if IsFuncValueCall(e.Site) || ShellFunc(e.Callee.Func) {
					continue
				}
				next(e.Callee.Func)
			}
		}
		for _, a := range fn.AnonFuncs {
			next(a)
		}
	}
	return nil
}

// Callers returns the call-graph in-edges of fn.
func (p *Program) Callers(fn *ssa.Function) []*callgraph.Edge {
	p.BuildCG()
	if nd := p.CG.Nodes[fn]; nd != nil {
		return nd.In
	}
	return nil
}

// isFuncValueCall reports a dynamic call through a function-typed value (not an interface
// method, not a static callee, not an immediately applied closure).
func IsFuncValueCall(site ssa.CallInstruction) bool {
	if site == nil {
		return false
	}
	c := site.Common()
	if c.IsInvoke() {
		return false
	}
	switch c.Value.(type) {
	case *ssa.Function, *ssa.MakeClosure, *ssa.Builtin:
		return false
	}
	return true
}

// shellPkgs are the outer shells of the module (client wrappers over HTTP/CLI/JS/C, test
// harnesses, tools). They implement the same client interfaces as the engine, so interface calls
// inside the engine resolve to them as well; a cone of engine behaviour never enters them.
var shellPkgs = []string{"tests", "cli", "http", "js", "cbindings", "examples", "playground", "tools", "cmd", "docs", "client/mocks", "internal/datastore/mocks", "internal/db/fetcher/mocks"}

func ShellFunc(fn *ssa.Function) bool {
	for fn.Parent() != nil {
		fn = fn.Parent()
	}
	var path string
	if fn.Pkg != nil {
		path = fn.Pkg.Pkg.Path()
	} else if o := fn.Object(); o != nil && o.Pkg() != nil {
		path = o.Pkg().Path()
	} else {
		return false
	}
	sp := ShortPkg(path)
	for _, s := range shellPkgs {
		if sp == s || strings.HasPrefix(sp, s+"/") {
			return true
		}
	}
	return false
}
