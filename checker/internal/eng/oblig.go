package eng

import (
	"crypto/sha1"
	"encoding/hex"
	"encoding/json"
	"fmt"
	"go/token"
	"os"
	"path/filepath"
	"sort"
	"strconv"
	"strings"
)

func unquote(s string) (string, error) { return strconv.Unquote(s) }

// Status of an obligation.
type Status string

const (
	Discharged Status = "discharged"
	Violated   Status = "violated"
	Undecided  Status = "undecided"
)

// Obligation is one decided instance of a rule.
type Obligation struct {
	Property  string `json:"property"`
	Rule      string `json:"rule"`
	Construct string `json:"construct"` // stable key: function + resolved callee/field + ordinal; never a line
	Status    Status `json:"status"`
	Pos       string `json:"pos"`
	Detail    string `json:"detail"`
	Path      string `json:"path,omitempty"`
	Known     bool   `json:"known_finding,omitempty"`
	Advisory  bool   `json:"advisory,omitempty"`
}

// Key identifies an obligation for known-finding matching and replay.
func (o *Obligation) Key() string { return o.Property + "|" + o.Rule + "|" + o.Construct }

// Ctx collects obligations for one property run.
type Ctx struct {
	P        *Program
	Property string
	Tier     string
	Obs      []*Obligation
	Floors   map[string][2]int // rule -> {count, floor}
	Notes    []string
	curRule  string
}

func NewCtx(p *Program, prop, tier string) *Ctx {
	return &Ctx{P: p, Property: prop, Tier: tier, Floors: map[string][2]int{}}
}

func (c *Ctx) add(rule, construct string, st Status, pos token.Pos, detail string) *Obligation {
	o := &Obligation{Property: c.Property, Rule: rule, Construct: construct, Status: st, Pos: c.P.Rel(pos), Detail: detail}
	c.Obs = append(c.Obs, o)
	return o
}

func (c *Ctx) OK(rule, construct string, pos token.Pos, detail string) {
	c.add(rule, construct, Discharged, pos, detail)
}
func (c *Ctx) Bad(rule, construct string, pos token.Pos, detail string) *Obligation {
	return c.add(rule, construct, Violated, pos, detail)
}
func (c *Ctx) Unknown(rule, construct string, pos token.Pos, detail string) {
	c.add(rule, construct, Undecided, pos, detail)
}

// Check records discharged when ok, violated otherwise.
func (c *Ctx) Check(ok bool, rule, construct string, pos token.Pos, okDetail, badDetail string) bool {
	if ok {
		c.OK(rule, construct, pos, okDetail)
	} else {
		c.Bad(rule, construct, pos, badDetail)
	}
	return ok
}

// Anchor fails the run when a named construct the rule depends on cannot be resolved.
func (c *Ctx) Anchor(rule, name string) *FuncInfo {
	f := c.P.Func(name)
	if f == nil {
		c.add(rule, "anchor:"+name, Undecided, token.NoPos, "anchor-unresolved: function "+name+" not found in the loaded module")
	}
	return f
}

// Floor records the instance count of a rule and fails when it falls below the floor.
func (c *Ctx) Floor(rule string, count, floor int) {
	c.Floors[rule] = [2]int{count, floor}
	if count < floor {
		c.add(rule, "floor", Undecided, token.NoPos,
			fmt.Sprintf("instance-floor: rule matched %d instances, fewer than the %d confirmed by hand (rule would pass vacuously)", count, floor))
	}
}

// CountRule returns the number of obligations of a rule recorded so far.
func (c *Ctx) CountRule(rule string) int {
	n := 0
	for _, o := range c.Obs {
		if o.Rule == rule {
			n++
		}
	}
	return n
}

// KnownFindings is the committed file /verif/known_findings.json.
type KnownFindings struct {
	Findings []KnownFinding `json:"findings"`
	Fixed    []string       `json:"fixed"`
}
type KnownFinding struct {
	Property  string `json:"property"`
	Rule      string `json:"rule"`
	Construct string `json:"construct"`
	What      string `json:"what"`
}

func LoadKnown(path string) (*KnownFindings, error) {
	b, err := os.ReadFile(path)
	if err != nil {
		if os.IsNotExist(err) {
			return &KnownFindings{}, nil
		}
		return nil, err
	}
	var k KnownFindings
	if err := json.Unmarshal(b, &k); err != nil {
		return nil, err
	}
	return &k, nil
}

// Evidence is written to /verif/evidence/<id>.json.
type Evidence struct {
	PropertyID  string         `json:"property_id"`
	Tier        string         `json:"tier"`
	Seed        int            `json:"seed"`
	Level       string         `json:"level"`
	Coverage    map[string]any `json:"coverage"`
	Assumptions []string       `json:"assumptions"`
	WallS       float64        `json:"wall_s"`
	Violations  int            `json:"violations"`
}

// Finish applies known findings, writes evidence + replay files, prints verdict lines and returns the exit code.
func (c *Ctx) Finish(verifDir string, seed int, wall float64, meta PropMeta, extra map[string]any) int {
	known, err := LoadKnown(filepath.Join(verifDir, "known_findings.json"))
	if err != nil {
		fmt.Printf("VIOLATION property=%s replay=%s\n", c.Property, "known_findings.json-unreadable")
		fmt.Println("error:", err)
		return 1
	}
	kset := map[string]string{}
	for _, k := range known.Findings {
		kset[k.Property+"|"+k.Rule+"|"+k.Construct] = k.What
	}
	sort.SliceStable(c.Obs, func(i, j int) bool {
		if c.Obs[i].Rule != c.Obs[j].Rule {
			return c.Obs[i].Rule < c.Obs[j].Rule
		}
		return c.Obs[i].Construct < c.Obs[j].Construct
	})
	// duplicate constructs within a rule get ordinals so keys stay unique
	seen := map[string]int{}
	for _, o := range c.Obs {
		k := o.Key()
		seen[k]++
		if seen[k] > 1 {
			o.Construct = fmt.Sprintf("%s#%d", o.Construct, seen[k])
		}
	}
	replayDir := filepath.Join(verifDir, "evidence", "replay")
	_ = os.MkdirAll(replayDir, 0o755)
	// remove stale replay files of this property
	if ents, err := os.ReadDir(replayDir); err == nil {
		for _, e := range ents {
			if strings.HasPrefix(e.Name(), c.Property+"-") {
				_ = os.Remove(filepath.Join(replayDir, e.Name()))
			}
		}
	}
	nDis, nBad, nKnown := 0, 0, 0
	distinct := map[string]bool{}
	ruleCount := map[string]map[string]int{}
	var lines []string
	for _, o := range c.Obs {
		if ruleCount[o.Rule] == nil {
			ruleCount[o.Rule] = map[string]int{}
		}
		ruleCount[o.Rule][string(o.Status)]++
		distinct[o.Rule+"|"+o.Construct] = true
		switch o.Status {
		case Discharged:
			nDis++
		default:
			if o.Advisory {
				continue
			}
			if what, ok := kset[o.Key()]; ok && o.Status == Violated {
				o.Known = true
				nKnown++
				lines = append(lines, fmt.Sprintf("KNOWN-FINDING: property=%s %s [%s %s at %s]", c.Property, what, o.Rule, o.Construct, o.Pos))
				continue
			}
			nBad++
			h := sha1.Sum([]byte(o.Key()))
			rp := filepath.Join(replayDir, fmt.Sprintf("%s-%s-%s.json", c.Property, o.Rule, hex.EncodeToString(h[:])[:10]))
			b, _ := json.MarshalIndent(o, "", " ")
			_ = os.WriteFile(rp, b, 0o644)
			lines = append(lines, fmt.Sprintf("VIOLATION property=%s replay=%s", c.Property, rp))
			lines = append(lines, fmt.Sprintf("  %s: [%s] %s — %s (%s)", o.Pos, o.Rule, o.Construct, o.Detail, o.Status))
		}
	}
	// samples: all non-discharged + up to 3 discharged per rule
	var samples []any
	perRule := map[string]int{}
	for _, o := range c.Obs {
		if o.Status != Discharged {
			samples = append(samples, o)
			continue
		}
		if perRule[o.Rule] < 3 {
			perRule[o.Rule]++
			samples = append(samples, o)
		}
	}
	rules := make([]string, 0, len(ruleCount))
	for r := range ruleCount {
		rules = append(rules, r)
	}
	sort.Strings(rules)
	ruleStats := map[string]any{}
	for _, r := range rules {
		m := map[string]any{}
		for k, v := range ruleCount[r] {
			m[k] = v
		}
		if fl, ok := c.Floors[r]; ok {
			m["instances"] = fl[0]
			m["floor"] = fl[1]
		}
		ruleStats[r] = m
	}
	cov := map[string]any{
		"explanation":         meta.Explanation,
		"obligations":         len(c.Obs),
		"discharged":          nDis,
		"known_findings":      nKnown,
		"evaluations":         len(c.Obs),
		"distinct_nontrivial": len(distinct),
		"rule": "every instance (call site / CFG path query / decision-table cell / call-graph fact) of the repo-specific rules " +
			strings.Join(rules, ", ") + " is enumerated from the type-checked source of /repo; an obligation is distinct by (rule, construct) where construct = qualified function + resolved callee/field + ordinal, and every obligation is non-trivial in that a path, table cell or origin slice was actually evaluated for it",
		"samples":      samples,
		"per_rule":     ruleStats,
		"checker_cmd":  fmt.Sprintf("/verif/bin/defracheck -repo %s -property %s -tier %s", c.P.Repo, c.Property, c.Tier),
		"trusted_base": []string{"go/types + go/packages (x/tools v0.29.0) type checking", "go/cfg control-flow graphs", "go/ssa + VTA call graph (where used)", "third-party packages (corekv, badger, ipld-prime, cbor, libp2p) as opaque leaves characterised by signature", "the per-rule exception tables in /verif/checker/internal/rules (each entry: one named symbol + reason)"},
		"analysed": map[string]any{
			"packages": len(c.P.Pkgs), "files": c.P.NFiles, "tree_hash": c.P.TreeHash, "go": c.P.GoVer,
			"load_s": c.P.LoadS, "ssa_s": c.P.SSAS, "callgraph_s": c.P.CGS, "callgraph_edges": c.P.CGEdges,
			"module_functions": len(c.P.ModFns), "config": "linux/amd64 default tags, Tests=false",
		},
		"exhaustive":  true,
		"not_decided": meta.NotDecided,
		"notes":       c.Notes,
	}
	for k, v := range extra {
		cov[k] = v
	}
	ev := Evidence{
		PropertyID: c.Property, Tier: c.Tier, Seed: seed, Level: "other", Coverage: cov,
		Assumptions: append([]string{
			"decides only the structural clauses named in coverage.explanation; the behavioural remainder in coverage.not_decided is not decided by this family",
			"one build configuration (linux/amd64, default tags); reflection and third-party code opaque",
		}, meta.Assumptions...),
		WallS: wall, Violations: nBad,
	}
	_ = os.MkdirAll(filepath.Join(verifDir, "evidence"), 0o755)
	b, _ := json.MarshalIndent(ev, "", " ")
	if err := os.WriteFile(filepath.Join(verifDir, "evidence", c.Property+".json"), b, 0o644); err != nil {
		fmt.Println("error writing evidence:", err)
		return 1
	}
	fmt.Printf("defracheck property=%s tier=%s packages=%d obligations=%d discharged=%d known=%d violations=%d wall=%.1fs\n",
		c.Property, c.Tier, len(c.P.Pkgs), len(c.Obs), nDis, nKnown, nBad, wall)
	for _, r := range rules {
		fmt.Printf("  rule %-24s %v\n", r, ruleStats[r])
	}
	for _, l := range lines {
		fmt.Println(l)
	}
	if nBad > 0 {
		return 1
	}
	return 0
}

// PropMeta is the static description of a property's check.
type PropMeta struct {
	Explanation string
	NotDecided  string
	Assumptions []string
}
