// Package eng holds the shared analysis engines: loading, AST/type helpers,
// CFG path queries, SSA origin slices, call-graph cones, obligations.
package eng

import (
	"crypto/sha256"
	"encoding/hex"
	"fmt"
	"go/ast"
	"go/token"
	"go/types"
	"os"
	"path/filepath"
	"runtime"
	"sort"
	"strings"
	"sync"
	"time"

	"golang.org/x/tools/go/callgraph"
	"golang.org/x/tools/go/callgraph/cha"
	"golang.org/x/tools/go/callgraph/vta"
	"golang.org/x/tools/go/packages"
	"golang.org/x/tools/go/ssa"
	"golang.org/x/tools/go/ssa/ssautil"
)

const Module = "github.com/sourcenetwork/defradb"

// Program is the loaded, type-checked module plus lazily built SSA and call graph.
type Program struct {
	Repo   string
	Fset   *token.FileSet
	Pkgs   []*packages.Package // module packages only, sorted by path
	ByPath map[string]*packages.Package

	LoadS    float64
	GoVer    string
	TreeHash string
	NFiles   int

	ssaOnce sync.Once
	SSA     *ssa.Program
	SSAPkgs map[string]*ssa.Package
	ModFns  map[*ssa.Function]bool
	SSAS    float64

	cgOnce  sync.Once
	CG      *callgraph.Graph
	CGS     float64
	CGEdges int

	declOnce sync.Once
	decls    map[string]*FuncInfo // qualified name -> decl
	declList []*FuncInfo
}

// FuncInfo is a source function (declaration) of the module.
type FuncInfo struct {
	Pkg  *packages.Package
	Decl *ast.FuncDecl
	Obj  *types.Func
	Name string // qualified: pkgpath.Func or pkgpath.(*T).Method / pkgpath.(T).Method
	File *ast.File
	Prog *Program
}

// Load loads ./... of the repository with full syntax and types for module packages.
func Load(repo string, extraEnv ...string) (*Program, error) {
	t0 := time.Now()
	fset := token.NewFileSet()
	env := append(os.Environ(), "GOFLAGS=-mod=mod", "GOPROXY=off", "GOWORK=off")
	// Do not force GOTOOLCHAIN=local for /repo: go.mod demands go1.23.8, which the default go
	// auto-switches to from the module cache.
	env = filterEnv(env, "GOTOOLCHAIN")
	env = append(env, extraEnv...)
	cfg := &packages.Config{
		Mode: packages.NeedName | packages.NeedFiles | packages.NeedCompiledGoFiles | packages.NeedImports |
			packages.NeedDeps | packages.NeedTypes | packages.NeedSyntax | packages.NeedTypesInfo |
			packages.NeedTypesSizes | packages.NeedModule,
		Dir:   repo,
		Fset:  fset,
		Env:   env,
		Tests: false,
	}
	pkgs, err := packages.Load(cfg, "./...")
	if err != nil {
		return nil, fmt.Errorf("packages.Load: %w", err)
	}
	if len(pkgs) == 0 {
		return nil, fmt.Errorf("no packages loaded from %s", repo)
	}
	p := &Program{Repo: repo, Fset: fset, ByPath: map[string]*packages.Package{}}
	var errs []string
	for _, pk := range pkgs {
		if !strings.HasPrefix(pk.PkgPath, Module) {
			continue
		}
		for _, e := range pk.Errors {
			errs = append(errs, pk.PkgPath+": "+e.Error())
		}
		if pk.IllTyped {
			errs = append(errs, pk.PkgPath+": ill-typed")
		}
		p.Pkgs = append(p.Pkgs, pk)
		p.ByPath[pk.PkgPath] = pk
	}
	if len(errs) > 0 {
		if len(errs) > 8 {
			errs = errs[:8]
		}
		return nil, fmt.Errorf("type/load errors: %s", strings.Join(errs, "; "))
	}
	if len(p.Pkgs) < 50 {
		return nil, fmt.Errorf("only %d module packages loaded (expected ~190)", len(p.Pkgs))
	}
	sort.Slice(p.Pkgs, func(i, j int) bool { return p.Pkgs[i].PkgPath < p.Pkgs[j].PkgPath })
	p.GoVer = runtime.Version()
	p.TreeHash, p.NFiles = treeHash(p)
	p.LoadS = time.Since(t0).Seconds()
	return p, nil
}

func filterEnv(env []string, key string) []string {
	out := env[:0:0]
	for _, e := range env {
		if strings.HasPrefix(e, key+"=") {
			continue
		}
		out = append(out, e)
	}
	return out
}

func treeHash(p *Program) (string, int) {
	h := sha256.New()
	n := 0
	var files []string
	for _, pk := range p.Pkgs {
		files = append(files, pk.CompiledGoFiles...)
	}
	sort.Strings(files)
	for _, f := range files {
		b, err := os.ReadFile(f)
		if err != nil {
			continue
		}
		rel, _ := filepath.Rel(p.Repo, f)
		h.Write([]byte(rel))
		h.Write(b)
		n++
	}
	return hex.EncodeToString(h.Sum(nil))[:16], n
}

// BuildSSA builds SSA for module packages (dependencies are type-only, bodies absent).
func (p *Program) BuildSSA() {
	p.ssaOnce.Do(func() {
		t0 := time.Now()
		prog, spkgs := ssautil.Packages(p.Pkgs, ssa.InstantiateGenerics)
		prog.Build()
		p.SSA = prog
		p.SSAPkgs = map[string]*ssa.Package{}
		for i, sp := range spkgs {
			if sp != nil {
				p.SSAPkgs[p.Pkgs[i].PkgPath] = sp
			}
		}
		p.ModFns = map[*ssa.Function]bool{}
		for fn := range ssautil.AllFunctions(prog) {
			if fn.Pkg != nil && strings.HasPrefix(fn.Pkg.Pkg.Path(), Module) {
				p.ModFns[fn] = true
			} else if fn.Pkg == nil {
				// instantiations / wrappers: keep those whose origin or parent is in the module
				o := fn.Origin()
				if o != nil && o.Pkg != nil && strings.HasPrefix(o.Pkg.Pkg.Path(), Module) {
					p.ModFns[fn] = true
				} else if fn.Synthetic != "" && fn.Object() != nil && fn.Object().Pkg() != nil &&
					strings.HasPrefix(fn.Object().Pkg().Path(), Module) {
					p.ModFns[fn] = true
				}
			}
		}
		// anonymous functions
		changed := true
		for changed {
			changed = false
			for fn := range p.ModFns {
				for _, a := range fn.AnonFuncs {
					if !p.ModFns[a] {
						p.ModFns[a] = true
						changed = true
					}
				}
			}
		}
		p.SSAS = time.Since(t0).Seconds()
	})
}

// BuildCG builds the VTA call graph over module functions (CHA as initial graph).
func (p *Program) BuildCG() {
	p.BuildSSA()
	p.cgOnce.Do(func() {
		t0 := time.Now()
		p.CG = vta.CallGraph(p.ModFns, cha.CallGraph(p.SSA))
		n := 0
		for _, nd := range p.CG.Nodes {
			n += len(nd.Out)
		}
		p.CGEdges = n
		p.CGS = time.Since(t0).Seconds()
	})
}

// Rel returns a repo-relative file:line for a position.
func (p *Program) Rel(pos token.Pos) string {
	if !pos.IsValid() {
		return "-"
	}
	ps := p.Fset.Position(pos)
	rel, err := filepath.Rel(p.Repo, ps.Filename)
	if err != nil {
		rel = ps.Filename
	}
	return fmt.Sprintf("%s:%d", rel, ps.Line)
}

// Pkg returns the module package with the given path relative to the module root ("" = root).
func (p *Program) Pkg(rel string) *packages.Package {
	if rel == "" {
		return p.ByPath[Module]
	}
	return p.ByPath[Module+"/"+rel]
}
