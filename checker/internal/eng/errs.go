package eng

import (
	"go/ast"
	"go/token"
	"go/types"
	"strings"

	"golang.org/x/tools/go/cfg"
)

// ErrFinding is one error value that does not reach a consumer on some non-nil path.
type ErrFinding struct {
	Call    *ast.CallExpr // producing call
	Callee  string
	Kind    string    // "dropped" (result unused), "blank" (assigned to _), "lost" (non-nil path reaches exit/overwrite without consumer), "logged-only"
	Where   token.Pos // exit / overwrite position
	Var     string
	Detail  string
	InDefer bool
	InGo    bool
}

// AlwaysErr, when set, decides whether a call is an error constructor (never returns nil).
var AlwaysErr func(info *types.Info, call *ast.CallExpr) bool

// ErrSite is one analysed producing call.
type ErrSite struct {
	Call    *ast.CallExpr
	Callee  string
	Finding *ErrFinding // nil = error reaches a consumer on every non-nil path
}

// IsLogger reports whether a callee only records its arguments (logging/printing).
func IsLogger(name string) bool {
	return strings.HasPrefix(name, "github.com/sourcenetwork/corelog.") ||
		strings.HasPrefix(name, "log.") || strings.HasPrefix(name, "fmt.Print") || strings.HasPrefix(name, "fmt.Fprint") ||
		strings.HasPrefix(name, "log/slog.")
}

// ErrFlow analyses every call in body (one function or function literal; nested literals are
// analysed by separate invocations) that yields an error and reports where it goes.
func ErrFlow(info *types.Info, body *ast.BlockStmt, namedResults []types.Object) []ErrSite {
	flow := NewFlow(info, body)
	var sites []ErrSite

	errIndex := func(call *ast.CallExpr) int {
		t := info.TypeOf(call)
		if t == nil {
			return -1
		}
		if tup, ok := t.(*types.Tuple); ok {
			if tup.Len() > 0 && IsErrorType(tup.At(tup.Len()-1).Type()) {
				return tup.Len() - 1
			}
			return -1
		}
		if IsErrorType(t) {
			return 0
		}
		return -1
	}

	// enumerate statements of this body, not descending into nested function literals
	var visit func(n ast.Node, inDefer, inGo bool)
	handleCall := func(call *ast.CallExpr, parent ast.Node, inDefer, inGo bool) {
		idx := errIndex(call)
		if idx < 0 {
			return
		}
		// conversions are not calls
		if tv, ok := info.Types[call.Fun]; ok && tv.IsType() {
			return
		}
		name := CalleeName(info, call)
		site := ErrSite{Call: call, Callee: name}
		switch p := parent.(type) {
		case *ast.ExprStmt:
			site.Finding = &ErrFinding{Call: call, Callee: name, Kind: "dropped", Where: call.Pos(), Detail: "error result unused"}
		case *ast.DeferStmt:
			site.Finding = &ErrFinding{Call: call, Callee: name, Kind: "dropped", Where: call.Pos(), Detail: "error result of deferred call unused", InDefer: true}
		case *ast.GoStmt:
			site.Finding = &ErrFinding{Call: call, Callee: name, Kind: "dropped", Where: call.Pos(), Detail: "error result of go statement unused", InGo: true}
		case *ast.AssignStmt:
			if len(p.Rhs) == 1 && idx < len(p.Lhs) {
				lhs := p.Lhs[idx]
				if id, ok := lhs.(*ast.Ident); ok && id.Name == "_" {
					site.Finding = &ErrFinding{Call: call, Callee: name, Kind: "blank", Where: call.Pos(), Detail: "error assigned to _"}
				} else if obj := ObjOf(info, lhs); obj != nil {
					site.Finding = trackErr(info, flow, p, obj, call, name, namedResults)
				}
				// assignment to field/index: stored = consumed
			} else if len(p.Rhs) == len(p.Lhs) {
				for i, r := range p.Rhs {
					if ast.Unparen(r) == call {
						if id, ok := p.Lhs[i].(*ast.Ident); ok && id.Name == "_" {
							site.Finding = &ErrFinding{Call: call, Callee: name, Kind: "blank", Where: call.Pos(), Detail: "error assigned to _"}
						} else if obj := ObjOf(info, p.Lhs[i]); obj != nil {
							site.Finding = trackErr(info, flow, p, obj, call, name, namedResults)
						}
					}
				}
			}
		case *ast.ValueSpec:
			if len(p.Values) == 1 && idx < len(p.Names) {
				if p.Names[idx].Name == "_" {
					site.Finding = &ErrFinding{Call: call, Callee: name, Kind: "blank", Where: call.Pos(), Detail: "error assigned to _"}
				} else if obj := info.Defs[p.Names[idx]]; obj != nil {
					site.Finding = trackErr(info, flow, p, obj, call, name, namedResults)
				}
			}
		default:
			// used as an operand (return f(), g(f()), if f() != nil ...): consumed by its context
		}
		sites = append(sites, site)
	}
	visit = func(n ast.Node, inDefer, inGo bool) {
		var stack []ast.Node
		ast.Inspect(n, func(m ast.Node) bool {
			if m == nil {
				stack = stack[:len(stack)-1]
				return true
			}
			if _, ok := m.(*ast.FuncLit); ok && m != n {
				return false // separate analysis (Inspect won't send the nil for skipped subtrees)
			}
			if call, ok := m.(*ast.CallExpr); ok {
				var parent ast.Node
				for i := len(stack) - 1; i >= 0; i-- {
					if _, isParen := stack[i].(*ast.ParenExpr); isParen {
						continue
					}
					parent = stack[i]
					break
				}
				handleCall(call, parent, inDefer, inGo)
			}
			stack = append(stack, m)
			return true
		})
	}
	visit(body, false, false)
	return sites
}

// trackErr follows error variable obj from its defining statement.
func trackErr(info *types.Info, flow *FlowGraph, def ast.Node, obj types.Object, call *ast.CallExpr, callee string, named []types.Object) *ErrFinding {
	start, ok := flow.PointOf(def)
	if !ok {
		return nil // unreachable code
	}
	tracked := map[types.Object]bool{obj: true}
	// repo convention for (bool, error) results: the bool is false whenever the error is non-nil
	coBool := map[types.Object]bool{}
	switch d := def.(type) {
	case *ast.AssignStmt:
		if len(d.Rhs) == 1 {
			for _, l := range d.Lhs {
				if o := ObjOf(info, l); o != nil && o != obj {
					if b, ok := o.Type().Underlying().(*types.Basic); ok && b.Kind() == types.Bool {
						coBool[o] = true
					}
				}
			}
		}
	}
	keepFirst := false
	isNamed := func(o types.Object) bool {
		for _, n := range named {
			if n == o {
				return true
			}
		}
		return false
	}
	mentions := func(n ast.Node) bool {
		found := false
		ast.Inspect(n, func(m ast.Node) bool {
			if id, ok := m.(*ast.Ident); ok && tracked[info.Uses[id]] {
				found = true
			}
			return !found
		})
		return found
	}
	loggedOnly := false
	var finding *ErrFinding
	// classify a node: consumed / reassigned / neutral
	classify := func(n ast.Node) (consumed bool, overwritten bool) {
		switch s := n.(type) {
		case *ast.ReturnStmt:
			if len(s.Results) == 0 {
				for o := range tracked {
					if isNamed(o) {
						return true, false
					}
				}
				return false, false
			}
			if mentions(s) {
				return true, false
			}
			// some other error is surfaced instead: a constructed error, a sentinel, or a local
			// error variable that is known non-nil here (the return sits in its `!= nil` branch)
			last := ast.Unparen(s.Results[len(s.Results)-1])
			if tv, ok := info.Types[last]; ok && tv.IsNil() {
				return false, false
			}
			if !IsErrorType(info.TypeOf(last)) {
				if _, isCall := last.(*ast.CallExpr); !isCall {
					return false, false
				}
				return true, false // return f() spreading a tuple
			}
			if id, ok := last.(*ast.Ident); ok {
				if v, isVar := info.Uses[id].(*types.Var); isVar && v.Parent() != v.Pkg().Scope() {
					return KnownNonNilAt(info, flow.Body, s, v), false
				}
			}
			// `return g(...)` with g not an error constructor may return nil (`return it.Close()`,
			// `return errors.Join(other, …)`): the tracked error is not surfaced by it
			if c, ok := last.(*ast.CallExpr); ok && AlwaysErr != nil && !AlwaysErr(info, c) {
				return false, false
			}
			return true, false
		case *ast.AssignStmt:
			if s != def {
				for _, l := range s.Lhs {
					if o := ObjOf(info, l); o != nil && coBool[o] {
						delete(coBool, o)
					}
				}
			}
			// RHS mentions e?
			rhsMentions := false
			for _, r := range s.Rhs {
				if mentions(r) {
					rhsMentions = true
				}
			}
			lhsTracked := false
			for _, l := range s.Lhs {
				if o := ObjOf(info, l); o != nil && tracked[o] && s != def {
					lhsTracked = true
				}
			}
			if rhsMentions {
				// alias / wrap: every error-typed LHS variable becomes tracked; storing into a
				// field, map, slice or outer structure consumes it
				aliased := false
				for _, l := range s.Lhs {
					if o := ObjOf(info, l); o != nil {
						if _, isVar := o.(*types.Var); isVar && IsErrorType(o.Type()) {
							tracked[o] = true
							aliased = true
							if isNamed(o) {
								keepFirst = true // `if R == nil { R = e }`: the first error wins, by design
							}
						}
					}
				}
				if aliased {
					return false, false
				}
				return true, false
			}
			if lhsTracked {
				return false, true
			}
		case *ast.ExprStmt, *ast.SendStmt, *ast.GoStmt, *ast.DeferStmt, *ast.IncDecStmt:
			if !mentions(n) {
				return false, false
			}
			// captured by a function literal: unknown use -> consumed
			lit := false
			ast.Inspect(n, func(m ast.Node) bool {
				if _, ok := m.(*ast.FuncLit); ok {
					lit = true
				}
				return true
			})
			if lit {
				return true, false
			}
			if es, ok := n.(*ast.ExprStmt); ok {
				if c, ok := es.X.(*ast.CallExpr); ok {
					nm := CalleeName(info, c)
					if IsLogger(nm) {
						loggedOnly = true
						return false, false
					}
					return true, false // handed to a non-logging function / panic
				}
			}
			return true, false
		case *ast.ValueSpec:
			for _, v := range s.Values {
				if mentions(v) {
					for _, nm := range s.Names {
						if o := info.Defs[nm]; o != nil && IsErrorType(o.Type()) {
							tracked[o] = true
						}
					}
					return false, false
				}
			}
		case ast.Expr:
			// a branch condition or range/switch operand
			if mentions(s) {
				// errors.Is/As, comparison with a sentinel, e.Error() inspection: handled
				handled := false
				ast.Inspect(s, func(m ast.Node) bool {
					switch x := m.(type) {
					case *ast.CallExpr:
						switch CalleeName(info, x) {
						case "errors.Is", "errors.As", "github.com/sourcenetwork/defradb/errors.Is", "errors.Is#", "defradb/errors.Is", "errors.Unwrap":
							handled = true
						}
						if strings.HasSuffix(CalleeName(info, x), "errors.Is") || strings.HasSuffix(CalleeName(info, x), "errors.As") {
							handled = true
						}
						if se, ok := x.Fun.(*ast.SelectorExpr); ok && se.Sel.Name == "Error" {
							handled = true
						}
					case *ast.BinaryExpr:
						if x.Op == token.EQL || x.Op == token.NEQ {
							// comparison against something that is not nil = sentinel test
							isNil := func(e ast.Expr) bool {
								tv, ok := info.Types[e]
								return ok && tv.IsNil()
							}
							// (one side has to be the error itself: `evt.ID != col.ID` next to an
							// `err == nil` in the same condition inspects nothing about err)
							mentionsErr := func(e ast.Expr) bool {
								found := false
								ast.Inspect(e, func(y ast.Node) bool {
									if id, ok := y.(*ast.Ident); ok && tracked[info.Uses[id]] {
										found = true
									}
									return !found
								})
								return found
							}
							if !isNil(x.X) && !isNil(x.Y) && (mentionsErr(x.X) || mentionsErr(x.Y)) {
								handled = true
							}
						}
					case *ast.TypeAssertExpr:
						handled = true
					}
					return true
				})
				if handled {
					return true, false
				}
			}
		}
		return false, false
	}
	edge := func(cond ast.Expr, taken bool) bool {
		// evaluate the (possibly compound) condition under "tracked error is non-nil"
		t := EvalBool(info, cond, func(e ast.Expr) Tri {
			for o := range tracked {
				if is, nonNilWhenTrue := ErrNilTest(info, e, o); is {
					return TriOf(nonNilWhenTrue)
				}
			}
			if o := ObjOf(info, e); o != nil && coBool[o] {
				return False
			}
			return Unknown
		})
		switch t {
		case True:
			return taken
		case False:
			return !taken
		}
		return true
	}
	hit := flow.Forward(start, false, Walk{
		Visit: func(pt Point, n ast.Node) Action {
			consumed, over := classify(n)
			if consumed {
				return Cut
			}
			if over {
				finding = &ErrFinding{Call: call, Callee: callee, Kind: "lost", Where: n.Pos(), Var: obj.Name(),
					Detail: "error variable overwritten before it reaches a return or sink"}
				return Hit
			}
			return Continue
		},
		Edge: edge,
		OnExit: func(ret *ast.ReturnStmt, b *cfg.Block) Action {
			if ret == nil || len(ret.Results) == 0 {
				// (go/cfg makes the implicit return at the end of a body explicit: a ReturnStmt without results)
				// falling off the end of a function literal (e.g. a deferred closure) while the
				// error sits in a named result of the enclosing function: it is what gets returned
				for o := range tracked {
					if isNamed(o) {
						return Continue
					}
				}
				if keepFirst || keepFirstIdiom(info, flow.Body, tracked, isNamed) {
					return Continue
				}
			}
			where := flow.Body.End()
			if ret != nil {
				where = ret.Pos()
			}
			kind, detail := "lost", "a path on which the error may be non-nil reaches this exit without returning, wrapping or storing it"
			if loggedOnly {
				kind, detail = "logged-only", "the error is only logged; the function then continues/returns as if the call had succeeded"
			}
			finding = &ErrFinding{Call: call, Callee: callee, Kind: kind, Where: where, Var: obj.Name(), Detail: detail}
			return Hit
		},
	})
	_ = hit
	return finding
}

// KnownNonNilAt reports whether error variable v is known non-nil at statement at: at lies in the
// body of an `if` whose condition implies v != nil (or in the else of one implying v == nil).
func KnownNonNilAt(info *types.Info, body *ast.BlockStmt, at ast.Node, v types.Object) bool {
	res := false
	ast.Inspect(body, func(n ast.Node) bool {
		is, ok := n.(*ast.IfStmt)
		if !ok {
			return true
		}
		atom := func(val Tri) func(e ast.Expr) Tri {
			return func(e ast.Expr) Tri {
				if t, nonNilWhenTrue := ErrNilTest(info, e, v); t {
					if nonNilWhenTrue {
						return val
					}
					return val.Not()
				}
				return Unknown
			}
		}
		inBody := is.Body.Pos() <= at.Pos() && at.End() <= is.Body.End()
		inElse := is.Else != nil && is.Else.Pos() <= at.Pos() && at.End() <= is.Else.End()
		if inBody {
			// cond true must imply v != nil: assuming v == nil the condition must be False
			if EvalBool(info, is.Cond, atom(False)) == False {
				res = true
			}
		}
		if inElse {
			if EvalBool(info, is.Cond, atom(False)) == True {
				res = true
			}
		}
		return true
	})
	return res
}

// keepFirstIdiom recognises `if R == nil { R = e }` (R a named error result of the enclosing
// function, e a tracked error): the first error wins by design, so e is deliberately discarded on
// the path where R is already set — and R, non-nil, is what the caller gets.
func keepFirstIdiom(info *types.Info, body *ast.BlockStmt, tracked map[types.Object]bool, isNamed func(types.Object) bool) bool {
	found := false
	ast.Inspect(body, func(n ast.Node) bool {
		is, ok := n.(*ast.IfStmt)
		if !ok {
			return true
		}
		for _, st := range is.Body.List {
			as, ok := st.(*ast.AssignStmt)
			if !ok || len(as.Lhs) != 1 || len(as.Rhs) != 1 {
				continue
			}
			r := ObjOf(info, as.Lhs[0])
			e := ObjOf(info, as.Rhs[0])
			if r == nil || e == nil || !isNamed(r) || !tracked[e] {
				continue
			}
			if t, nonNilWhenTrue := ErrNilTest(info, is.Cond, r); t && !nonNilWhenTrue {
				found = true
			}
		}
		return true
	})
	return found
}
